"""C08 — a crash at any point leaves a restartable, consistent state.

Tie = fault enumeration on the REAL code (DESIGN 4.4/4.5, section 6 C08):

  * the real `setup_config`, `scheduler`, `REPEX_state.treat_output`, `PathStorage.output`,
    `write_to_pathens`, `write_toml`, `load_paths_from_disk` run in forked children with a lattice
    plug-in engine and a synchronous runner (harness/c08_support/sim.py);
  * an audit hook logs every file-system effect of the main process; the reference run of a history
    gives the effect sequence of every step;
  * for EVERY audited effect index k of the history (hence every step kind that occurs: zero-swap
    accept, shooting accept, wire-fencing accept, reject, the delete_old block, the final write_toml)
    a child is killed with os._exit just before effect k, right AFTER the real call of effect k has
    returned (wrappers around os.mkdir/rmdir/remove/unlink/rename/replace; shutil.move and os.makedirs go
    through them) — data written to a file that is still open is then lost with the process, as in a
    hard kill —, and for every open-for-write also right after the open (file created / truncated) and
    after half of the bytes (written at the close of that file, wherever the close happens);
  * the tree left behind is compared key by key with the Lean model's `crashStep` (Model/Fs.lean);
  * then a fresh child restarts with the real entry point (`setup_config("restart.toml")` +
    `scheduler`) and continues to the end; outcome class, active set, data rows, re-issued jobs are
    compared with the model's prediction, and the property predicates are evaluated directly:
      P1 the restart starts (and the continuation reaches the end),
      P2 every path of the restart record loads, with non-zero weight in its slot,
      P3 no live path has lost files (inspected on the tree, without infretis),
      P4 after continuing, every replaced path appears exactly once in the data file,
      P5 the in-flight jobs recorded in the restart file are the first ones re-issued.
  * crash-after-restart / double crashes: the same enumeration is repeated from crashed trees.

The model has a `Variant` switch for write_toml (asIs: truncate in place; repaired: temp file +
os.replace).  The variant is read off the real effect trace; both are accepted.
"""
from __future__ import annotations

import json
import os
import re
import shutil
import tempfile

from c08_support import sim

SIG_TRUNC = "C08:restart-toml-truncated-in-place"
SIG_ROW = "C08:data-row-before-restart-file"

KIND = {"pdir": 0, "acc": 1, "order": 2, "energy": 3, "traj": 4, "tfile": 5, "wfile": 6}
TXT = {"order.txt": 2, "energy.txt": 3, "traj.txt": 4}
TXT_REV = {v: k for k, v in TXT.items()}


# ----------------------------------------------------------------------------------------------
# tokens
# ----------------------------------------------------------------------------------------------
def tl(xs, f=str):
    xs = list(xs)
    return " ".join([str(len(xs))] + [f(x) for x in xs])


def t_pinfo(p):
    return f"{p['pn']} {p['cid']} {tl(p['files'], lambda nc: f'{nc[0]} {nc[1]}')}"


def t_job(j):
    return f"{tl(j[0])} {tl(j[1])}"


def t_opt(x):
    return "0" if x is None else str(x + 1)


def t_rec(r):
    return f"{r['cstep']} {t_opt(r['rf'])} {tl(r['active'])} {r['traj_num']} {tl(r['locked'], t_job)} {r.get('steps', 0)}"


def t_rfile(r):
    if r is None:
        return "0"
    if r == "empty":
        return "1"
    if r == "part":
        return "2"
    return "3 " + t_rec(r)


def t_disk(files, rows, garbled, torn, restart, tmp):
    fs = tl(files.items(), lambda kv: f"{kv[0][0]} {kv[0][1]} {kv[0][2]} {kv[1][0]} {kv[1][1]}")
    return f"{fs} {tl(rows)} {garbled} {1 if torn else 0} {t_rfile(restart)} {t_rfile(tmp)}"


def t_mem(m):
    return (f"{m['cstep']} {t_opt(m['rf'])} {tl(m['live'], t_pinfo)} {m['traj_num']} "
            f"{tl(m['olds'], lambda o: f'{o[0]} {tl(o[1])}')} {tl(m['locked'], t_job)} {m.get('steps', 0)}")


def t_choice(c):
    accs = tl(c["accs"], lambda a: f"{t_pinfo(a['old'])} {a['cid']} {tl(a['files'], lambda nc: f'{nc[0]} {nc[1]}')}")
    return f"{accs} {tl(c['newLive'], t_pinfo)} {tl(c['locked'], t_job)} {1 if c['inc'] else 0} {c['halfRows']} {1 if c['halfTorn'] else 0}"


def t_manifest(m):
    return tl(sorted(m.items()), lambda kv: f"{kv[0]} {tl(kv[1])}")


class Toks:
    def __init__(self, s):
        self.t = s.split()
        self.i = 0

    def nat(self):
        v = int(self.t[self.i])
        self.i += 1
        return v

    def lst(self, f):
        return [f() for _ in range(self.nat())]

    def pinfo(self):
        pn, cid = self.nat(), self.nat()
        return {"pn": pn, "cid": cid, "files": self.lst(lambda: (self.nat(), self.nat()))}

    def job(self):
        return (self.lst(self.nat), self.lst(self.nat))

    def opt(self):
        v = self.nat()
        return None if v == 0 else v - 1

    def rec(self):
        cs, rf = self.nat(), self.opt()
        act = self.lst(self.nat)
        tn = self.nat()
        lk = self.lst(self.job)
        return {"cstep": cs, "rf": rf, "active": act, "traj_num": tn, "locked": lk, "steps": self.nat()}

    def rfile(self):
        t = self.nat()
        return [None, "empty", "part"][t] if t < 3 else self.rec()

    def disk(self):
        files = {}
        for _ in range(self.nat()):
            k = (self.nat(), self.nat(), self.nat())
            files[k] = (self.nat(), self.nat())
        rows = self.lst(self.nat)
        g, torn = self.nat(), self.nat()
        return {"files": files, "rows": rows, "garbled": g, "torn": bool(torn), "restart": self.rfile(),
                "tmp": self.rfile()}

    def mem(self):
        cs, rf = self.nat(), self.opt()
        live = self.lst(self.pinfo)
        tn = self.nat()
        olds = self.lst(lambda: (self.nat(), self.lst(self.nat)))
        lk = self.lst(self.job)
        return {"cstep": cs, "rf": rf, "live": live, "traj_num": tn, "olds": olds, "locked": lk, "steps": self.nat()}


def disk_tokens(d):
    return t_disk(d["files"], d["rows"], d["garbled"], d["torn"], d["restart"], d["tmp"])


# ----------------------------------------------------------------------------------------------
# registries: file names and contents  <->  the model's naturals
# ----------------------------------------------------------------------------------------------
class Reg:
    def __init__(self):
        self.names = {}
        self.rnames = {}
        self.fsha = {}
        self.rfsha = {}
        self.txt = {}          # (kind, cid) -> (sha, size)
        self.ncid = 100

    def name(self, s):
        if s not in self.names:
            self.names[s] = len(self.names) + 1
            self.rnames[self.names[s]] = s
        return self.names[s]

    def content(self, sha):
        if sha not in self.fsha:
            self.fsha[sha] = len(self.fsha) + 1
            self.rfsha[self.fsha[sha]] = sha
        return self.fsha[sha]

    def fresh_cid(self):
        self.ncid += 1
        return self.ncid

    def key(self, rel):
        """relative path -> model key, or None when the model does not speak about it"""
        parts = rel.split("/")
        if parts[0] == "load" and len(parts) >= 2 and parts[1].isdigit():
            pn = int(parts[1])
            if len(parts) == 2:
                return (0, pn, 0)
            if len(parts) == 3 and parts[2] == "accepted":
                return (1, pn, 0)
            if len(parts) == 3 and parts[2] in TXT:
                return (TXT[parts[2]], pn, 0)
            if len(parts) == 4 and parts[2] == "accepted":
                return (5, pn, self.name(parts[3]))
        if re.fullmatch(r"worker\d+", parts[0]) and len(parts) == 2:
            return (6, 0, self.name(parts[1]))
        return None

    def rel(self, key, worker="worker0"):
        k, pn, nm = key
        if k == 0:
            return f"load/{pn}"
        if k == 1:
            return f"load/{pn}/accepted"
        if k in TXT_REV:
            return f"load/{pn}/{TXT_REV[k]}"
        if k == 5:
            return f"load/{pn}/accepted/{self.rnames[nm]}"
        return f"{worker}/{self.rnames[nm]}"


# ----------------------------------------------------------------------------------------------
# reading real trees
# ----------------------------------------------------------------------------------------------
def sha_of(p):
    import hashlib
    with open(p, "rb") as f:
        b = f.read()
    return hashlib.sha1(b).hexdigest()[:12], len(b)


def parse_current(text):
    """[current] of a restart file's text -> model record, or None if it does not parse"""
    import tomli
    try:
        cfg = tomli.loads(text)
        cur = cfg["current"]
        return {"cstep": int(cur["cstep"]), "rf": cur.get("restarted_from"),
                "active": [int(a) for a in cur["active"]], "traj_num": int(cur["traj_num"]),
                "steps": int(cfg["simulation"]["steps"]),
                "locked": [([int(e) for e in l[0]], [int(p) for p in l[1]]) for l in cur.get("locked", [])],
                # since 147c104 an entry is a triple: the third item is the ordinal of the job's random stream
                "ordinals": [(int(l[2]) if len(l) > 2 else None) for l in cur.get("locked", [])]}
    except Exception:  # noqa: BLE001
        return None


def read_restart(root, name="restart.toml"):
    p = os.path.join(root, name)
    if not os.path.isfile(p):
        return None
    with open(p, "rb") as f:
        b = f.read()
    if not b:
        return "empty"
    r = parse_current(b.decode("utf8", "replace"))
    return r if r is not None else "part"


def read_data(root, fname="infretis_data.txt"):
    rows = sim.data_rows(root, fname)
    if rows is None:
        return None
    p = os.path.join(root, fname)
    with open(p, "rb") as f:
        raw = f.read()
    torn_tail = bool(raw) and not raw.endswith(b"\n")
    good = [r for r in rows if isinstance(r, int)]
    bad = [r for r in rows if not isinstance(r, int)]
    return {"rows": good, "garbled": len(bad) - (1 if torn_tail and bad else 0), "torn": torn_tail}


def stored_orders(root, active):
    """order.txt of every active path as it is on disk: {pn: [[order columns of frame 0], ...]} (None = unreadable)"""
    out = {}
    for pn in active:
        fp = os.path.join(root, "load", str(pn), "order.txt")
        try:
            with open(fp) as f:
                out[str(pn)] = [[round(float(x), 6) for x in ln.split()[1:]] for ln in f
                                if ln.strip() and not ln.startswith("#")]
        except (OSError, ValueError):
            out[str(pn)] = None
    return out


def live_files_present(root, active):
    """P3, evaluated on the tree without infretis: txt files and every referenced trajectory file"""
    missing = []
    for pn in active:
        d = os.path.join(root, "load", str(pn))
        for t in ("traj.txt", "order.txt"):
            fp = os.path.join(d, t)
            if not os.path.isfile(fp) or os.path.getsize(fp) == 0:
                missing.append(f"load/{pn}/{t}")
        tp = os.path.join(d, "traj.txt")
        if os.path.isfile(tp):
            with open(tp) as f:
                names = {ln.split()[1] for ln in f if ln.strip() and not ln.startswith("#") and len(ln.split()) >= 4}
            for nm in sorted(names):
                if not os.path.isfile(os.path.join(d, "accepted", nm)):
                    missing.append(f"load/{pn}/accepted/{nm}")
    return missing


# ----------------------------------------------------------------------------------------------
# a segment = one process life (fresh start or restart) of a history
# ----------------------------------------------------------------------------------------------
class Segment:
    """reference run of one process life + the model run along it"""

    def __init__(self, ctx, work, spec, reg, start_tree=None, model=None, pid=11111, completion="fifo", label=""):
        self.ctx, self.work, self.spec, self.reg = ctx, work, spec, reg
        self.start_tree = start_tree        # None = fresh
        self.model0 = model                 # {"mem": dict, "disk": dict, "pinfo": {pn: pinfo}, "manifest": {...}} or None
        self.pid = pid
        self.completion = spec.get("completion", completion)
        self.label = label
        self.case_filter = None
        self.pre_clean = None
        self.after_points = True
        self.cut_points = True
        self.start_cstep = 0
        self.n = spec["nintf"] + 1
        self.steps = []
        self.variant = None
        self.chain = []
        self.start_rec = None
        self.model_ok = model is not None and ctx._driver_ok and spec.get("workers", 1) == 1

    # ---- jobs
    def job(self, root, crash=None):
        j = {"root": root, "result": root + ".result.json", "pid": self.pid, "completion": self.completion}
        if self.start_tree is None:
            j.update(kind="fresh", spec=self.spec)
        else:
            j.update(kind="restart", entry="restart.toml")
        if crash is not None:
            j["crash"] = crash
        return j

    def prepare(self, root):
        if self.start_tree is not None:
            sim.copytree(self.start_tree, root)

    # ---- reference run
    def reference(self):
        root = os.path.join(self.work, f"ref{self.label}")
        self.prepare(root)
        (rc, res), = sim.runjobs([self.job(root)])
        self.ref_root, self.ref = root, res
        if res is None or res.get("phase") != "finished":
            return False
        self.events = res["events"]
        self.split_steps()
        for st in self.steps:
            mm = st.get("inflight_mismatch")
            if mm:
                self.ctx.fail("C08:inflight-job-missing-from-restart-record",
                              f"restart.toml written at step {mm['cstep']} records in-flight jobs {mm['recorded']} but "
                              f"{mm['in_flight']} are in flight (process life {self.label}, after {len(self.chain)} crash(es))",
                              {"spec": self.spec, "chain": self.chain, "completion": self.completion, "check": "inflight", **mm})
                break
        # a job re-issued after the restart keeps the stream ordinal recorded for it (147c104)
        if isinstance(self.start_rec, dict):
            want = {(tuple(l[0]), tuple(l[1])): o for l, o in zip(self.start_rec["locked"], self.start_rec.get("ordinals", []))
                    if o is not None}
            done = False
            for st in self.steps:
                rec = st.get("rec") or {}
                for l, o in zip(rec.get("locked", []), rec.get("ordinals", [])):
                    key = (tuple(l[0]), tuple(l[1]))
                    if key in want and o is not None and o != want[key] and not done:
                        done = True
                        self.ctx.fail("C08:reissued-job-lost-its-stream-ordinal",
                                      f"job {key} was recorded in flight with stream ordinal {want[key]}; after the restart "
                                      f"the record of step {rec.get('cstep')} lists it with ordinal {o}",
                                      {"spec": self.spec, "chain": self.chain, "check": "ordinal"})
                for key in list(want):
                    if key not in {(tuple(l[0]), tuple(l[1])) for l in rec.get("locked", [])}:
                        want.pop(key)      # finished: a later job with the same ensemble/path is a new one
        return True

    def split_steps(self):
        ev = self.events
        steps = []
        cur = None
        for e in ev:
            tags = e["tags"]
            if "treat_output" in tags:
                key = ("step", e["cstep"])
            elif "loop" in tags and "write_toml" in tags:
                key = ("final", e["cstep"])
            else:
                key = None
            if key is None:
                cur = None
                e["step"] = None
                continue
            if cur is None or cur["key"] != key:
                cur = {"key": key, "ev": []}
                steps.append(cur)
            cur["ev"].append(e["k"])
            e["step"] = len(steps) - 1
        self.steps = steps
        # variant of write_toml, read off the trace (and: does every record list the jobs in flight?)
        self.variant = None
        for st in steps:
            evs = [ev[i] for i in st["ev"] if "write_toml" in ev[i]["tags"]]
            if len(evs) == 1 and evs[0]["op"] == "open-w" and evs[0]["path"] == "restart.toml":
                v = "asIs"
            elif (len(evs) == 2 and evs[0]["op"] == "open-w" and evs[1]["op"] == "move"
                  and evs[1]["path"] == evs[0]["path"] and evs[1]["dest"] == "restart.toml"):
                # renamed while the temp file is still open = its content is still in the write buffer
                v = "renamedOpen" if evs[0]["path"] in evs[1].get("open_handles", []) else "repaired"
                st["tmpname"] = evs[0]["path"]
            else:
                v = "unknown"
            st["variant"] = v
            if self.variant is None:
                self.variant = v
            elif self.variant != v:
                self.variant = "mixed"
        self.describe_steps()

    def describe_steps(self):
        """step kinds + the Choice of every step (inputs of the model), from the reference run"""
        ev, reg = self.events, self.reg
        sub = self.ref.get("submitted", [])
        moves = self.spec["moves"]
        w = self.spec.get("workers", 1)
        nstep = 0
        for st in self.steps:
            evs = [ev[i] for i in st["ev"]]
            blocks = []
            for e in evs:
                m = re.fullmatch(r"load/(\d+)/order\.txt", e["path"] or "")
                if e["op"] == "open-w" and m:
                    blocks.append({"pn": int(m.group(1)), "files": [], "sha": {}})
                m = re.fullmatch(r"load/(\d+)/(order|energy|traj)\.txt", e["path"] or "")
                if e["op"] == "open-w" and m and blocks:
                    blocks[-1]["sha"][TXT[m.group(2) + ".txt"]] = (e.get("sha"), e.get("written"))
                if e["op"] == "move" and (e.get("dest") or "").startswith("load/") and "_move_path" in e["tags"]:
                    blocks[-1]["files"].append((reg.name(os.path.basename(e["dest"])), reg.content(e.get("sha"))))
            data_ev = [e for e in evs if e["op"] == "open-a" and "write_to_pathens" in e["tags"]]
            rows = []
            half_rows = 0
            half_torn = False
            if data_ev:
                txt = data_ev[0].get("text", "")
                rows = [int(l.split()[0]) for l in txt.split("\n") if l.strip()]
                hb = txt.encode()[: len(txt.encode()) // 2]
                half_rows = hb.count(b"\n")
                half_torn = bool(hb) and not hb.endswith(b"\n")
                st["data_text"] = txt
            r_ev = [e for e in evs if "write_toml" in e["tags"] and e["op"] == "open-w"]
            rec = parse_current(r_ev[0].get("text", "")) if r_ev else None
            if r_ev and rec is not None and "inflight" in r_ev[0]:
                want = sorted((sorted(j["ens"]), sorted(j["paths"])) for j in r_ev[0]["inflight"])
                got = sorted((sorted(x - 1 for x in l[0]), sorted(l[1])) for l in rec["locked"])
                st["inflight_mismatch"] = None if want == got else {"in_flight": want, "recorded": got, "cstep": rec["cstep"]}
            dels = [e for e in evs if e["op"] in ("remove", "rmdir") and "_move_path" not in e["tags"]]
            st.update(blocks=blocks, rows=rows, half_rows=half_rows, half_torn=half_torn, rec=rec, has_del=bool(dels),
                      inc=st["key"][0] == "step")
            if st["key"][0] == "final":
                st["kind"] = "final-write"
            else:
                if w == 1 and nstep < len(sub):
                    ens = sub[nstep]["ens"]
                    mv = "zs" if len(ens) == 2 else ("sh" if ens[0] == -1 else moves[ens[0] + 1])
                else:
                    mv = "zs" if len(blocks) == 2 else "mv"
                st["kind"] = f"{mv}-{'acc' if blocks else 'rej'}" + ("+del" if dels else "")
                nstep += 1

    # ---- model run along the reference
    def run_model(self):
        """fills st['pre'] (mem, disk with worker files), st['choice'], st['effects'], st['align']"""
        if not self.model_ok:
            return
        ctx, reg = self.ctx, self.reg
        if self.variant not in ("asIs", "repaired", "renamedOpen"):
            ctx.disagree({"segment": self.label}, f"write_toml effect pattern {self.variant}",
                         "asIs: open-w restart.toml | repaired: open-w tmp, rename tmp restart.toml")
            self.model_ok = False
            return
        mem = json.loads(json.dumps(self.model0["mem"]))
        mem["live"] = [dict(p, files=[tuple(x) for x in p["files"]]) for p in mem["live"]]
        disk = self.model0["disk"]
        pinfo = dict(self.model0["pinfo"])
        manifest = dict(self.model0["manifest"])
        cfg = f"{self.n} {1 if self.spec.get('delete_old') else 0} {1 if self.spec.get('delete_old_all') else 0} " \
              f"{ {'asIs': 0, 'repaired': 1, 'renamedOpen': 2}[self.variant] } {1 if cleans_on_restart() else 0}"
        self.cfg = cfg
        for si, st in enumerate(self.steps):
            if st["rec"] is None or len(st["rows"]) != len(st["blocks"]):
                ctx.disagree({"segment": self.label, "step": si}, "step not decodable from the trace", "-")
                self.model_ok = False
                return
            accs = []
            files = dict(disk["files"])
            for old_pn, b in zip(st["rows"], st["blocks"]):
                if old_pn not in pinfo:
                    ctx.disagree({"segment": self.label, "step": si}, f"replaced path {old_pn} unknown to the model", "-")
                    self.model_ok = False
                    return
                cid = reg.fresh_cid()
                for kind, (sha, size) in b["sha"].items():
                    reg.txt[(kind, cid)] = (sha, size)
                new = {"pn": b["pn"], "cid": cid, "files": list(b["files"])}
                b["pinfo"] = new
                accs.append({"old": pinfo[old_pn], "cid": cid, "files": list(b["files"])})
                manifest[cid] = [n for n, _ in b["files"]]
                for (nm, c) in b["files"]:
                    files[(6, 0, nm)] = (4, c)          # the worker wrote its trajectory files
            newpins = dict(pinfo)
            for b in st["blocks"]:
                newpins[b["pn"]] = b["pinfo"]
            try:
                new_live = [newpins[a] for a in st["rec"]["active"]]
            except KeyError:
                ctx.disagree({"segment": self.label, "step": si}, f"active {st['rec']['active']} has a path unknown to the model", "-")
                self.model_ok = False
                return
            choice = {"accs": accs, "newLive": new_live, "locked": st["rec"]["locked"], "inc": st["inc"],
                      "halfRows": st["half_rows"], "halfTorn": st["half_torn"]}
            pre_disk = dict(disk, files=files)
            mem = self.reorder_olds(mem, [self.events[i] for i in st["ev"]])
            st["pre"] = {"mem": mem, "disk": pre_disk}
            st["choice"] = choice
            st["manifest"] = dict(manifest)
            line = f"step {cfg} {t_mem(mem)} {disk_tokens(pre_disk)} {t_choice(choice)}"
            hyp_line = f"hyp {cfg} {t_mem(mem)} {disk_tokens(pre_disk)} {t_choice(choice)} {t_manifest(manifest)}"
            out, hyp = ctx.driver([line, hyp_line])
            self.judge_hypotheses(si, st, mem, pre_disk, hyp)
            if out == "bad-op":
                ctx.disagree({"segment": self.label, "step": si}, "driver rejected the step line", line[:300])
                self.model_ok = False
                return
            a, b_, c = out.split(" | ")
            mem = Toks(a).mem()
            disk = Toks(b_).disk()
            effs = c.split()[1:]
            st["effects"] = effs
            st["post"] = {"mem": mem, "disk": disk}
            pinfo = newpins
            self.align(si, st)
            # the model's record must be the one the code wrote
            mrec = disk["restart"]
            code_rec = dict(st["rec"])
            if not isinstance(mrec, dict) or (mrec["cstep"], mrec["active"], mrec["traj_num"]) != \
                    (code_rec["cstep"], code_rec["active"], code_rec["traj_num"]):
                ctx.disagree({"segment": self.label, "step": si, "what": "restart record"}, code_rec, mrec)
        self.final_pinfo = pinfo
        self.final_manifest = manifest

    def judge_hypotheses(self, si, st, mem, pre_disk, hyp):
        """the HYPOTHESES of the theorems (Inv, WF, Cover, Complete: Model/FsCheck.lean, sound by
        `hyp_checks_sound`) on the state and step outcome reconstructed from the real run"""
        ctx = self.ctx
        where = {"segment": self.label, "step": si, "kind": st.get("kind"), "what": "hypotheses of the theorems on a real state"}
        if hyp == "bad-op" or "=" not in hyp:
            ctx.disagree(where, "driver rejected the hyp line", hyp[:200])
            return
        fl = dict(f.split("=") for f in hyp.split())
        if not st["inc"] and mem.get("rf") is not None and mem["rf"] == mem["cstep"]:
            # the final write_toml of a life that made no step: restart of a FINISHED run (62f494c).  `WF.final`
            # excludes it; `finished_run_restart_refuses`: the record it writes makes the next restart stop.
            ctx.hit("hyp:finished-run-final-write")
            if fl.get("wf") != "0" or fl.get("out2") != "refuses" or mem.get("steps", 0) > mem["cstep"]:
                ctx.disagree(dict(where, what="final write right after a restart"), fl, "wf=0 out2=refuses, no steps left")
            return
        need = ["wf", "cover", "complete", "inv2", "complete2"]
        if pre_disk.get("restart") is None:
            ctx.hit("hyp:first-step-of-a-fresh-run(no record yet)")      # Inv needs a record: not a restart case
        else:
            need.append("inv")
        bad = [k for k in need if fl.get(k) != "1"]
        if bad:
            ctx.disagree(where, {k: fl.get(k) for k in need}, f"all 1 (false: {bad})")
        ctx.hit("hyp:steps-checked")

    def reorder_olds(self, mem, evs):
        """`adress` is a Python set: the order in which the trajectory files of a queued path are removed is
        whatever the set iterates in (it depends on the absolute path of the run directory).  The model
        takes the order as an input: use the one this very run shows."""
        obs = {}
        for e in evs:
            m = re.fullmatch(r"load/(\d+)/accepted/(.+)", e.get("path") or "")
            if e["op"] == "remove" and m and "_move_path" not in e["tags"]:
                obs.setdefault(int(m.group(1)), []).append(self.reg.name(m.group(2)))
        if not obs:
            return mem
        olds = []
        for pn, names in mem["olds"]:
            o = obs.get(pn)
            if o and set(o) <= set(names):
                names = o + [x for x in names if x not in o]
            olds.append((pn, names))
        return dict(mem, olds=olds)

    def expected_events(self, st):
        """the audit events the model's effect list stands for: [(model index, (op, path, dest))]"""
        reg = self.reg
        out = []
        for j, e in enumerate(st["effects"]):
            f = e.split(":")
            op = f[0]
            keys = [tuple(int(x) for x in k.split(",")) for k in f[1:] if k.count(",") == 2]
            if op == "mkdir":
                out.append((j, ("mkdir", reg.rel(keys[0]), None)))
            elif op == "openw":
                out.append((j, ("open-w", reg.rel(keys[0]), None)))
            elif op in ("remove", "rmdir"):
                out.append((j, (op, reg.rel(keys[0]), None)))
            elif op == "move":
                out.append((j, ("move", reg.rel(keys[0]), reg.rel(keys[1]))))
            elif op == "dataopen":
                out.append((j, ("open-a", "infretis_data.txt", None)))
            elif op == "ropen":
                out.append((j, ("open-w", "restart.toml" if f[1] == "0" else st.get("tmpname", "?tmp"), None)))
            elif op == "rrename":
                out.append((j, ("move", st.get("tmpname", "?tmp"), "restart.toml")))
        return out

    def align(self, si, st):
        for i in st["ev"]:
            if self.events[i]["op"] == "remove" and "_move_path" in self.events[i]["tags"]:
                self.ctx.hit("move-onto-existing-destination")      # _move_path: os.path.exists(dest) -> os.remove
        exp = self.expected_events(st)
        real = []
        for i in st["ev"]:
            e = self.events[i]
            p = e["path"]
            if p and p.startswith("infretis_data"):
                p = "infretis_data.txt"
            real.append((e["op"], p, e.get("dest")))
        # a failed mkdir (directory exists) is audited but is no effect: the model lists it too (no-op)
        expl = [x[1] for x in exp]
        st["unordered"] = set()
        if expl != real and len(expl) == len(real):
            # os.listdir order of the leftovers in accepted/: compare such runs as sets
            def is_acc_remove(x):
                return x[0] == "remove" and re.fullmatch(r"load/\d+/accepted/.+", x[1] or "") is not None
            i = 0
            expl2 = list(expl)
            while i < len(real):
                if is_acc_remove(real[i]):
                    j = i
                    while j < len(real) and is_acc_remove(real[j]) and os.path.dirname(real[j][1]) == os.path.dirname(real[i][1]):
                        j += 1
                    if sorted(real[i:j]) == sorted(expl[i:j]) and real[i:j] != expl[i:j]:
                        expl2[i:j] = real[i:j]
                        st["unordered"].update(st["ev"][i + 1:j])
                    i = j
                else:
                    i += 1
            if expl2 == real:
                self.ctx.hit("leftover-run-order-differs")
                expl = expl2
        if expl != real:
            self.ctx.disagree({"segment": self.label, "step": si, "kind": st["kind"], "what": "effect sequence"},
                              real, expl)
            st["align"] = None
            return
        st["align"] = {st["ev"][n]: exp[n][0] for n in range(len(real))}

    # ---- the restart procedure (setup_config/clean_data_file, initiation loop) of a restarted life
    def first_step_k(self):
        return self.steps[0]["ev"][0] if self.steps else len(self.events)

    def in_restart_procedure(self, e):
        return e["step"] is None and e["k"] < self.first_step_k() and (
            "clean_data_file" in e["tags"] or ("prep_md_items" in e["tags"] and e["op"] == "mkdir"))

    def restart_point(self, k, mode):
        """audited event k of the restart procedure + crash mode -> (index, half) in the model's effect list
        [dtopen, dtwrite, dtreplace]? ++ [mkdirworker i …]  (Model/FsRestart.lean `restartRun`)"""
        pre = [e for e in self.events if e["k"] < self.first_step_k() and self.in_restart_procedure(e)]
        clean = [e for e in pre if "clean_data_file" in e["tags"]]
        e = self.events[k]
        if e in clean:
            if e["op"] == "open-w":
                return {"before": (0, False), "trunc": (1, False), "half": (1, True)}.get(mode)
            return {"before": (2, False), "after": (3, False)}.get(mode)
        base = 3 if clean else 0
        i = [x["k"] for x in pre if x not in clean].index(k)
        return {"before": (base + i, False), "after": (base + i + 1, False)}.get(mode)

    def restart_expected(self):
        """the audited events the model's restart effect list stands for"""
        pre = [e for e in self.events if e["k"] < self.first_step_k() and self.in_restart_procedure(e)]
        out = []
        for e in pre:
            if "clean_data_file" in e["tags"]:
                out.append("dtopen" if e["op"] == "open-w" else "dtreplace" if e["op"] == "move" else f"?{e['op']}")
                if e["op"] == "open-w":
                    out.append("dtwrite")
            else:
                m = re.fullmatch(r"worker(\d+)", e["path"] or "")
                out.append(f"mkdirworker:{m.group(1)}" if m else f"?{e['path']}")
        return out

    # ---- crash enumeration
    def crash_cases(self, limit_events=None, modes=("before", "trunc", "half")):
        cases = []
        for e in self.events:
            if limit_events is not None and e["k"] >= limit_events:
                break
            if self.case_filter is not None and not self.case_filter(e):
                continue
            if e["step"] is None:
                if "write_header" in e["tags"]:
                    continue
                cases.append((e["k"], "before"))
                if self.start_tree is not None and self.in_restart_procedure(e):
                    # the restart procedure itself: clean_data_file rewriting the data file (temp file created /
                    # half written / complete but not yet renamed / renamed), re-creation of the worker directories
                    if e["op"] == "open-w":
                        cases += [(e["k"], "trunc"), (e["k"], "half")]
                    else:
                        cases.append((e["k"], "after"))
                continue
            for m in modes:
                if m == "before" or e["op"] in ("open-w", "open-a"):
                    cases.append((e["k"], m))
            if e["op"] == "open-a" and "write_to_pathens" in e["tags"] and self.cut_points:
                cases.append((e["k"], "one"))        # a torn row of ONE byte
                if len(self.steps[e["step"]].get("rows", [])) >= 2:
                    cases.append((e["k"], "line"))   # exactly between the two rows of a zero swap
            if self.after_points and e["op"] not in ("open-w", "open-a"):
                cases.append((e["k"], "after"))      # right after the call has returned (for an open = "trunc")
        return cases


def cleans_on_restart():
    """does this infretis have the restart-side `clean_data_file` (05f8082)?  (model switch Cfg.cleanOnRestart)"""
    import infretis.setup as isetup
    return hasattr(isetup, "clean_data_file")


def initial_model(spec, root, reg):
    """model state of a fresh run directory (after setup_config wrote the data-file header)"""
    files = {}
    pinfo = {}
    manifest = {}
    live = []
    for pn in range(spec["nintf"]):
        d = os.path.join(root, "load", str(pn))
        cid = pn + 1
        fl = []
        files[(0, pn, 0)] = (1, 0)
        files[(1, pn, 0)] = (1, 0)
        for t, k in TXT.items():
            sha, size = sha_of(os.path.join(d, t))
            reg.txt[(k, cid)] = (sha, size)
            files[(k, pn, 0)] = (4, cid)
        for nm in sorted(os.listdir(os.path.join(d, "accepted"))):
            sha, _ = sha_of(os.path.join(d, "accepted", nm))
            n, c = reg.name(nm), reg.content(sha)
            fl.append((n, c))
            files[(5, pn, n)] = (4, c)
        p = {"pn": pn, "cid": cid, "files": fl}
        pinfo[pn] = p
        manifest[cid] = [n for n, _ in fl]
        live.append(p)
    mem = {"cstep": 0, "rf": None, "live": live, "traj_num": spec["nintf"], "olds": [], "locked": [],
           "steps": spec["steps"]}
    disk = {"files": files, "rows": [], "garbled": 0, "torn": False, "restart": None, "tmp": None}
    return {"mem": mem, "disk": disk, "pinfo": pinfo, "manifest": manifest}


def compare_tree(reg, root, mdisk, tmpname=None):
    """model disk vs the real tree: returns a list of differences (empty = equal)"""
    diffs = []
    mfiles = {k: v for k, v in mdisk["files"].items() if v[0] != 0}
    seen = set()
    load = os.path.join(root, "load")
    for dp, dn, fn in os.walk(load):
        for name in dn + fn:
            rel = os.path.relpath(os.path.join(dp, name), root)
            key = reg.key(rel)
            if key is None:
                diffs.append(f"unexpected entry {rel}")
                continue
            seen.add(key)
            ms = mfiles.get(key)
            fp = os.path.join(root, rel)
            if ms is None:
                diffs.append(f"{rel}: exists, model says absent")
                continue
            if os.path.isdir(fp):
                if ms[0] != 1:
                    diffs.append(f"{rel}: directory, model says {ms}")
                continue
            sha, size = sha_of(fp)
            if ms[0] == 1:
                diffs.append(f"{rel}: file, model says directory")
            elif ms[0] == 2:
                if size != 0:
                    diffs.append(f"{rel}: {size} bytes, model says empty")
            elif ms[0] == 3:
                full = reg.txt.get((key[0], ms[1]), (None, 0))
                if not (0 < size < full[1]):
                    diffs.append(f"{rel}: {size} bytes of {full[1]}, model says half written")
            else:
                want = reg.txt.get((key[0], ms[1]), (None,))[0] if key[0] in TXT_REV else reg.rfsha.get(ms[1])
                if sha != want:
                    diffs.append(f"{rel}: content {sha}, model says content id {ms[1]} = {want}")
    for key, ms in mfiles.items():
        if key[0] == 6:
            fp = os.path.join(root, reg.rel(key))
            if not os.path.isfile(fp):
                diffs.append(f"{reg.rel(key)}: missing, model says still in the worker directory")
            continue
        if key not in seen:
            diffs.append(f"{reg.rel(key)}: missing, model says {ms}")
    # moved-away worker files
    for key, ms in mdisk["files"].items():
        if key[0] == 6 and ms[0] == 0 and os.path.exists(os.path.join(root, reg.rel(key))):
            diffs.append(f"{reg.rel(key)}: still there, model says moved")
    # restart file(s)
    for label, fname, want in (("restart.toml", "restart.toml", mdisk["restart"]),
                               ("tmp", tmpname, mdisk["tmp"])):
        if fname is None:
            if want is not None:
                diffs.append(f"{label}: model has a temp restart file, the code none")
            continue
        got = read_restart(root, fname)
        if isinstance(want, dict):
            if not isinstance(got, dict) or (got["cstep"], got["active"], got["traj_num"], got["rf"],
                                             [tuple(map(list, l)) for l in got["locked"]]) != \
                    (want["cstep"], want["active"], want["traj_num"], want["rf"],
                     [tuple(map(list, l)) for l in want["locked"]]):
                diffs.append(f"{label}: {got} vs model {want}")
        elif got != want:
            diffs.append(f"{label}: {got if not isinstance(got, dict) else 'complete'} vs model {want}")
    data = read_data(root) or {"rows": None}
    if (data.get("rows"), data.get("garbled"), data.get("torn")) != (mdisk["rows"], mdisk["garbled"], mdisk["torn"]):
        diffs.append(f"data file: {data} vs model rows={mdisk['rows']} garbled={mdisk['garbled']} torn={mdisk['torn']}")
    return diffs


# ----------------------------------------------------------------------------------------------
# one enumeration: all crash points of a segment, restart + continue, predicates, model
# ----------------------------------------------------------------------------------------------
def data_files(root):
    return sorted(f for f in os.listdir(root) if f.startswith("infretis_data") and f.endswith(".txt"))


def final_rows_ok(root):
    """P4 on a finished tree: (ok, description, duplicated path numbers)"""
    rec = read_restart(root)
    dfs = data_files(root)
    rows = []
    torn = []
    for f in dfs:
        for r in sim.data_rows(root, f) or []:
            (rows if isinstance(r, int) else torn).append(r)
    dup = sorted({r for r in rows if rows.count(r) > 1})
    problems = []
    if torn:
        problems.append(f"{len(torn)} torn/garbled line(s), e.g. {torn[0][1]!r}")
    if dup:
        problems.append(f"path(s) {dup} more than once")
    if isinstance(rec, dict):
        created = set(range(rec["traj_num"]))
        replaced = created - set(rec["active"])
        if set(rows) - replaced:
            problems.append(f"row(s) for path(s) {sorted(set(rows) - replaced)} that were not replaced")
        if replaced - set(rows) and not torn:
            problems.append(f"replaced path(s) {sorted(replaced - set(rows))} without a row")
    if len(dfs) != 1:
        problems.append(f"data files {dfs}")
    return (not problems), "; ".join(problems), dup


def enumerate_segment(ctx, seg, work, tag, depth_cb=None, limit_events=None, modes=("before", "trunc", "half")):
    """crash at every point of `seg`, restart, continue; returns list of per-case dicts"""
    reg = seg.reg
    cases = seg.crash_cases(limit_events, modes)
    roots = []
    jobs = []
    for (k, mode) in cases:
        root = os.path.join(work, f"{tag}-k{k}{mode}")
        seg.prepare(root)
        roots.append(root)
        jobs.append(seg.job(root, {"k": k, "mode": mode}))
    crash_res = sim.runjobs(jobs)
    # the record a restart has to find: the last one written completely before the crash
    last_rec = {}
    rec = seg.start_rec
    for e in seg.events:
        last_rec[e["k"]] = rec
        if e["step"] is not None and seg.steps[e["step"]]["ev"][-1] == e["k"] and seg.steps[e["step"]]["rec"] is not None:
            rec = seg.steps[e["step"]]["rec"]
    out = []
    lines = []
    for (k, mode), root, (rc, res) in zip(cases, roots, crash_res):
        e = seg.events[k]
        c = {"k": k, "mode": mode, "root": root, "ev": e, "crashed": rc == sim.CRASH_RC and res is not None,
             "step": e["step"], "tree_restart": read_restart(root), "model_line": None}
        if not c["crashed"]:
            ctx.disagree({"segment": seg.label, "k": k, "mode": mode}, f"crash child rc={rc} {str(res)[:300]}", "rc=77")
        elif mode in ("half", "one", "line") and len(res["events"]) > k and (res["events"][k]["op"], res["events"][k]["path"]) == (e["op"], e["path"]):
            pass      # died at the close of the file opened by effect k (other effects may lie in between)
        elif res["events"][-1]["op"] != e["op"] or (res["events"][-1]["path"] != e["path"] and not (
                e["op"] == "remove" and os.path.dirname(res["events"][-1]["path"]) == os.path.dirname(e["path"]))):
            ctx.disagree({"segment": seg.label, "k": k, "mode": mode, "what": "history not reproducible"},
                         [res["events"][-1]["op"], res["events"][-1]["path"]], [e["op"], e["path"]])
            c["crashed"] = False
        out.append(c)
        # model point
        if seg.model_ok and c["crashed"] and seg.start_tree is not None and seg.in_restart_procedure(e) \
                and seg.pre_clean is not None and getattr(seg, "cfg", None):
            # a death INSIDE the restart procedure: Model/FsRestart.lean `restartRun` / `crashAtR`
            rp = seg.restart_point(k, mode)
            if rp is not None:
                pre = dict(seg.model0["disk"], **seg.pre_clean)      # the data file as the restart found it
                c["rpoint"] = rp
                c["model_line"] = (f"rcrash {seg.cfg} {disk_tokens(pre)} 0 {t_manifest(seg.model0['manifest'])} "
                                   f"{seg.spec.get('workers', 1)} {rp[0]} {1 if rp[1] else 0}")
                lines.append(c["model_line"])
        elif seg.model_ok and c["crashed"]:
            if e["step"] is None:
                nxt = next((si for si, st in enumerate(seg.steps) if st["ev"][0] > k), None)
                if nxt is not None and seg.steps[nxt].get("pre"):
                    c["mpoint"] = (nxt, 0, False)
            else:
                st = seg.steps[e["step"]]
                if st.get("align") and k not in st.get("unordered", ()):
                    j = st["align"][k]
                    if mode in ("half", "one", "line"):
                        # the write that belongs to this open (for a rename-while-open it comes after the rename)
                        jw = next((x for x in range(j + 1, len(st["effects"]))
                                   if st["effects"][x].split(":")[0] in ("write", "rwrite", "dataappend")), j + 1)
                        c["mpoint"] = (e["step"], jw, True)
                    else:
                        c["mpoint"] = (e["step"], j if mode == "before" else j + 1, False)
            if "mpoint" in c:
                si, j, half = c["mpoint"]
                st = seg.steps[si]
                pre_mem = st["pre"]["mem"]
                pre_disk = st["pre"]["disk"]
                if e["step"] is None:
                    # between two steps: the worker has not produced this step's trajectory files yet
                    pre_disk = dict(pre_disk, files={k_: v for k_, v in pre_disk["files"].items() if k_[0] != 6})
                    if "clean_data_file" in e["tags"] and seg.pre_clean is not None:
                        pre_disk.update(seg.pre_clean)   # the restart has not replaced the data file yet
                elif st["has_del"]:
                    pre_mem = seg.reorder_olds(pre_mem, [x for x in res["events"] if x["k"] in st["ev"]])
                choice = st["choice"]
                if mode in ("one", "line"):
                    tb = st.get("data_text", "").encode()
                    cutb = tb[:1] if mode == "one" else tb[: tb.index(b"\n") + 1]
                    choice = dict(choice, halfRows=cutb.count(b"\n"), halfTorn=bool(cutb) and not cutb.endswith(b"\n"))
                c["mchoice"] = choice
                c["model_line"] = (f"crash {seg.cfg} {t_mem(pre_mem)} {disk_tokens(pre_disk)} "
                                   f"{t_choice(choice)} {t_manifest(st['manifest'])} {j} {1 if half else 0}")
                lines.append(c["model_line"])
    answers = ctx.driver(lines) if lines else []
    ai = 0
    for c in out:
        if c["model_line"] is None:
            continue
        ans = answers[ai]
        ai += 1
        if ans == "bad-op":
            ctx.disagree({"segment": seg.label, "k": c["k"], "mode": c["mode"]}, "driver rejected the crash line", "-")
            continue
        if "rpoint" in c:
            judge_restart_crash(ctx, seg, c, ans)
            continue
        dtok, flags, rec_s, restored, cleaned = ans.split(" | ")
        c["mdisk"] = Toks(dtok).disk()
        if cleaned != "-":
            t = Toks(cleaned)
            c["mcleaned"] = {"rows": t.lst(t.nat), "garbled": t.nat(), "torn": bool(t.nat())}
        c["mflags"] = dict(f.split("=") for f in flags.split())
        c["mrestored"] = None if restored == "-" else Toks(restored).mem()
        st = seg.steps[c["mpoint"][0]]
        diffs = compare_tree(reg, c["root"], c["mdisk"], st.get("tmpname"))
        if diffs:
            ctx.disagree({"segment": seg.label, "k": c["k"], "mode": c["mode"], "kind": st["kind"], "what": "disk after crash"},
                         diffs[:6], "model disk")
    # ---- restart + continue, in place
    rjobs = []
    for c in out:
        rjobs.append({"root": c["root"], "result": c["root"] + ".restart.json", "kind": "restart",
                      "entry": "restart.toml", "pid": next_pid(seg), "completion": seg.completion})
        c["snap_missing"] = None
        tr = c["tree_restart"]
        want = tr if isinstance(tr, dict) else last_rec.get(c["k"], seg.start_rec)
        c["needed_rec"] = want
        if isinstance(want, dict):
            c["snap_missing"] = live_files_present(c["root"], want["active"])
            c["disk_orders"] = stored_orders(c["root"], want["active"])
    if depth_cb is not None:
        for c in out:
            depth_cb(c)
    rres = sim.runjobs(rjobs)
    for c, (rc, res) in zip(out, rres):
        c["restart"] = res or {"outcome": "harness-error", "rc": rc}
    return out


def next_pid(seg):
    """pid of the process life after `seg`: a new one — or, spec["same_pid"], the same one again (containers,
    pid reuse): then the pid-named trajectory files of a redone first job collide with the interrupted store's"""
    return seg.pid if seg.spec.get("same_pid") else seg.pid + 1111


def seg_tmpname(seg):
    """name of write_toml's temp file in this history (None: the historical in-place variant has none)"""
    return next((st["tmpname"] for st in seg.steps if st.get("tmpname")), None)


def data_tmp_state(root, ref_ev):
    """infretis_data.txt.tmp on a tree: ("absent" | "empty" | "part" | "complete", rows)"""
    fp = os.path.join(root, "infretis_data.txt.tmp")
    if not os.path.isfile(fp):
        return "absent", None
    sha, size = sha_of(fp)
    if size == 0:
        return "empty", None
    if ref_ev is not None and sha == ref_ev.get("sha"):
        rows = [r for r in (sim.data_rows(root, "infretis_data.txt.tmp") or []) if isinstance(r, int)]
        return "complete", rows
    if ref_ev is not None and size < (ref_ev.get("written") or 0):
        return "part", None
    return f"other({size} bytes)", None


def judge_restart_crash(ctx, seg, c, ans):
    """model (`rcrash`) vs the tree a death inside the restart procedure left behind"""
    reg = seg.reg
    dtok, dtmp, flags, effs, restored, after, dtmp_after = ans.split(" | ")
    where = {"segment": seg.label, "k": c["k"], "mode": c["mode"], "kind": "restart-procedure"}
    c["mdisk"] = Toks(dtok).disk()
    c["mflags"] = dict(f.split("=") for f in flags.split())
    c["mflags"].update(out=c["mflags"]["next"], trunc="0", rowwin="0")
    c["mrestored"] = None if restored == "-" else Toks(restored).mem()
    # the effect list of the restart, against the audited events of the reference restart
    meffs = effs.split()[1:]
    want = seg.restart_expected()
    if [x.split(":")[0] if x.startswith("dtwrite") else x for x in meffs] != want:
        ctx.disagree(dict(where, what="effects of the restart procedure"), want, meffs)
    diffs = compare_tree(reg, c["root"], c["mdisk"], seg_tmpname(seg))
    # the temp file of clean_data_file
    ref_open = next((e for e in seg.events if "clean_data_file" in e["tags"] and e["op"] == "open-w"), None)
    got, rows = data_tmp_state(c["root"], ref_open)
    t = Toks(dtmp)
    tag = t.nat()
    mstate = ["absent", "empty", "part", "complete"][tag]
    if got != mstate:
        diffs.append(f"infretis_data.txt.tmp: {got}, model says {mstate}")
    elif tag == 3:
        mrows = t.lst(t.nat)
        if rows != mrows:
            diffs.append(f"infretis_data.txt.tmp: rows {rows}, model says {mrows}")
    if diffs:
        ctx.disagree(dict(where, what="disk after a crash inside the restart"), diffs[:6], "model disk")
    if c["mflags"]["tmpok"] != "1" or dtmp_after.strip() != "0":
        ctx.disagree(dict(where, what="temp file of the data file after the next restart"), "-",
                     f"tmpok={c['mflags']['tmpok']} dtmp after the next restart={dtmp_after}")
    ta = Toks(after)
    c["mcleaned"] = {"rows": ta.lst(ta.nat), "garbled": ta.nat(), "torn": bool(ta.nat())}
    ctx.hit(f"restart-procedure-crash:{mstate}")


def judge(ctx, seg, cases, hist_id):
    """compare with the model's predictions and evaluate the property predicates"""
    spec = seg.spec
    n_ens = spec["nintf"]
    for c in cases:
        if not c["crashed"]:
            continue
        e, res = c["ev"], c["restart"]
        st = seg.steps[e["step"]] if e["step"] is not None else None
        kind = st["kind"] if st else "between-steps"
        site = next((t for t in e["tags"] if t in ("clean_data_file", "write_toml", "write_to_pathens", "_move_path",
                                                   "output_path_files", "make_dirs", "treat_output", "prep_md_items")), "other")
        ctx.count(1, branch=f"{kind}|{site}|{c['mode']}")
        ctx.distinct((hist_id, seg.label, c["k"], c["mode"]))
        have_record = isinstance(c["needed_rec"], dict)
        outcome = res.get("outcome")
        cur = res.get("config_current") or {}
        real_out = f"starts:{cur.get('cstep')}" if outcome == "starts" else outcome
        replay = {"spec": spec, "segment": seg.label, "chain": seg.chain + [{"k": c["k"], "mode": c["mode"]}],
                  "step_kind": kind, "effect": {"op": e["op"], "path": e["path"], "site": site},
                  "restart": {"outcome": outcome, "phase": res.get("phase"), "error": res.get("error")}}
        # ---- model vs code
        if "mflags" in c:
            mf = c["mflags"]
            if mf["out"] != real_out:
                ctx.disagree({"segment": seg.label, "k": c["k"], "mode": c["mode"], "kind": kind, "what": "restart outcome"},
                             real_out, mf["out"])
            if c["mrestored"] is not None and outcome == "starts":
                got = (res.get("loaded") or {}).get("active")
                want = [p["pn"] for p in c["mrestored"]["live"]]
                if got != want:
                    ctx.disagree({"segment": seg.label, "k": c["k"], "mode": c["mode"], "what": "active set after restart"}, got, want)
        # ---- P6: every COMPLETED step is in the restart file (also when nothing is printed: output.screen 0, 3, …)
        tr = c["tree_restart"]
        if e["step"] is not None and "treat_output" in e["tags"] and e.get("cstep") is not None \
                and e["cstep"] - 1 > seg.start_cstep and not (tr in ("empty", "part")):
            if not isinstance(tr, dict) or tr["cstep"] < e["cstep"] - 1:
                ctx.fail("C08:completed-step-missing-from-restart-file",
                         f"crash {c['mode']} effect {c['k']} ({e['op']} {e['path']}) while step {e['cstep']} is treated: steps up to "
                         f"{e['cstep'] - 1} are complete, restart.toml on disk is "
                         f"{'absent' if tr is None else 'at cstep ' + str(tr['cstep'])} (output.screen = {spec.get('screen', 0)}): "
                         f"a restart loses completed steps", replay)
                continue
        # ---- P1: the restart starts and the continuation reaches the end
        tr = c["tree_restart"]
        in_trunc = tr in ("empty", "part") and "write_toml" in e["tags"]
        if not have_record and not in_trunc:
            # nothing has been completed yet: there is no record to restart from (fresh start needed)
            ctx.hit("no-record-yet")
            continue
        if outcome == "refuses" and isinstance(tr, dict) and tr["rf"] == tr["cstep"] and tr["cstep"] >= tr["steps"]:
            # the record on disk is the one of a FINISHED run that was restarted without steps left
            # (final write_toml of loop()): setup_config stops by design, nothing is left to do
            ctx.hit("finished-run-record")
            continue
        if outcome != "starts":
            if in_trunc and (e["op"] == "move" or seg.variant == "renamedOpen"):
                ctx.fail("C08:restart-toml-renamed-before-flush",
                         f"crash {c['mode']} effect {c['k']} ({e['op']} {e['path']} -> {e.get('dest')}) of a {kind} step: the temp "
                         f"file was renamed to restart.toml while still open (content still in the write buffer "
                         f"{e.get('open_handles')}); restart.toml is {'empty' if tr == 'empty' else 'cut'}; the restart "
                         f"{outcome}: {res.get('error')}", replay)
            elif in_trunc:
                ctx.fail(SIG_TRUNC,
                         f"crash {c['mode']} effect {c['k']} ({e['op']} {e['path']}) of a {kind} step leaves restart.toml "
                         f"{'empty' if tr == 'empty' else 'half written'}; the restart {outcome}: {res.get('error')}", replay)
            elif c["snap_missing"]:
                ctx.fail(f"C08:live-path-lost-files:{site}",
                         f"crash {c['mode']} effect {c['k']} ({e['op']} {e['path']}) of a {kind} step: restart.toml lists "
                         f"{c['needed_rec']['active']} as active but {c['snap_missing'][:4]} are gone; the restart {outcome} "
                         f"({res.get('phase')}: {res.get('error')})", replay)
            else:
                ctx.fail(f"C08:restart-does-not-start:{site}",
                         f"crash {c['mode']} effect {c['k']} ({e['op']} {e['path']}) of a {kind} step: restart {outcome} "
                         f"({res.get('phase')}: {res.get('error')})", replay)
            continue
        if "mflags" in c and c["mflags"]["trunc"] == "1":
            ctx.disagree({"segment": seg.label, "k": c["k"], "mode": c["mode"], "what": "truncation window"},
                         "restart started", "model: restart.toml torn")
        # ---- P2: all needed paths load with non-zero weight in their slot
        loaded = res.get("loaded") or {}
        if loaded.get("active") != cur.get("active") or any(w == 0 for w in loaded.get("diag", [0])) \
                or len(loaded.get("diag", [])) != n_ens:
            ctx.fail(f"C08:path-not-loaded:{site}", f"after crash at effect {c['k']} ({c['mode']}): loaded {loaded} for record {cur}", replay)
        want_o, got_o = c.get("disk_orders") or {}, loaded.get("orders") or {}
        bad_o = [pn for pn in want_o if want_o[pn] is not None and got_o.get(pn) != want_o[pn]]
        if bad_o and got_o:
            pn = bad_o[0]
            ctx.fail(f"C08:path-not-read-back-as-stored:{site}",
                     f"after crash at effect {c['k']} ({c['mode']}) and restart: path {pn} was stored with order rows "
                     f"{(want_o[pn] or [None])[0]}… ({len((want_o[pn] or [[]])[0])} columns) and read back as "
                     f"{(got_o.get(pn) or [None])[0]}…", replay)
        # ---- P3: no live path lost files
        if c["snap_missing"]:
            ctx.fail(f"C08:live-path-lost-files:{site}",
                     f"after crash at effect {c['k']} ({c['mode']}, {e['op']} {e['path']}): missing {c['snap_missing'][:4]}", replay)
        if "mflags" in c and c["mflags"]["present"] != ("0" if c["snap_missing"] else "1"):
            ctx.disagree({"segment": seg.label, "k": c["k"], "mode": c["mode"], "what": "paths present"},
                         not c["snap_missing"], c["mflags"]["present"])
        # ---- P5: recorded in-flight jobs are re-issued first
        locked = cur.get("locked") or []
        want_jobs = [([int(x) - 1 for x in l[0]], [int(p) for p in l[1]]) for l in locked][: spec.get("workers", 1)]
        got_jobs = [(j["ens"], j["paths"]) for j in (res.get("submitted") or [])][: len(want_jobs)]
        if got_jobs != want_jobs and res.get("phase") == "finished":
            ctx.fail("C08:inflight-job-not-reissued", f"restart record has in-flight {want_jobs}, first jobs issued {got_jobs}", replay)
        # ---- continuation
        if res.get("phase") != "finished":
            err = res.get("error") or "?"
            sig = ("C08:stale-files-of-crashed-store-break-delete-old-all" if "Directory not empty" in err
                   else f"C08:continuation-raises:{err.split(':')[0]}")
            ctx.fail(sig,
                     f"after crash at effect {c['k']} ({c['mode']}, {e['op']} {e['path']}) of a {kind} step the restart "
                     f"started but the continued run died: {res.get('error')}", replay)
            continue
        # ---- P4: rows unique after continuing
        ok, why, dup = final_rows_ok(c["root"])
        in_row_window = st is not None and bool(st["rows"]) and (
            ("write_to_pathens" in e["tags"] and c["mode"] in ("half", "one", "line")) or "write_toml" in e["tags"])
        replay["rows"] = why
        if not ok:
            if in_row_window:
                ctx.fail(SIG_ROW,
                         f"crash {c['mode']} effect {c['k']} ({e['op']} {e['path']}) of a {kind} step: the row of the replaced "
                         f"path(s) {st['rows']} is already in the data file, restart.toml still is the old one; after "
                         f"restart + continue: {why}", replay)
            else:
                ctx.fail(f"C08:rows-not-unique:{site}", f"crash {c['mode']} effect {c['k']} ({e['op']} {e['path']}): {why}", replay)
        if "mflags" in c:
            mrow = c["mflags"]["rowwin"] == "1"
            mrows_ok = c["mflags"]["rows"] == "1"
            if mrows_ok != ok:
                ctx.disagree({"segment": seg.label, "k": c["k"], "mode": c["mode"], "kind": kind, "what": "rows after continue"},
                             f"ok={ok} {why}", f"model rowsOK={mrows_ok} row window={mrow}")
            if mrow and mrows_ok and not cleans_on_restart():
                ctx.disagree({"segment": seg.label, "k": c["k"], "what": "model rowsOK inside its own row window"}, c["mflags"], "-")
        c["rows_ok"] = ok


# ----------------------------------------------------------------------------------------------
# histories
# ----------------------------------------------------------------------------------------------
def zero_swap_of_late_paths(seg):
    """steps in which a [0-]<->[0+] swap is accepted and both replaced paths are numbered above n-2 (so that the
    delete_old block runs for both ensembles of the ONE treat_output call)"""
    lim = seg.n - 2
    return [si for si, st in enumerate(seg.steps)
            if st["kind"].startswith("zs-acc") and len(st["rows"]) == 2 and min(st["rows"]) > lim]


def find_sort_swap_seed(ctx, work, spec0, batches=4, width=32):
    """three workers, results consumed in a seeded random order: look (in parallel) for a seed whose history has a
    step in which sort_trajstate() really moves a path"""
    for b in range(batches):
        seeds = [ctx.rng.randrange(1_000_000) for _ in range(width)]
        jobs = []
        for sd in seeds:
            spec = dict(spec0, seed=sd, completion=f"rand:{sd}")
            root = os.path.join(work, f"probe{b}-{sd}")
            jobs.append({"root": root, "result": root + ".json", "kind": "fresh", "spec": spec,
                         "completion": spec["completion"]})
        res = sim.runjobs(jobs)
        found = None
        for sd, j, (rc, r) in zip(seeds, jobs, res):
            if found is None and r and r.get("phase") == "finished" and any(c >= 2 for c in r.get("sort_swaps", [])):
                found = sd
            shutil.rmtree(j["root"], ignore_errors=True)
        if found is not None:
            return found
    return None


def pick_history(ctx, work, spec0, need, tries=40, pred=None):
    """reference runs with seeds from ctx.rng until every needed step kind occurs"""
    for t in range(tries):
        spec = dict(spec0, seed=ctx.rng.randrange(1_000_000)) if "seed" not in spec0 else dict(spec0)
        reg = Reg()
        sub = os.path.join(work, f"h{spec['seed']}")
        os.makedirs(sub, exist_ok=True)
        seg = Segment(ctx, sub, spec, reg, label="A")
        seg.chain = []
        seg.start_rec = None
        if not seg.reference():
            ctx.disagree({"spec": spec}, f"reference run did not finish: {str(seg.ref)[:400]}", "finished")
            continue
        kinds = {st["kind"].replace("+del", "") for st in seg.steps} | ({"del"} if any(st["has_del"] for st in seg.steps) else set())
        if need <= kinds and (pred is None or pred(seg)):
            return seg
        shutil.rmtree(sub, ignore_errors=True)
    return None


def fresh_initial(work, spec, reg):
    root = os.path.join(work, "init")
    if not os.path.isdir(root):
        sim.make_rundir(root, spec)
    return initial_model(spec, root, reg)


def run_history(ctx, work, spec0, need, hist_id, depth2=0, limit2=45, case_filter=None, pred=None, tries=40):
    seg = pick_history(ctx, work, spec0, need, tries=tries, pred=pred)
    if seg is None:
        ctx.disagree({"spec": spec0}, "no seed produced all step kinds", sorted(need))
        return
    seg.case_filter = case_filter(seg) if hist_id.startswith(("n3zs", "sortswap")) else case_filter
    spec = seg.spec
    sub = seg.work
    seg.model0 = fresh_initial(sub, spec, seg.reg)
    seg.model_ok = ctx._driver_ok and spec.get("workers", 1) == 1 and not spec.get("keep_traj_fnames")
    seg.run_model()
    seg.script_prefix, seg.script_init = [], seg.model0
    ctx.hit(f"variant={seg.variant}")
    cases = enumerate_segment(ctx, seg, sub, "A", depth_cb=None)
    judge(ctx, seg, cases, hist_id)
    ctx.sample({"history": hist_id, "spec": spec, "steps": [st["kind"] for st in seg.steps],
                "effects": len(seg.events), "crash_points": len(cases), "write_toml": seg.variant})
    # ---- crash after restart / double crash: enumerate again from crashed trees
    if depth2:
        good = [c for c in cases if c["crashed"] and c["restart"].get("outcome") == "starts" and c["step"] is not None
                and c.get("rows_ok")]
        # one per (step kind, site), deterministic order
        seen, picks = set(), []
        for c in good:
            key = (seg.steps[c["step"]]["kind"], tuple(c["ev"]["tags"][:1]), c["mode"] == "half")
            if key not in seen:
                seen.add(key)
                picks.append(c)
        ctx.rng.shuffle(picks)
        chosen = picks[:depth2]
        if depth2 >= 2 and spec.get("workers", 1) == 1:
            # at least one second life whose restart has to REWRITE the data file (clean_data_file: the process died
            # with the row of a replaced path written and the restart file not): every crash point of that restart
            # procedure is enumerated in it; preferably after a zero swap with exactly one of its two rows written
            def in_window(c):
                st = seg.steps[c["step"]]
                return bool(st["rows"]) and ("write_toml" in c["ev"]["tags"] or (
                    "write_to_pathens" in c["ev"]["tags"] and c["mode"] in ("half", "one", "line")))
            inwin = [c for c in good if in_window(c)]
            if inwin and not any(in_window(c) for c in chosen):
                chosen.append(([c for c in inwin if c["mode"] == "line"] or inwin)[0])
        if spec.get("workers", 1) == 1 and (depth2 >= 2 or spec.get("same_pid")):
            # a second life whose first step has to move a trajectory file ONTO an existing destination (_move_path:
            # os.path.exists(dest) -> os.remove(dest); model: the isFile branch of `moveFiles`): the process died right
            # after moving a file whose name does not carry the pid (second.lat / second_last.lat of a zero swap)
            def moved_fixed(c):
                e = c["ev"]
                return (c["mode"] == "after" and e["op"] == "move" and "_move_path" in e["tags"] and e.get("dest")
                        and str(seg.pid) not in os.path.basename(e["dest"]))
            fx = [c for c in good if moved_fixed(c)]
            if fx and not any(moved_fixed(c) for c in chosen):
                chosen.append(fx[0])
            elif not fx:
                ctx.hit("no-crash-after-a-move-of-a-fixed-name-file")
        if spec.get("workers", 1) == 1 and depth2 >= 2:
            # the restart of a FINISHED run (death right before the final write_toml of loop()): its only step is the
            # final write with restarted_from = cstep — the event `WF.final` excludes (finished_run_restart_refuses)
            fin = [c for c in good if seg.steps[c["step"]]["kind"] == "final-write" and c["mode"] == "before"]
            if fin and not any(seg.steps[c["step"]]["kind"] == "final-write" for c in chosen):
                chosen.append(fin[0])
        for n2, c in enumerate(sorted(chosen, key=lambda c: c["k"])):
            second_life(ctx, seg, c, sub, hist_id, n2, limit2)
    shutil.rmtree(sub, ignore_errors=True)


def work_tokens(choice):
    files = [f for a in choice["accs"] for f in a["files"]]
    return "0 " + tl(files, lambda nc: f"{nc[0]} {nc[1]}")


def script_events(seg, crash=None):
    """the events (Model/FsRestart.lean `Event`) of one process life as the model sees it: worker output + completed
    step for every step of the reference, or up to the death `crash` = (step index, effect index, half, choice)"""
    evs = []
    for si, st in enumerate(seg.steps):
        if crash is not None and si == crash[0]:
            sj, j, half, choice, between = crash
            if not between:
                evs.append(work_tokens(choice))
            evs.append(f"2 {t_choice(choice)} {j} {1 if half else 0}")
            return evs
        if "choice" not in st:
            return None
        evs.append(work_tokens(st["choice"]))
        evs.append(f"1 {t_choice(st['choice'])}")
    return evs if crash is None else None


def norm_mem(m):
    return dict(m, olds=[(pn, sorted(names)) for pn, names in m["olds"]],
                live=[dict(p, files=sorted(map(tuple, p["files"]))) for p in m["live"]])


def compare_script(ctx, seg2, hist_id):
    """the composed model function (`runScript`: every life of the chain, deaths and restarts included, in ONE
    call) against (a) the real tree at the end of the last life and (b) the step-by-step model run"""
    if not (seg2.model_ok and getattr(seg2, "script_prefix", None) is not None and seg2.steps
            and all("post" in st for st in seg2.steps)):
        return
    tail = script_events(seg2)
    if tail is None:
        return
    evs = seg2.script_prefix + tail
    init = seg2.script_init
    line = (f"script {seg2.cfg} {t_manifest(seg2.final_manifest)} 1 {t_mem(init['mem'])} {disk_tokens(init['disk'])} 0 "
            f"{tl(evs)}")
    out, = ctx.driver([line])
    where = {"segment": seg2.label, "history": hist_id, "what": "runScript over all lives", "events": len(evs)}
    if out == "bad-op":
        ctx.disagree(where, "driver rejected the script line", line[:300])
        return
    flags, mem_s, dtok, dtmp = out.split(" | ")
    fl = dict(f.split("=") for f in flags.split())
    if fl["alive"] != "1" or dtmp.strip() != "0":
        ctx.disagree(where, "the last life of the chain finished (alive, no temp file of the data file)", f"{flags} dtmp={dtmp}")
        return
    mdisk = Toks(dtok).disk()
    mmem = Toks(mem_s).mem()
    post = seg2.steps[-1]["post"]
    if norm_mem(mmem) != norm_mem(post["mem"]) or {k: v for k, v in mdisk["files"].items() if k[0] != 6} != \
            {k: v for k, v in post["disk"]["files"].items() if k[0] != 6 and v[0] != 0} or \
            (mdisk["rows"], mdisk["restart"]) != (post["disk"]["rows"], post["disk"]["restart"]):
        ctx.disagree(dict(where, what="runScript vs the step-by-step model run"), str(post["mem"])[:300], str(mmem)[:300])
    diffs = compare_tree(seg2.reg, seg2.ref_root, dict(mdisk, files={k: v for k, v in mdisk["files"].items() if k[0] != 6}),
                         seg_tmpname(seg2))
    if os.path.exists(os.path.join(seg2.ref_root, "infretis_data.txt.tmp")):
        diffs.append("infretis_data.txt.tmp exists at the end of the run, model says absent")
    if diffs:
        ctx.disagree(dict(where, what="final tree of the last life"), diffs[:6], "runScript disk")
    ctx.hit(f"script-lives-{len(seg2.chain) + 1}")
    ctx.count(1, branch=f"script|lives={len(seg2.chain) + 1}")
    ctx.distinct((hist_id, seg2.label, "script"))


def second_life(ctx, seg, c, work, hist_id, n2, limit2, depth=2):
    """crash c has been restarted+continued in place; redo it into a pristine crashed tree and enumerate the restart"""
    n2 = f"{n2}" if depth == 2 else f"{n2}x{depth}"
    tree = os.path.join(work, f"B{n2}-tree")
    seg.prepare(tree)
    (rc, res), = sim.runjobs([seg.job(tree, {"k": c["k"], "mode": c["mode"]})])
    if rc != sim.CRASH_RC:
        ctx.disagree({"second_life": c["k"]}, f"rc={rc}", "crash")
        return
    seg2 = Segment(ctx, work, seg.spec, seg.reg, start_tree=tree, pid=next_pid(seg), label=f"B{n2}")
    seg2.chain = seg.chain + [{"k": c["k"], "mode": c["mode"]}]
    seg2.after_points = not ctx.quick
    seg2.start_rec = c["tree_restart"] if isinstance(c["tree_restart"], dict) else None
    seg2.start_cstep = seg2.start_rec["cstep"] if seg2.start_rec else 0
    seg2.model_ok = False
    if not seg2.reference():
        return   # already reported by judge (continuation raised / restart failed)
    if seg.model_ok and c.get("mrestored") is not None and "mdisk" in c:
        pin = {p["pn"]: p for p in c["mrestored"]["live"]}
        man = dict(seg.steps[c["mpoint"][0]]["manifest"])
        # leftovers in the worker directory are the worker's business (it cleans its directory): drop them
        d0 = dict(c["mdisk"], files={k_: v for k_, v in c["mdisk"]["files"].items() if k_[0] != 6})
        seg2.pre_clean = {k_: c["mdisk"][k_] for k_ in ("rows", "garbled", "torn")}
        if "mcleaned" in c:
            d0.update(c["mcleaned"])        # setup_config's clean_data_file ran before anything else
        seg2.model0 = {"mem": c["mrestored"], "disk": d0, "pinfo": pin, "manifest": man}
        seg2.model_ok = True
        seg2.run_model()
        # the chain of lives so far as ONE script for `runScript`
        if getattr(seg, "script_prefix", None) is not None and "mpoint" in c:
            si, j, half = c["mpoint"]
            head = script_events(seg, (si, j, half, c.get("mchoice", seg.steps[si]["choice"]), c["ev"]["step"] is None))
            if head is not None:
                seg2.script_prefix = seg.script_prefix + head + [f"4 {seg.spec.get('workers', 1)}"]
                seg2.script_init = seg.script_init
        if seg2.model_ok:
            compare_script(ctx, seg2, hist_id)
    cases = enumerate_segment(ctx, seg2, work, f"B{n2}", limit_events=limit2)
    judge(ctx, seg2, cases, hist_id)
    ctx.hit("second-life-segments" if depth == 2 else f"process-life-{depth + 1}-segments")
    if seg.spec.get("same_pid") and depth < 3 and seg2.steps:
        # same pid in every life: the process dies in the FIRST step of this life with a part of the trajectory files
        # moved; the redone job of the next life writes files of the very same names (pid and counter restart)
        mv = [i for i in seg2.steps[0]["ev"] if seg2.events[i]["op"] == "move" and "_move_path" in seg2.events[i]["tags"]]
        tgt = [x for x in cases if x["crashed"] and x["restart"].get("outcome") == "starts" and x["mode"] == "before"
               and x["k"] in mv[1:]]
        if tgt:
            second_life(ctx, seg2, tgt[0], work, hist_id, f"{n2}s", limit2, depth=depth + 1)
    # a third (fourth) process life: crash inside the second one, restart, enumerate again
    if not ctx.quick and depth < 3:
        good = [x for x in cases if x["crashed"] and x["restart"].get("outcome") == "starts" and x["step"] is not None
                and x.get("rows_ok")]
        if good:
            second_life(ctx, seg2, good[len(good) // 2], work, hist_id, n2, limit2, depth=depth + 1)


def run(ctx):
    sim.preload()
    base = tempfile.mkdtemp(prefix="c08-", dir="/var/tmp")
    ctx.rule = ("one crash case = (history, process life, audited effect index k, mode before / after the call returned / after-open / half-written); "
                "every audited main-process effect of every step of each history is a case; distinct by that tuple; "
                "a case is non-trivial when a restart record exists or is being written")
    if not any(a.startswith("each audited effect is atomic") for a in ctx.assumptions):
      ctx.assumptions += [
        "each audited effect is atomic; rename is atomic; a crashed write leaves a prefix (here: none or half of the bytes)",
        "the worker's effects (run_md) are not main-process effects; the synchronous runner executes them in-process, masked from the tracer",
        "trajectory file names carry os.getpid(): the children use a fixed fake pid per process life so that histories are reproducible",
        "fsync / directory-entry durability below the syscall level is not modelled",
        "a crash before the first restart.toml was completely written is not a restart case (fresh start needed); only the model/tree correspondence is checked there",
        "the model assumes every effect succeeds: os.rmdir on a non-empty directory (stale files of a crashed store, delete_old_all) is outside the theorems; the tie reports it when the real continuation dies",
        "output.keep_traj_fnames is empty; one worker for the model-vs-tree comparison, two-worker histories are judged with the property predicates only",
        "the order in which the trajectory files of a queued path are removed is a Python set order: the model takes it as input (theorems hold for every order)",
        "histories with output.keep_traj_fnames (side files) and with 2-3 workers are judged with the property predicates only (the model has no side files and one worker)",
        "'in-flight jobs recorded at the last completed step are re-issued' is checked for the first min(workers, recorded jobs) jobs: a restart with fewer workers than recorded jobs can only re-issue a prefix; the rest stays in locked0",
        "each history is ONE long-lived REPEX_state/PathStorage/engine over all its steps; a restart builds fresh objects from the same disk and is compared with the long-lived run through the continuation (tie-only, the model is functional)",
        "the hypotheses of the theorems (Inv, WF, Cover, Complete) are evaluated by the driver (op hyp, Model/FsCheck.lean, sound by hyp_checks_sound) on every state and step outcome of the one-worker histories, reconstructed from the real effect trace and the real restart records; the first step of a fresh run has no record yet (Inv not applicable), the final write of a restarted finished run is outside WF by design (finished_run_restart_refuses)",
        "history 'samepid': every process life has the same pid, so that a redone first job writes trajectory files of the very names an interrupted store already moved (_move_path's remove-existing-destination branch); elsewhere each life has its own fake pid",
        "a crash inside the very first step (no restart.toml yet, cstep 0) is a fresh-start case; path number 0 / ensemble 0 / cstep 0 / seed 0 / worker 0 / screen 0 occur in every history",
    ]
    try:
        need = {"zs-acc", "sh-acc", "wf-acc", "sh-rej"}
        base_spec = {"nintf": 3, "steps": 9, "moves": ["sh", "sh", "wf"], "workers": 1}
        plans = [
            # output.screen 0 / 3 / 1: restart.toml must be written after EVERY step, printed or not
            ("noDel", dict(base_spec, delete_old=False, delete_old_all=False, screen=0), need, 0),
            ("del", dict(base_spec, delete_old=True, delete_old_all=False, steps=10, screen=3), need | {"del"}, 1),
            ("delAll", dict(base_spec, delete_old=True, delete_old_all=True, steps=10, screen=1), need | {"del"}, 2),
            ("w2", dict(base_spec, workers=2, steps=8, delete_old=True, delete_old_all=True), set(), 0),
            # two workers, results consumed youngest-first: records written after a restart
            ("w2lifo", dict(base_spec, workers=2, steps=8, delete_old=False, completion="lifo"), set(), 2),
            # long continuation after a crash inside _move_path (stale files of the crashed store)
            ("stale", dict(base_spec, steps=40, delete_old=True, delete_old_all=True), set(), 0),
            # exactly two interfaces (n = 3, delete lag n-2 = 1): an accepted zero swap replaces BOTH live paths in
            # one treat_output call; every crash point of such steps (the queue must not drain the path queued by
            # the first ensemble while restart.toml still lists it)
            ("n3zs", dict(nintf=2, moves=["sh", "sh"], workers=1, steps=8, delete_old=True, delete_old_all=False), set(), 0),
            ("n3zsAll", dict(nintf=2, moves=["sh", "sh"], workers=1, steps=8, delete_old=True, delete_old_all=True), set(), 0),
            # three workers, random completion order, a step whose sort_trajstate() moves a path: the restart file of
            # that step must describe the SORTED state (every path loads with non-zero weight in its slot)
            ("sortswap", dict(nintf=5, moves=["sh", "sh", "wf", "sh", "sh"], workers=3, steps=30, delete_old=False), set(), 0),
            # side files kept through output.keep_traj_fnames (+ delete_old_all): property predicates only
            ("keep", dict(base_spec, steps=8 if ctx.quick else 14, delete_old=True, delete_old_all=True,
                          keep_traj_fnames=[".aux"], screen=3), set(), 0),
            # every process life has the SAME pid (containers / pid reuse): deaths inside _move_path of the first step
            # of a life, the redone job's pid-named files collide with the ones already moved (three lives)
            ("samepid", dict(base_spec, steps=7, delete_old=True, delete_old_all=True, same_pid=True), {"zs-acc"}, 1),
        ]
        if not ctx.quick:
            for r in range(2):
                plans += [
                    (f"noDel-{r}", dict(base_spec, delete_old=False, delete_old_all=False, steps=12), need, 6),
                    (f"del-{r}", dict(base_spec, delete_old=True, delete_old_all=False, steps=14), need | {"del"}, 8),
                    (f"delAll-{r}", dict(base_spec, delete_old=True, delete_old_all=True, steps=14), need | {"del"}, 10),
                    (f"w2-{r}", dict(base_spec, workers=2, steps=12, delete_old=True, delete_old_all=True), set(), 4),
                ]
            plans += [
                ("cap", dict(base_spec, nintf=4, moves=["sh", "sh", "wf", "sh"], steps=12, delete_old=True,
                             tis_set={"interface_cap": 2.6}), {"zs-acc", "sh-acc", "wf-acc"}, 2),
                ("lm1", dict(base_spec, steps=12, delete_old=True, delete_old_all=True,
                             tis_set={"lambda_minus_one": -2.5}), {"zs-acc", "sh-acc"}, 2),
                ("w3rand", dict(nintf=5, moves=["sh", "sh", "wf", "sh", "sh"], workers=3, steps=16, delete_old=True,
                                delete_old_all=True, completion="rand:3"), set(), 3),
            ]
            plans += [("n4", dict(base_spec, nintf=4, moves=["sh", "sh", "wf", "sh"], steps=16, delete_old=True,
                                  delete_old_all=True), need | {"del"}, 6)]
        def samepid_filter(e):
            return "_move_path" in e["tags"] and e["op"] == "move"

        def stale_filter(e):
            return e["op"] == "move" and "_move_path" in e["tags"] and 2 <= (e.get("cstep") or 0) <= (8 if ctx.quick else 20)

        for hist_id, spec, nd, depth2 in plans:
            work = os.path.join(base, hist_id)
            os.makedirs(work)
            if hist_id == "sortswap":
                sd = find_sort_swap_seed(ctx, work, spec)
                if sd is None:
                    ctx.hit("no-sort-swap-history-found")
                    shutil.rmtree(work, ignore_errors=True)
                    continue

                def swap_filter(seg):
                    sw = set(seg.ref.get("sort_swaps", []))
                    steps = {si for si, st in enumerate(seg.steps) if st["key"][0] == "step" and st["key"][1] in sw}
                    steps |= {si + 1 for si in steps}
                    return lambda e: e["step"] in steps
                run_history(ctx, work, dict(spec, seed=sd, completion=f"rand:{sd}"), nd, hist_id, depth2=0,
                            case_filter=swap_filter, tries=1)
                shutil.rmtree(work, ignore_errors=True)
                continue
            if hist_id.startswith("n3zs"):
                def zs_filter(seg):
                    steps = set(zero_swap_of_late_paths(seg)[: (2 if ctx.quick else 6)])
                    return lambda e: e["step"] in steps
                run_history(ctx, work, spec, nd, hist_id, depth2=depth2, case_filter=zs_filter,
                            pred=lambda seg: bool(zero_swap_of_late_paths(seg)), tries=200)
                shutil.rmtree(work, ignore_errors=True)
                continue
            run_history(ctx, work, spec, nd, hist_id, depth2=depth2, limit2=24 if hist_id == "samepid" else 45,
                        case_filter=stale_filter if hist_id.startswith("stale") else
                        samepid_filter if hist_id == "samepid" else None)
            shutil.rmtree(work, ignore_errors=True)
        ctx.exhaustive = False
        if ctx.disagreements:
            ctx.extra["disagreement_samples"] = ctx.disagreements[:8]
        ctx.extra["exhaustive_part"] = ("every audited effect index of every step of the listed histories, three crash modes per "
                                        "open-for-write; second process lives: every effect of the first steps after the restart")
    finally:
        shutil.rmtree(base, ignore_errors=True)


# ----------------------------------------------------------------------------------------------
# replay of one recorded failing input
# ----------------------------------------------------------------------------------------------
def replay(ctx, obj):
    sim.preload()
    r = obj.get("replay", {})
    sig = obj.get("signature", "")
    base = tempfile.mkdtemp(prefix="c08r-", dir="/var/tmp")
    try:
        spec = r["spec"]
        tree = None
        pid = 11111
        for n, cr in enumerate(r["chain"]):
            root = os.path.join(base, f"life{n}")
            job = {"root": root, "result": root + ".result.json", "pid": pid, "crash": cr,
                   "completion": spec.get("completion", "fifo")}
            if tree is None:
                job.update(kind="fresh", spec=spec)
            else:
                sim.copytree(tree, root)
                job.update(kind="restart", entry="restart.toml")
            (rc, res), = sim.runjobs([job])
            print(f"life {n}: crash {cr} -> rc={rc}, last effect {res['events'][-1]['op'] if res else None} "
                  f"{res['events'][-1]['path'] if res else None}")
            tree, pid = root, (pid if spec.get("same_pid") else pid + 1111)
        tr = read_restart(tree)
        (rc, res), = sim.runjobs([{"root": tree, "result": tree + ".restart.json", "kind": "restart",
                                   "entry": "restart.toml", "pid": pid, "completion": spec.get("completion", "fifo")}])
        res = res or {}
        for e in res.get("events", []):
            if "inflight" in e and e.get("text"):
                rec = parse_current(e["text"])
                want = sorted((sorted(j["ens"]), sorted(j["paths"])) for j in e["inflight"])
                got = sorted((sorted(x - 1 for x in l[0]), sorted(l[1])) for l in (rec or {}).get("locked", []))
                if want != got:
                    print(f"record of step {rec and rec['cstep']}: in flight {want}, recorded {got}")
                    return 1
        print("restart.toml on the crashed tree:", tr if not isinstance(tr, dict) else {k: tr[k] for k in ("cstep", "active")})
        print("restart:", res.get("outcome"), res.get("phase"), res.get("error"))
        if isinstance(tr, dict) and res.get("outcome") == "refuses" and tr["rf"] == tr["cstep"] and tr["cstep"] >= tr["steps"]:
            print("the record on disk is the one of a finished run restarted without steps left: stopping is by design")
            return 0
        if tr is None and len(r["chain"]) == 1 and res.get("outcome") == "refuses":
            # as in run(): no restart.toml has been completed yet, there is nothing to restart from
            print("no restart record on disk yet (crash inside the first step): not a restart case")
            return 0
        if res.get("outcome") != "starts" or res.get("phase") != "finished":
            return 1
        ok, why, _ = final_rows_ok(tree)
        print("data rows after continuing:", "unique" if ok else why)
        if not ok:
            return 1
        loaded = res.get("loaded") or {}
        if any(w == 0 for w in loaded.get("diag", [0])):
            return 1
        print("signature", sig, "no longer fails")
        return 0
    finally:
        shutil.rmtree(base, ignore_errors=True)
