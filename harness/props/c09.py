"""C09 — accepted paths belong to their ensemble; rejections change nothing.

Tie: the real `shoot` (tis.py) driven by a ScriptedEngine (EngineBase subclass whose
`_propagate_from` plays given order-value streams through the REAL `add_to_path`, run through the
REAL `EngineBase.propagate`) and a scripted random generator that logs its requests, against the
Lean model `Infretis.Moves.shoot` (both variants, `asIs` and `repaired`), plus the real static
`EngineBase.add_to_path` against `Infretis.Engine.addToPath` / `Moves.addToPathV`.

Property predicates (membership of accepted paths, old path untouched on rejection, acceptance
threshold, interior shooting points) are evaluated directly on the real outputs.
"""
from __future__ import annotations

import itertools
import math
import os
import shutil
import sys
import tempfile
from fractions import Fraction

from common import err_kind, frac_token, lst

SIG_LEN_EQ = "C09:shoot:length-eq-maxlen-rejected"
_HARNESS_EXC = []


def robust(fallback):
    """a runner of the real code must never take the harness down on changed code (an exception in the harness would
    exit 2 and hide a violation): anything unexpected becomes a visible pseudo-result that disagrees with the model"""
    def deco(fn):
        def wrapped(*a, **k):
            try:
                return fn(*a, **k)
            except Exception as e:  # noqa: BLE001
                _HARNESS_EXC.append(f"{fn.__name__}: {type(e).__name__}: {e}")
                return fallback(e)
        wrapped.__name__ = fn.__name__
        return wrapped
    return deco


def judged(ctx, fn, *a):
    """evaluate a predicate function; an exception inside it is reported as a broken correspondence, not a crash"""
    try:
        return fn(*a)
    except Exception as e:  # noqa: BLE001
        _HARNESS_EXC.append(f"{fn.__name__}: {type(e).__name__}: {e}")
        ctx.disagree({"fn": "harness-exception in " + fn.__name__}, f"{type(e).__name__}: {e}", "predicate could not be evaluated")
        return [] if fn.__name__ in ("wf_judge", "md_two_judge") else 0

# --------------------------------------------------------------------------- real-code side
_ENV = {}


def _imports():
    if _ENV:
        return _ENV
    import importlib.util  # noqa: F401
    import numpy as np
    from infretis.classes.engines import enginebase
    from infretis.classes.engines.enginebase import EngineBase
    from infretis.classes.orderparameter import OrderParameter
    from infretis.classes.path import Path
    from infretis.classes.system import System
    from infretis.core import tis

    class ScriptedOP(OrderParameter):
        def __init__(self):
            super().__init__(description="scripted", velocity=False)
            self.kick = 0.0

        conv = float

        def calculate(self, system):
            if self.kick is None:              # walk mode: the kick does not move the order parameter
                return [self.conv(system.order[0])]
            return [self.conv(self.kick)]

    class ScriptedEngine(EngineBase):
        """plays scripted order values through the real add_to_path; no MD, no trajectory files"""

        def __init__(self, exe_dir):
            super().__init__("scripted", 1.0, 1)
            self.exe_dir = exe_dir
            self.order_function = ScriptedOP()
            self.back, self.forw, self.dek = [], [], 0.0
            self.used = {True: 0, False: 0}
            self.kicks = 0
            self.walk = None
            self.plan = None
            self.calls = []                    # (reverse, success, path.length) per _propagate_from call
            self.reset_store()

        # -- reversible toy dynamics behind the scripted order values ("ordered in time" is judged on it) ----------
        # A stored phase point is (traj, t, v): trajectory label, time label, sign of the STORED velocity; one MD step
        # moves t by v.  `files` maps a file name to the stored points of its frames.  The real `propagate` extracts the
        # start frame (`_extract_frame`), flips its stored velocity when `reverse != system.vel_rev`
        # (`_reverse_velocities`) and flags what `_propagate_from` produces with vel_rev = reverse; a velocity kick
        # (`modify_velocities`) starts a fresh trajectory.  The velocity in the direction of a PATH is v, flipped when
        # the frame's vel_rev flag is set (enginebase.py:171).
        def reset_store(self, keep_rev=True):
            self.files = {}
            self.ntraj = 0
            self.kick_revs = []
            self.keep_rev = keep_rev           # False: the engine clears vel_rev at the kick (as the GROMACS engine does)

        def stored(self, config):
            fn, idx = config
            if fn == _ENV.get("oldfile"):
                return _OLDSTATE.get(idx)
            st = self.files.get(fn)
            if st is None or idx is None or not 0 <= idx < len(st):
                return None
            return st[idx]

        def script_wf(self, jumps, ext_back, ext_forw):
            """wire fencing: per jump (kick, back, forw), then the extender's two streams"""
            self.plan = {"jumps": jumps, "eb": list(ext_back), "ef": list(ext_forw)}
            self.jump, self.phase = -1, "jump"
            self.ran_out_ext = False
            self.used = {True: 0, False: 0}
            self.kicks = 0
            self.calls = []
            self.reset_store()

        def script(self, back, forw, kick, dek=0.0):
            self.back, self.forw, self.dek = list(back), list(forw), dek
            self.order_function.kick = kick
            self.used = {True: 0, False: 0}
            self.kicks = 0
            self.calls = []
            self.reset_store()

        def modify_velocities(self, system, vel_settings):
            self.kicks += 1
            if self.plan is not None:
                self.jump += 1
                if self.jump >= len(self.plan["jumps"]):
                    raise BadDraw()
                self.order_function.kick = float(self.plan["jumps"][self.jump][0])
            self.ntraj += 1
            fn = os.path.join(self.exe_dir, f"genvel_{self.ntraj}.xyz")
            self.files[fn] = [(self.ntraj, 0, 1)]      # fresh velocities: a new trajectory
            system.config = (fn, 0)
            if not self.keep_rev:
                system.vel_rev = False
            self.kick_revs.append(bool(system.vel_rev))
            system.ekin = 1.0
            return self.dek, 1.0

        def set_mdrun(self, md_items):
            pass

        def _read_configuration(self, filename):
            return np.zeros((1, 3)), np.zeros((1, 3)), None, None

        def _extract_frame(self, traj_file, idx, out_file):
            self.files[out_file] = [self.stored((traj_file, idx))]

        def _reverse_velocities(self, filename, outfile):
            st = self.stored((filename, 0))
            self.files[outfile] = [None if st is None else (st[0], st[1], -st[2])]

        def _propagate_from(self, name, path, system, ens_set, msg_file, reverse=False):
            left, _, right = ens_set["interfaces"]
            traj_file = os.path.join(self.exe_dir, name + ".xyz")
            success, status = False, "nothing played"
            if self.walk is not None:          # free-running lattice walk (wire-fencing predicate runs)
                rng, steps = self.walk
                x = system.order[0]
                seq = []
                for _ in range((path.maxlen or 0) + 2):
                    x = x + rng.choice(steps)
                    seq.append(x)
            elif self.plan is not None:
                if self.phase == "ext":
                    seq = self.plan["eb"] if reverse else self.plan["ef"]
                else:
                    seq = self.plan["jumps"][self.jump][1 if reverse else 2]
                seq = [float(x) for x in seq]
            else:
                seq = self.back if reverse else self.forw
            st0 = self.stored(system.config)
            self.files[traj_file] = []
            for k, op in enumerate([system.order[0]] + seq):
                self.files[traj_file].append(None if st0 is None else (st0[0], st0[1] + k * st0[2], st0[2]))
                snapshot = {"order": [self.order_function.conv(op)], "config": (traj_file, k), "vel_rev": reverse}
                pp = self.snapshot_to_system(system, snapshot)
                self.used[reverse] += 1
                status, success, stop, _ = self.add_to_path(path, pp, left, right)
                if stop:
                    break
            else:
                # the scripted "MD program" ended before add_to_path said stop (a real engine runs maxlen steps)
                if self.plan is not None and self.phase == "ext":
                    self.ran_out_ext = True
            self.calls.append((bool(reverse), bool(success), path.length))
            return success, status

    class ScriptedGen:
        """stands in for ens_set['rgen']: scripted outcomes, logged requests; argument checking by numpy"""

        def __init__(self, idx, xi):
            self.idx, self.xi, self.log = idx, xi, []
            self._np = np.random.default_rng(0)

        def integers(self, lo, hi):
            self.log.append(f"int:{lo}:{hi}")
            self._np.integers(lo, hi)          # raises ValueError exactly when numpy would
            if not lo <= self.idx < hi:
                raise BadDraw()
            return self.idx

        def random(self):
            self.log.append("random")
            if self.xi < 0:
                raise BadDraw()
            return self.xi

        def __getattr__(self, name):
            raise AssertionError(f"unexpected draw request {name}")

    tmp = tempfile.mkdtemp(prefix="c09_", dir="/dev/shm" if os.path.isdir("/dev/shm") else None)
    _ENV.update(np=np, enginebase=enginebase, EngineBase=EngineBase, Path=Path, System=System, tis=tis,
                ScriptedEngine=ScriptedEngine, ScriptedGen=ScriptedGen, tmp=tmp)
    os.mkdir(os.path.join(tmp, "exe"))
    os.mkdir(os.path.join(tmp, "load"))
    _ENV["engine"] = ScriptedEngine(os.path.join(tmp, "exe"))
    _ENV["oldfile"] = os.path.join(tmp, "load", "old.traj")     # not in exe_dir: clean_up() empties that one
    with open(_ENV["oldfile"], "w") as f:
        f.write("old path frames\n")
    _install_audit()
    return _ENV


class BadDraw(Exception):
    pass


_OLDSTATE = {}          # frame index of the current old path -> stored phase point (set by mk_old)


def frames_of(eng, path):
    """the frames of a path as (order, traj, t, stored v, vel_rev); None where a frame refers to no stored phase point"""
    out = []
    for s in path.phasepoints:
        try:
            st = eng.stored(s.config)
        except Exception:  # noqa: BLE001
            st = None
        out.append(None if st is None else (to_int(s.order[0]), st[0], st[1], st[2], bool(s.vel_rev)))
    return out


def time_ordered(frames):
    """the property's "ordered in time", stated on the toy dynamics: every frame and its successor lie on the same
    trajectory, point the same way along the path (u = stored velocity, flipped when vel_rev), and ONE MD step in that
    direction leads from the one to the other.  Returns the index of the first offending frame, or None.
    (Lean: Infretis.Moves.TimeOrdered / timeOrderedB, theorem wf_acc_time_ordered.)"""
    for k in range(len(frames) - 1):
        a, b = frames[k], frames[k + 1]
        if a is None or b is None:
            continue
        ua = -a[3] if a[4] else a[3]
        ub = -b[3] if b[4] else b[3]
        if not (b[1] == a[1] and ub == ua and b[2] == a[2] + ua):
            return k
    return None


def show_frames(frames):
    return "frames " + ("1" if time_ordered(frames) is None else "0") + " | " + lst(
        ["?" if f is None else f"{f[0]}:{f[1]}:{f[2]}:{f[3]}:{1 if f[4] else 0}" for f in frames])


def not_ordered_text(frames, k):
    def one(f):
        return "?" if f is None else f"(order {f[0]}, trajectory {f[1]}, t={f[2]}, stored v={f[3]:+d}, vel_rev={f[4]})"
    a, b = frames[k], frames[k + 1]
    ua = -a[3] if a[4] else a[3]
    return (f"frame {k} {one(a)} moves to t={a[2] + ua} on trajectory {a[1]} in one MD step along the path, but frame {k + 1} "
            f"is {one(b)}")


_AUDIT = {"on": False, "events": [], "watch": None, "installed": False}


def _install_audit():
    if _AUDIT["installed"]:
        return
    _AUDIT["installed"] = True

    def hook(event, args):
        if not _AUDIT["on"]:
            return
        w = _AUDIT["watch"]
        if event == "open":
            p, mode = args[0], args[1]
            if isinstance(p, str) and p == w and mode and any(c in str(mode) for c in "wa+x"):
                _AUDIT["events"].append(("open", mode))
        elif event in ("os.remove", "os.rename", "os.truncate", "os.rmdir", "shutil.move", "shutil.copyfile",
                       "os.replace", "os.unlink", "os.chmod", "os.utime"):
            if any(isinstance(a, str) and a == w for a in args):
                _AUDIT["events"].append((event,))

    sys.addaudithook(hook)


def cleanup():
    if _ENV:
        shutil.rmtree(_ENV["tmp"], ignore_errors=True)
        _ENV.clear()


def mk_old(case):
    E = _imports()
    p = E["Path"](maxlen=case.get("old_maxlen", 10_000), time_origin=case["oto"])
    for k, o in enumerate(case["old"]):
        s = E["System"]()
        s.order = [int(o) if case.get("ints") else float(o)]
        s.config = (E["oldfile"], k)
        s.vel_rev = bool((k * 7 + len(case["old"])) % 3 == 0)
        s.ekin, s.vpot = 0.5 * k, -1.0 * k
        p.phasepoints.append(s)
    _OLDSTATE.clear()
    for k, s in enumerate(p.phasepoints):
        _OLDSTATE[k] = (0, k, -1 if s.vel_rev else 1)
    p.generated = None if case.get("gen_none") else ("ld" if case["ld"] else "sh", 0.0, 0, 0)
    p.status = "ACC"
    p.weights = (1.0, 0.0)
    p.path_number = case.get("pn", 7)
    return p


def snapshot(path):
    """deep snapshot of everything reachable from a path object that a move could write"""
    fr = []
    for s in path.phasepoints:
        d = dict(s.__dict__)
        fr.append((id(s), tuple(s.order), s.config, s.vel_rev, s.ekin, s.vpot,
                   tuple(sorted(k for k in d)), id(d.get("pos")), id(d.get("vel")), id(d.get("box"))))
    attrs = {k: v for k, v in path.__dict__.items() if k != "phasepoints"}
    return (tuple(fr), id(path.phasepoints), repr(sorted(attrs.items(), key=lambda kv: kv[0])))


def sc_tuple(tok):
    return tuple(tok) if tok not in ("0", "-") else ()


def to_int(x):
    return int(x) if float(x) == int(x) else x


def settings_snapshot(ens):
    """deep copy of everything in ens_set a move could write (the generator object excluded)"""
    import copy
    return copy.deepcopy({k: v for k, v in ens.items() if k != "rgen"})


@robust(lambda e: (f"harness-exception:{type(e).__name__}", {"trial": None, "old": None, "acc": None, "status": None, "old_same": True, "file_same": True, "file_events": [], "draws": [], "ens_same": True}))
def run_real(case, eng=None, tis_set=None):
    """run the real shoot on one case; returns (canonical line, info dict).
    `eng` / `tis_set`: long-lived objects shared over a sequence of moves (history runs); default = the module's
    engine and a fresh settings dict built from the case"""
    E = _imports()
    eng = E["engine"] if eng is None else eng
    E["enginebase"].counter.count = -1          # reuse the two msg-file names instead of piling up files
    conv = int if case.get("ints") else float
    eng.order_function.conv = conv
    old = mk_old(case)
    gen = E["ScriptedGen"](case["idx"], float(Fraction(case["xi"])))
    eng.script([conv(x) for x in case["back"]], [conv(x) for x in case["forw"]], conv(case["kick"]))
    eng.keep_rev = not case.get("krf", False)
    if tis_set is None:
        tis_set = {"maxlength": case["ML"]}
        if case["am"] is not None:
            tis_set["allowmaxlength"] = bool(case["am"])
    ens = {"interfaces": tuple(conv(x) for x in case["intf"]), "tis_set": tis_set, "rgen": gen,
           "ens_name": "001", "mc_move": "sh"}
    if case["sce"] != "-":
        ens["start_cond"] = sc_tuple(case["sce"])
    ens_before = settings_snapshot(ens)
    before = snapshot(old)
    with open(E["oldfile"], "rb") as f:
        bytes_before = f.read()
    _AUDIT.update(on=True, events=[], watch=E["oldfile"])
    info = {"old": old}
    try:
        acc, trial, status = E["tis"].shoot(ens, old, eng, start_cond=sc_tuple(case["sc"]))
    except BadDraw:
        line = "err:baddraw"
        acc = trial = status = None
    except Exception as e:  # noqa: BLE001
        line = err_kind(e)
        acc = trial = status = None
    finally:
        _AUDIT["on"] = False
    info["file_events"] = list(_AUDIT["events"])
    with open(E["oldfile"], "rb") as f:
        info["file_same"] = f.read() == bytes_before
    info["old_same"] = snapshot(old) == before
    info["before"] = before
    info["ens_same"] = settings_snapshot(ens) == ens_before
    eng.order_function.conv = float
    info["draws"] = list(gen.log)
    info["calls"] = list(getattr(eng, "calls", []))
    info["acc"], info["trial"], info["status"] = acc, trial, status
    if trial is not None:
        info["frames"] = frames_of(eng, trial)                         # before alias_check rewrites config / vel_rev
        info["krev"] = eng.kick_revs[0] if eng.kick_revs else False
        try:
            info["ci"] = trial.check_interfaces(ens["interfaces"])     # before any predicate touches the returned path
        except Exception as e:  # noqa: BLE001
            info["ci"] = err_kind(e)
        g = trial.generated
        ops = [to_int(s.order[0]) for s in trial.phasepoints]
        info["ops"] = ops
        gtxt = f"{to_int(g[1])} {g[2]} {g[3]}" if isinstance(g, tuple) and g[0] == "sh" else f"badgen:{g!r}"
        flag = "1" if acc is True else ("0" if acc is False else f"badacc:{acc!r}")
        line = (f"ok {flag} {status} {gtxt} {trial.time_origin} {eng.used[True]} {eng.used[False]} | "
                f"{lst(ops)} | {lst(gen.log)}")
        info["status_attr"] = trial.status
        info["kicks"] = eng.kicks
    return line, info


@robust(lambda e: (f"harness-exception:{type(e).__name__}", {}))
def run_real_md(case, eng=None, tis_set=None):
    """the same case through the real run_md (→ select_shoot → shoot); start_cond comes from ens_set"""
    E = _imports()
    tis, eng = E["tis"], (E["engine"] if eng is None else eng)
    shared = tis_set
    E["enginebase"].counter.count = -1
    old = mk_old(case)
    gen = E["ScriptedGen"](case["idx"], float(Fraction(case["xi"])))
    conv = int if case.get("ints") else float
    eng.order_function.conv = conv
    eng.script([conv(x) for x in case["back"]], [conv(x) for x in case["forw"]], conv(case["kick"]))
    eng.keep_rev = not case.get("krf", False)
    if shared is None:
        tis_set = {"maxlength": case["ML"], "lambda_minus_one": False}
        if case["am"] is not None:
            tis_set["allowmaxlength"] = bool(case["am"])
    else:
        tis_set = shared
        tis_set["lambda_minus_one"] = False
    intf = [float(x) for x in case["intf"]]
    ens = {"interfaces": tuple(intf), "tis_set": tis_set, "rgen": gen, "ens_name": "001", "mc_move": "sh",
           "start_cond": sc_tuple(case["sc"])}
    ens_num = 0 if case["intf"][0] == case["intf"][1] else 1      # [0+] (ensemble index 0) has λ_left = λ_middle
    if case.get("minus"):
        # the [0-] ensemble with λ₋₁: interfaces (λ₋₁, ·, λ0), start_cond (L, R); run_md weighs with minus=True
        ens_num = -1
        tis_set["lambda_minus_one"] = float(case["intf"][0])
        intf = [float(case["intf"][2]), float(case["intf"][2]) + 2.0, float(case["intf"][2]) + 4.0]
    picked = {ens_num: {"ens": ens, "traj": old, "eng_idx": {"scripted": 0}, "exe_dir": eng.exe_dir}}
    md = {"picked": picked, "moves": [], "mc_moves": ["sh", "sh", "sh"], "trial_len": [], "trial_op": [],
          "generated": [], "interfaces": intf, "cap": None}
    saved = tis.ENGINES
    tis.ENGINES = {"scripted": [eng]}
    before = snapshot(old)
    with open(E["oldfile"], "rb") as f:
        bytes_before = f.read()
    _AUDIT.update(on=True, events=[], watch=E["oldfile"])
    info = {}
    try:
        tis.run_md(md)
        live = picked[ens_num]["traj"]
        st = md["status"]
        info.update(own=ens_num, status=st, live=live, replaced=live is not old, old_same=snapshot(old) == before,
                    ops=[to_int(s.order[0]) for s in live.phasepoints], weights=getattr(live, "weights", None),
                    frames=frames_of(eng, live))
        line = f"ok {st} {1 if live is not old else 0} {md['trial_len'][0]} | {lst(info['ops'])}"
    except BadDraw:
        line = "err:baddraw"
    except Exception as e:  # noqa: BLE001
        line = err_kind(e)
    finally:
        _AUDIT["on"] = False
        tis.ENGINES = saved
        eng.order_function.conv = float
    try:
        with open(E["oldfile"], "rb") as f:
            info["file_same"] = f.read() == bytes_before and not _AUDIT["events"]
    except OSError:
        info["file_same"] = False
    return line, info


def model_line(case, variant):
    i = case["intf"]
    am = "1" if case["am"] else "0"
    return (f"shoot {variant} {case['oto']} {1 if case['ld'] else 0} {i[0]} {i[1]} {i[2]} {case['ML']} {am} "
            f"{case['sc']} {case['sce']} {case['idx']} {frac_token(Fraction(case['xi']))} {case['kick']} "
            f"{lst(case['old'])} {lst(case['back'])} {lst(case['forw'])}")


# --------------------------------------------------------------------------- property predicates
def exit_pos(stream, l, r):
    """1-based position of the first value outside [l, r] in an engine stream, or None"""
    for k, x in enumerate(stream):
        if x < l or x > r:
            return k + 1
    return None


def check_membership(case, info):
    """ACC ⇒ the trial path is a path of its ensemble (direct statement of the property)"""
    l, m, r = case["intf"]
    ops, trial = info["ops"], info["trial"]
    sc = sc_tuple(case["sc"])
    sce = sc_tuple(case["sce"]) if case["sce"] != "-" else sc
    bad = []
    if len(ops) < 3:
        return [f"accepted path has {len(ops)} frames"]
    first, last = ops[0], ops[-1]
    if not ((first < l and "L" in sc) or (first > r and "R" in sc)):
        bad.append(f"starts at {first}, not outside on an allowed side {sc}")
    if not (last < l or last > r):
        bad.append(f"ends at {last}, inside [{l},{r}]")
    if "L" not in sc and (first <= l or last <= l):
        bad.append("touches the left side although L is not allowed")
    if not all(l <= x <= r for x in ops[1:-1]):
        bad.append("an interior frame is outside the interfaces")
    if set(sce) != {"L", "R"} and not (min(ops) < m <= max(ops)):
        bad.append(f"does not cross the middle interface {m}")
    if len(ops) > case["ML"]:
        bad.append(f"length {len(ops)} exceeds maxlength {case['ML']}")
    xi = Fraction(case["xi"])
    if not case["ld"] and not case["am"] and xi > 0 and not case.get("_shared_tis_set"):
        # the DRAWN limit min(⌊(L_old−2)/ξ⌋ + 2, maxlength) (Lean: shoot_acc_within_drawn_limit)
        drawn = min(math.floor(Fraction(len(case["old"]) - 2) / xi) + 2, case["ML"])
        if len(ops) > drawn:
            bad.append(f"length {len(ops)} exceeds the drawn length limit {drawn}")
    g = trial.generated
    if not (isinstance(g, tuple) and len(g) == 4 and g[0] == "sh"):
        bad.append(f"generated = {g!r}")
    else:
        if not (0 < g[3] < len(ops) - 1 and ops[g[3]] == case["kick"] and g[1] == case["kick"]):
            bad.append(f"shooting point (order {case['kick']}) is not the interior frame at generated[3]={g[3]}")
        if g[2] != case["idx"] or not 1 <= g[2] <= len(case["old"]) - 2:
            bad.append(f"shooting index {g[2]} is not an interior index of the old path")
        if trial.time_origin != case["oto"] + g[2] - g[3]:
            bad.append(f"time_origin {trial.time_origin} ≠ old origin {case['oto']} + idx {g[2]} − {g[3]}")
        # ordered in time: backward frames in decreasing frame number, then forward ones increasing
        cf = [(os.path.basename(s.config[0]), s.config[1], s.vel_rev) for s in trial.phasepoints]
        nb = g[3]
        okb = all(cf[k][0].endswith("trajB.xyz") and cf[k][1] == nb - k and cf[k][2] is True for k in range(nb + 1))
        okf = all(cf[nb + j][0].endswith("trajF.xyz") and cf[nb + j][1] == j and cf[nb + j][2] is False
                  for j in range(1, len(ops) - nb))
        if not (okb and okf):
            bad.append("frames are not ordered in time (backward part reversed, then forward part)")
    fr = info.get("frames")
    if fr is not None:
        k = time_ordered(fr)
        if k is not None:
            bad.append("not ordered in time: " + not_ordered_text(fr, k))
    if not trial.weight:
        bad.append("weight 0 in its own ensemble")
    return bad


def threshold_expect(case):
    """None if the threshold statement does not apply; else (expected accept, L_new, ratio)"""
    if case["ld"] or case["am"]:
        return None
    l, m, r = case["intf"]
    L = len(case["old"])
    xi = Fraction(case["xi"])
    if L < 3 or not 1 <= case["idx"] <= L - 2 or not l <= case["kick"] < r or xi <= 0 or l > m or m > r:
        return None
    nb, nf = exit_pos(case["back"], l, r), exit_pos(case["forw"], l, r)
    if nb is None or nf is None:
        return None                       # a segment never reaches an interface
    lnew = nb + nf + 1
    if lnew >= case["ML"]:
        return None                       # the absolute length limit, not the drawn one, decides
    full = list(reversed(case["back"][:nb])) + [case["kick"]] + list(case["forw"][:nf])
    sc = sc_tuple(case["sc"])
    sce = sc_tuple(case["sce"]) if case["sce"] != "-" else sc
    first, last = full[0], full[-1]
    if not ((first < l and "L" in sc) or (first > r and "R" in sc)):
        return None
    if "L" not in sc and (first <= l or last <= l):
        return None
    if set(sce) != {"L", "R"} and not (min(full) < m <= max(full)):
        return None
    ratio = Fraction(L - 2, lnew - 2)
    return (xi <= ratio, lnew, ratio)


def alias_check(ctx, info, rep, prefix):
    """the returned path must not share frame objects (or their order lists) with the old path: mutate every
    returned frame in place and look at the old path again. Run LAST (it destroys the returned path)."""
    trial, old = info.get("trial"), info.get("old")
    if trial is None or old is None or trial is old or "before" not in info:
        return 0
    old_ids = {id(s) for s in old.phasepoints} | {id(s.order) for s in old.phasepoints}
    shared = [k for k, s in enumerate(trial.phasepoints) if id(s) in old_ids or id(s.order) in old_ids]
    for s in trial.phasepoints:
        try:
            s.order[0] = s.order[0] + 1000
        except Exception:  # noqa: BLE001
            pass
        s.vel_rev = not s.vel_rev
        s.config = ("mutated-by-harness", -1)
        s.ekin = s.vpot = 12345.0
    trial.phasepoints.append(None)
    changed = snapshot(old) != info["before"]
    trial.phasepoints.pop()
    if shared or (changed and info.get("old_same", True)):
        ctx.fail(prefix + ":returned-path-shares-objects-with-old-path",
                 f"frames {shared} of the returned path are (or share their order list with) frame objects of the old path; "
                 f"in-place change of the returned path changed the old one: {changed}", rep)
        return 1
    return 0


def evaluate(ctx, case, line, info):
    """all property predicates on the real output of one case; returns number of failures raised"""
    n = 0
    rep = {"case": case, "code": line}
    if info["trial"] is None:
        if not info["old_same"] or not info["file_same"] or info["file_events"]:
            ctx.fail("C09:shoot:old-path-mutated-on-reject", "exception left the old path changed", rep)
            n += 1
        return n
    acc, status = info["acc"], info["status"]
    if (acc is True) != (status == "ACC") or acc not in (True, False) or info["status_attr"] != status:
        ctx.fail("C09:shoot:accept-status-mismatch", f"accept={acc!r} status={status!r} path.status={info['status_attr']!r}", rep)
        n += 1
    if acc:
        bad = check_membership(case, info)
        if bad:
            ctx.fail("C09:shoot:accepted-path-not-in-ensemble", "; ".join(bad), rep)
            n += 1
    else:
        if not info["old_same"]:
            ctx.fail("C09:shoot:old-path-mutated-on-reject", f"status {status}: old path frames/attributes changed", rep)
            n += 1
        if not info["file_same"] or info["file_events"]:
            ctx.fail("C09:shoot:old-files-touched-on-reject", f"status {status}: {info['file_events']}", rep)
            n += 1
    if not info.get("ens_same", True):
        if not acc:
            ctx.fail("C09:shoot:settings-changed-on-reject", f"status {status}: ens_set / tis_set were modified by the move", rep)
            n += 1
        else:
            ctx.disagree({"fn": "shoot", "case": case}, "ens_set / tis_set modified by an accepted move", "model never writes them")
    n += alias_check(ctx, info, rep, "C09:shoot")
    d = info["draws"]
    L = len(case["old"])
    if not d or d[0] != f"int:1:{L - 1}" or any(x != "random" for x in d[1:]) or len(d) > 2:
        ctx.fail("C09:shoot:shooting-point-draw", f"draw requests {d} for an old path of length {L}", rep)
        n += 1
    th = threshold_expect(case)
    if th is not None:
        want, lnew, ratio = th
        if want and not acc:
            # one root cause, one report: only the first instance goes to ctx.fail (the framework keeps 20
            # failures in all); every instance is counted
            if hasattr(ctx, "hit"):
                ctx.hit("threshold-violated:rejected-though-xi<=ratio")
            if not getattr(ctx, "_c09_len_eq_reported", False):
                ctx._c09_len_eq_reported = True
                ctx.fail(SIG_LEN_EQ, f"trial reaching both interfaces with L_new={lnew}, ξ={float(Fraction(case['xi']))} ≤ "
                         f"n_old/n_new={ratio} rejected with status {status} (add_to_path reports failure when "
                         f"length == maxlen even if that frame crossed)", rep)
            n += 1
        elif acc and not want:
            ctx.fail("C09:shoot:accepted-above-threshold", f"L_new={lnew}, ξ={float(Fraction(case['xi']))} > n_old/n_new={ratio} accepted", rep)
            n += 1
    return n


# --------------------------------------------------------------------------- case generation
L_, M_, R_ = 0, 2, 4
LEVELS = (-1, 0, 1, 2, 3, 4, 5)          # below | at left | between | at middle | between | at right | above
INSIDE_PATTERNS = {"low": (1,), "high": (3,), "edge": (0, 4), "mid": (2, 1)}


def base_case(**kw):
    c = {"old": [-1, 1, 1, -1], "oto": 0, "ld": False, "intf": [L_, M_, R_], "ML": 100, "am": None,
         "sc": "L", "sce": "-", "idx": 1, "xi": "1/2", "kick": 1, "back": [-1], "forw": [5]}
    c.update(kw)
    return c


def xi_ok(L, xi_float):
    """float int((L-2)/ξ) equals the floor of the exact quotient (the model's reading of `int`)"""
    if xi_float <= 0:
        return True
    try:
        a = int((L - 2) / xi_float)
    except (OverflowError, ValueError):
        return False
    return a == math.floor(Fraction(L - 2) / Fraction(xi_float))


def xi_grid(L, nmax):
    """ξ values hitting every ⌊(L−2)/ξ⌋ boundary (L−2)/n and its float neighbours, plus some dyadics"""
    out = []
    for n in range(max(1, L - 2), nmax + 1):
        b = (L - 2) / n
        for x in (b, math.nextafter(b, 0.0), math.nextafter(b, 2.0)):
            if 0 < x < 1 and xi_ok(L, x) and x not in out:
                out.append(x)
    return out


def old_ops(rng, L, kind):
    if kind == 0:
        return [-1] + [1 + (k % 3) for k in range(L - 2)] + [5 if L % 2 else -1]
    return [rng.choice(LEVELS) for _ in range(L)]


def stream(n_exit, side, pat, tail=0):
    """(n_exit−1) inside values, then the exit value (side: -1 below, +1 above, 0 = never exits: n_exit inside values)"""
    p = INSIDE_PATTERNS[pat]
    if side == 0:
        return [p[k % len(p)] for k in range(n_exit)]
    return [p[k % len(p)] for k in range(n_exit - 1)] + [(-1 if side < 0 else 5)] + [1] * tail


def gen_cases(ctx):
    rng = ctx.rng
    quick = ctx.quick
    cases = []
    add = cases.append
    # the documented witness of the length == maxlen finding first (L_old = 4, ξ = 0.49, L_new = 6)
    add(base_case(old=[-1, 2, 2, -1], intf=[0, 1, 4], xi=str(Fraction(0.49)), kick=2, back=[2, -1], forw=[2, 2, 5]))
    # --- A. the drawn length limit: every (L, ⌊·⌋ boundary ξ, (nb, nf) around the limit, exit sides, start conds)
    nmax = 6 if quick else 8
    for L in range(3, 8):
        for xi in xi_grid(L, nmax):
            K = math.floor(Fraction(L - 2) / Fraction(xi))
            for ML in (100, K + 2, K + 1):
                maxlen = min(K + 2, ML)
                pairs = [(nb, nf) for nb in range(1, maxlen + 2) for nf in range(1, maxlen + 2)
                         if maxlen - 2 <= nb + nf + 1 <= maxlen + 2 or nb + nf + 1 <= 4]
                for (nb, nf) in pairs:
                    for sb, sf in itertools.product((-1, 1), repeat=2):
                        for pat in (("low", "high", "edge") if ML == 100 else ("mid",)):
                            sc, sce = rng.choice((("L", "-"), ("L", "-"), ("R", "-"), ("LR", "-"), ("L", "L"),
                                                  ("LR", "L"), ("L", "LR"), ("R", "R")))
                            if quick and ML != 100 and rng.random() < 0.5:
                                continue
                            add(base_case(old=old_ops(rng, L, rng.randint(0, 1)), oto=rng.randint(-3, 9),
                                          idx=rng.randint(1, L - 2), xi=str(Fraction(xi)), ML=ML,
                                          kick=INSIDE_PATTERNS[pat][-1] if pat != "edge" else 0,
                                          back=stream(nb, sb, pat, tail=rng.randint(0, 2)),
                                          forw=stream(nf, sf, pat, tail=rng.randint(0, 2)), sc=sc, sce=sce,
                                          am=rng.choice((None, False))))
    # --- B. streams that never exit (engine stops at the limit or runs out): limit ±1
    for L in (3, 4, 6):
        for xi in xi_grid(L, 5):
            K = math.floor(Fraction(L - 2) / Fraction(xi))
            for ML in (100, K + 2, K):
                maxlen = min(K + 2, ML)
                for nb in range(1, maxlen + 2):
                    add(base_case(old=old_ops(rng, L, 0), xi=str(Fraction(xi)), ML=ML, idx=1,
                                  back=stream(nb, 0, "low"), forw=stream(2, 1, "low")))
                    for nf in (maxlen - nb - 2, maxlen - nb - 1, maxlen - nb, maxlen - nb + 1, maxlen - nb + 2):
                        if nf >= 1:
                            add(base_case(old=old_ops(rng, L, 0), xi=str(Fraction(xi)), ML=ML, idx=1,
                                          back=stream(nb, -1, "low"), forw=stream(nf, 0, "high")))
    # --- C. all shooting indices × kick levels × start conditions (KOB, BWI, 0-L, NCR branches)
    for L in range(3, 8):
        for idx in range(0, L):
            for kick in LEVELS:
                for sc, sce in (("L", "-"), ("R", "-"), ("LR", "-"), ("L", "LR"), ("LR", "L"), ("0", "-"), ("R", "L")):
                    for (sb, sf) in ((-1, 1), (1, -1), (-1, -1), (1, 1)):
                        add(base_case(old=old_ops(rng, L, 1), oto=rng.randint(-5, 5), idx=idx, kick=kick, sc=sc, sce=sce,
                                      xi="1/4", back=stream(2, sb, rng.choice(("low", "high"))),
                                      forw=stream(2, sf, rng.choice(("low", "high")))))
    # --- D. loaded paths / allowmaxlength: the absolute limit (FTX / BTX), maxlength small
    for ML in range(0, 9):
        for ld, am in ((True, None), (False, True), (True, True), (False, None)):
            for nb in range(1, ML + 2):
                for nf in range(1, ML + 2):
                    if nb + nf + 1 > ML + 2:
                        continue
                    for sb, sf in ((-1, 1), (1, 1), (0, 1), (-1, 0)):
                        add(base_case(old=old_ops(rng, 5, 0), idx=rng.randint(1, 3), ld=ld, am=am, ML=ML, xi="1/8",
                                      sc="LR" if sb > 0 else "L", back=stream(nb, sb, "mid"), forw=stream(nf, sf, "mid")))
    # --- E. every pair of short streams over the 7-level alphabet
    shorts = [s for n in range(0, 3) for s in itertools.product(LEVELS, repeat=n)]
    for b in shorts:
        for f in shorts:
            add(base_case(back=list(b), forw=list(f), xi="1/4", sc=rng.choice(("L", "LR", "R")), kick=rng.choice((1, 3))))
    if not quick:
        shorts3 = [s for n in range(3, 4) for s in itertools.product(LEVELS, repeat=n)]
        for b in shorts3:
            for f in rng.sample(shorts3, 12):
                add(base_case(back=list(b), forw=list(f), xi="1/4", sc=rng.choice(("L", "LR", "R")), kick=rng.choice((1, 3))))
    # --- F. malformed / degenerate inputs
    for old in ([], [1], [-1, 5], [-1, 1, 5]):
        for idx in (0, 1, 2):
            add(base_case(old=old, idx=idx))
    for xi in ("0", "-1/2", "1", "3/2", "1/1048576"):
        add(base_case(xi=xi))
        add(base_case(xi=xi, ML=7, back=stream(9, 0, "low")))
    for intf in ([4, 2, 0], [0, 5, 4], [0, -3, 4], [2, 2, 2], [0, 0, 4], [0, 4, 4]):
        for kick in (1, 2, 3):
            for sc in ("L", "R", "LR"):
                add(base_case(intf=intf, kick=kick, sc=sc))
                add(base_case(intf=intf, kick=kick, sc=sc, back=[5], forw=[-1]))
    # --- G. seeded random long cases
    nrand = 4000 if quick else 60000
    for _ in range(nrand):
        L = rng.randint(3, 40)
        l = rng.randint(-3, 3)
        m = l + rng.randint(0, 4)
        r = m + rng.randint(0, 4)
        xi = Fraction(rng.randint(1, (1 << 12) - 1), 1 << 12)
        if rng.random() < 0.3:
            n = rng.randint(L - 2, 3 * L)
            xi = Fraction(rng.choice((math.nextafter((L - 2) / n, 0.0), (L - 2) / n, math.nextafter((L - 2) / n, 2.0))))
        if not (0 < xi < 1) or not xi_ok(L, float(xi)):
            continue
        K = math.floor(Fraction(L - 2) / xi)
        target = max(3, min(K + 2 + rng.randint(-3, 3), 120))
        nb = rng.randint(1, max(1, target - 2))
        nf = max(1, target - 1 - nb + rng.randint(-1, 1))

        def walk(n, side):
            xs, x = [], rng.randint(l, r)
            for _k in range(n - 1):
                x = max(l, min(r, x + rng.choice((-1, 0, 1))))
                xs.append(x)
            if side:
                xs.append(l - 1 if side < 0 else r + 1)
            else:
                xs.append(x)
            return xs + [rng.randint(l - 1, r + 1) for _k in range(rng.randint(0, 2))]
        ML = rng.choice((1000, 1000, K + 2, target + rng.randint(-1, 1), rng.randint(3, 30)))
        add(base_case(old=[rng.randint(l - 1, r + 1) for _ in range(L)], oto=rng.randint(-100, 100),
                      ld=rng.random() < 0.1, intf=[l, m, r], ML=ML, am=rng.choice((None, False, False, True)),
                      sc=rng.choice(("L", "L", "R", "LR")), sce=rng.choice(("-", "-", "L", "R", "LR")),
                      idx=rng.randint(1, L - 2), xi=str(xi), kick=rng.randint(l - 1, r + 1) if rng.random() < 0.1 else rng.randint(l, max(l, r - 1)),
                      back=walk(nb, rng.choice((-1, -1, 1, 0))), forw=walk(nf, rng.choice((-1, 1, 1, 0)))))
    # falsy-but-valid values / types spread over every block: path number 0, integer-typed order parameters and interfaces
    for k, c in enumerate(cases):
        c["pn"] = 0 if k % 2 else 7
        if k % 7 == 3:
            c["ints"] = True
        if k % 5 == 2:
            c["krf"] = True               # the engine clears vel_rev at the velocity kick (as the GROMACS engine does)
        if k % 11 == 4 and not c["ld"]:
            c["gen_none"] = True          # an old path whose `generated` was never set (get_move() returns None)
    return cases


# --------------------------------------------------------------------------- wire fencing (predicates only)
class RngGen:
    """ens_set['rgen'] backed by the harness PRNG (wire-fencing runs are not scripted, only judged)"""

    def __init__(self, rng):
        self.rng, self.log = rng, []

    def integers(self, lo, hi):
        self.log.append(("int", lo, hi))
        if lo >= hi:
            raise ValueError("low >= high")
        return self.rng.randrange(lo, hi)

    def random(self):
        self.log.append(("random",))
        return self.rng.random()


def frames_only(snap):
    return snap[0], snap[1]


def wf_block(ctx):
    """real wire_fencing with a free-running lattice engine: membership of accepted paths and
    untouched old frames/files on rejection, stated directly (there is no Lean model of this move)"""
    E = _imports()
    tis, eng, rng = E["tis"], E["engine"], ctx.rng
    n = 1500 if ctx.quick else 20000
    eng.order_function.kick = None
    attr_changed = 0
    try:
        for it in range(n):
            l, m = 0, rng.randint(0, 3)
            r = m + rng.randint(1, 5)
            cap = rng.choice((None, None, rng.randint(m + 1, r)))
            ML = rng.choice((200, 200, rng.randint(6, 40)))
            sc = rng.choice(("L", "L", "L", "R", "LR"))
            # an old path of the ensemble: from below l (or above r) through [l, r], reaching m
            for _try in range(50):
                x = l - 1 if (sc != "R" or rng.random() < 0.3) else r + 1
                ops = [x]
                x = l if x < l else r
                while l <= x <= r and len(ops) < 60:
                    ops.append(x)
                    x += rng.choice((-1, 0, 1, 1) if len(ops) < 6 else (-1, -1, 0, 1))
                ops.append(x)
                if not (l <= x <= r) and max(ops) >= m and len(ops) < ML:
                    break
            else:
                continue
            case = {"old": ops, "oto": rng.randint(-5, 5), "ld": rng.random() < 0.2, "wf": True, "intf": [l, m, r], "cap": cap,
                    "ML": ML, "sc": sc, "n_jumps": rng.choice((1, 2, 3)), "seed": rng.randrange(1 << 30)}
            res = run_real_wf(case)
            ctx.count(1, branch="wf:" + str(res["status"]))
            bad = wf_judge(case, res)
            if res.get("attr_changed"):
                attr_changed += 1
            for sig, what in bad:
                ctx.fail(sig, what, {"wfcase": case, "code": res["line"]})
            if res["status"] == "ACC":
                ctx.distinct(("wf", repr(sorted(case.items()))))
            if it % 577 == 3:
                ctx.sample({"wfcase": case, "code": res["line"]})
    finally:
        eng.walk = None
        eng.order_function.kick = 0.0
    ctx.hit("wf:rejected-move-rewrote-old-path-status/generated (frames intact)", attr_changed)


@robust(lambda e: {"status": "harness-exception", "line": f"harness-exception:{type(e).__name__}", "exc": True, "frames_same": True, "file_same": True, "idx": [], "attr_changed": False})
def run_real_wf(case):
    import random as _random
    E = _imports()
    tis, eng = E["tis"], E["engine"]
    E["enginebase"].counter.count = -1
    rr = _random.Random(case["seed"])
    eng.walk = (rr, (-1, -1, 0, 1, 1, 2))
    eng.order_function.kick = None
    eng.reset_store(keep_rev=case["seed"] % 3 != 0)
    old = mk_old(case)
    l, m, r = case["intf"]
    tis_set = {"maxlength": case["ML"], "n_jumps": case["n_jumps"]}
    if case["cap"] is not None:
        tis_set["interface_cap"] = float(case["cap"])
    ens = {"interfaces": (float(l), float(m), float(r)), "tis_set": tis_set, "rgen": RngGen(rr), "ens_name": "002",
           "mc_move": "wf", "start_cond": sc_tuple(case["sc"])}
    before = snapshot(old)
    with open(E["oldfile"], "rb") as f:
        bytes_before = f.read()
    _AUDIT.update(on=True, events=[], watch=E["oldfile"])
    res = {"status": None}
    try:
        acc, trial, status = tis.wire_fencing(ens, old, eng, start_cond=sc_tuple(case["sc"]))
        ops = [to_int(s.order[0]) for s in trial.phasepoints]
        res.update(acc=acc, status=status, ops=ops, trial=trial, same_obj=trial is old, frames=frames_of(eng, trial),
                   line=f"ok {acc} {status} {trial.generated!r} | {lst(ops)}")
        if acc:
            res["cv"] = tis.calc_cv_vector(trial, [float(l), float(m), float(r)], ["sh", "sh", "wf"],
                                           cap=None if case["cap"] is None else float(case["cap"]))
    except Exception as e:  # noqa: BLE001
        res.update(status=err_kind(e), line=err_kind(e), exc=True)
    finally:
        _AUDIT["on"] = False
    after = snapshot(old)
    res["frames_same"] = frames_only(after) == frames_only(before)
    res["attr_changed"] = after != before and res["frames_same"]
    with open(E["oldfile"], "rb") as f:
        res["file_same"] = f.read() == bytes_before and not _AUDIT["events"]
    return res


def wf_judge(case, res):
    bad = []
    l, m, r = case["intf"]
    sc = sc_tuple(case["sc"])
    if res.get("exc"):
        # (the move's own start assertion `err:assert` used to be skipped here: nothing is returned or accepted then,
        #  but the old path must be untouched all the same)
        if not res["frames_same"] or not res["file_same"]:
            bad.append(("C09:wf:old-path-mutated-on-reject", f"{res['status']}: old frames/files changed"))
        return bad
    acc, status, ops = res["acc"], res["status"], res["ops"]
    if (acc is True) != (status == "ACC") or acc not in (True, False):
        bad.append(("C09:wf:accept-status-mismatch", f"accept={acc!r} status={status!r}"))
    if acc and res.get("frames") is not None:
        # "ordered in time", judged on the reversible toy dynamics of the scripted engine for every accepted path
        # (whatever the start condition; also when an extender stream ended early): Lean wf_acc_time_ordered
        k = time_ordered(res["frames"])
        if k is not None:
            bad.append(("C09:wf:accepted-path-not-ordered-in-time", not_ordered_text(res["frames"], k)))
    if acc and res.get("ran_out_ext"):
        # engine contract broken by the script: an extender stream ended before add_to_path said stop. The
        # extender ignores the engine's success flag, so such a path is accepted with an end inside — recorded
        # as an observation by the caller, not judged
        pass
    elif acc and case.get("sce", case["sc"]) != case["sc"]:
        pass    # start_cond argument ≠ ens_set["start_cond"]: not reachable through select_shoot; model comparison only
    elif acc:
        why = []
        if len(ops) < 3:
            why.append(f"{len(ops)} frames")
        else:
            if not ((ops[0] <= l and "L" in sc) or (ops[0] >= r and "R" in sc)):
                why.append(f"starts at {ops[0]} (allowed {sc})")
            if not (ops[-1] <= l or ops[-1] >= r):
                why.append(f"ends inside at {ops[-1]}")
            if not all(l <= x <= r for x in ops[1:-1]):
                why.append("interior frame outside")
            if set(sc) != {"L", "R"} and not (min(ops) < m <= max(ops)) and not (l == m and min(ops) <= m <= max(ops)):
                why.append(f"does not cross {m}")
            if len(ops) > case["ML"]:
                why.append(f"length {len(ops)} > maxlength {case['ML']}")
            g = res["trial"].generated
            if not (isinstance(g, tuple) and g[0] == "wf" and g[2] >= 1 and g[3] == len(ops)):
                why.append(f"generated={g!r}")
            # the weight that counts is the own-ensemble entry of calc_cv_vector (what run_md stores in
            # path.weights); the `weight` attribute is written but never read anywhere (and is lost when
            # subt_acceptance reverses the path)
            # judged for the ensembles wire fencing is used in (start condition L, argument = ens_set entry) and for
            # paths in generic position: a frame exactly ON the cap interface counts as inside for add_to_path
            # (`> right`) but as outside for the weight (`>= right`), a measure-zero boundary case for real order
            # parameters that is recorded by the caller as an observation
            capv = r if case.get("cap") is None else case["cap"]
            generic = all(x != capv for x in ops)
            if not res["cv"][1]:
                if sc == ("L",) and case.get("sce", case["sc"]) == case["sc"] and generic:
                    why.append(f"zero weight in its own ensemble: cv={res['cv']}")
                else:
                    res["zero_weight_boundary"] = True
        if why:
            bad.append(("C09:wf:accepted-path-not-in-ensemble", "; ".join(why)))
    else:
        if not res["frames_same"]:
            bad.append(("C09:wf:old-path-mutated-on-reject", f"status {status}: old frames changed"))
        if not res["file_same"]:
            bad.append(("C09:wf:old-files-touched-on-reject", f"status {status}"))
    return bad


# --------------------------------------------------------------------------- wire fencing: model tie
class WfGen:
    """scripted rgen for wire_fencing: random() → ξ of the segment pick; the k-th integers(lo, hi) → an
    admissible index derived from the k-th raw number (recorded, then given to the model)"""

    def __init__(self, xi, raws):
        self.xi, self.raws, self.log, self.idx = xi, raws, [], []
        import numpy as np
        self._np = np.random.default_rng(0)

    def integers(self, lo, hi):
        self.log.append(f"int:{lo}:{hi}")
        self._np.integers(lo, hi)
        k = len(self.idx)
        v = lo + self.raws[k % len(self.raws)] % (hi - lo)
        self.idx.append(v)
        return v

    def random(self):
        self.log.append("random")
        return self.xi

    def __getattr__(self, name):
        raise AssertionError(f"unexpected draw request {name}")


def wf_pick_ok(case):
    """the float comparison `sum_frames / n_frames >= ξ` agrees with the exact one for every segment"""
    E = _imports()
    l, m, r = case["intf"]
    cap = r if case["cap"] is None else case["cap"]
    xi = Fraction(case["xi"])
    p = mk_old(case)
    try:
        n, _ = E["tis"].wirefence_weight_and_pick(p, float(m), float(cap))
    except Exception:  # noqa: BLE001
        return True
    if not n:
        return True
    return all((c / n >= float(xi)) == (Fraction(c, n) >= xi) for c in range(1, n + 1))


@robust(lambda e: {"status": "harness-exception", "line": f"harness-exception:{type(e).__name__}", "exc": True, "frames_same": True, "file_same": True, "idx": [], "attr_changed": False})
def run_real_wf_scripted(case, via_md=False, eng=None, tis_set=None):
    E = _imports()
    tis, eng = E["tis"], (E["engine"] if eng is None else eng)
    shared = tis_set
    E["enginebase"].counter.count = -1
    old = mk_old(case)
    l, m, r = case["intf"]
    gen = WfGen(float(Fraction(case["xi"])), case["raws"])
    eng.script_wf([(j["kick"], j["back"], j["forw"]) for j in case["jumps"]], case["eb"], case["ef"])
    eng.keep_rev = not case.get("krf", False)
    tis_set = {"maxlength": case["ML"]} if shared is None else shared
    for key, val in (("n_jumps", case["nj"]), ("interface_cap", None if case["cap"] is None else float(case["cap"]))):
        if val is not None:
            tis_set[key] = val
        else:
            tis_set.pop(key, None)
    ens = {"interfaces": (float(l), float(m), float(r)), "tis_set": tis_set, "rgen": gen, "ens_name": "002",
           "mc_move": "wf", "start_cond": sc_tuple(case["sce"])}
    orig_ext = tis.extender

    taps = {}

    def ext_wrapper(*a, **k):
        eng.phase = "ext"
        r = orig_ext(*a, **k)
        taps["ext"] = (r[0], r[1].length, r[2])
        return r
    tis.extender = ext_wrapper
    orig_subt = tis.subt_acceptance

    def subt_wrapper(*a, **k):
        r = orig_subt(*a, **k)
        taps["subt"] = (r[0], r[1].status)
        taps["turned"] = r[1] is not a[0]
        return r
    tis.subt_acceptance = subt_wrapper
    orig_shoot = tis.shoot
    taps["shoots"] = []

    def shoot_wrapper(*a, **k):
        r = orig_shoot(*a, **k)
        taps["shoots"].append(bool(r[0]))
        return r
    tis.shoot = shoot_wrapper
    before = snapshot(old)
    before_attrs = {k: v for k, v in old.__dict__.items() if k != "phasepoints"}
    ens_before = settings_snapshot(ens)
    with open(E["oldfile"], "rb") as f:
        bytes_before = f.read()
    _AUDIT.update(on=True, events=[], watch=E["oldfile"])
    res = {"status": None}
    saved_eng = tis.ENGINES
    try:
        if via_md:
            # through run_md → select_shoot (start_cond = ens_set["start_cond"]); the move's return value is tapped
            tis_set["lambda_minus_one"] = False
            picked = {1: {"ens": ens, "traj": old, "eng_idx": {"scripted": 0}, "exe_dir": eng.exe_dir}}
            md = {"picked": picked, "moves": [], "mc_moves": ["sh", "sh", "wf"], "trial_len": [], "trial_op": [],
                  "generated": [], "interfaces": [float(l), float(m), float(r)],
                  "cap": None if case["cap"] is None else float(case["cap"])}
            tis.ENGINES = {"scripted": [eng]}
            tis.run_md(md)
            trial, status = picked[1]["traj"], md["status"]
            acc = status == "ACC"
            res["md_replaced"] = trial is not old
            res["md"] = md
        else:
            acc, trial, status = tis.wire_fencing(ens, old, eng, start_cond=sc_tuple(case["sc"]))
        ops = [to_int(s.order[0]) for s in trial.phasepoints]
        after = snapshot(old)
        rewritten = after != before
        g = trial.generated
        if trial is old and not rewritten:
            gtxt = "0 0"
        elif isinstance(g, tuple) and len(g) == 4 and g[0] == "wf" and g[1] == 9000:
            gtxt = f"{g[2]} {g[3]}"
        else:
            gtxt = f"badgen:{g!r}"
        flag = "1" if acc is True else ("0" if acc is False else f"badacc:{acc!r}")
        res.update(acc=acc, status=status, ops=ops, trial=trial, status_attr=trial.status, frames=frames_of(eng, trial),
                   line=f"ok {flag} {status} {gtxt} {trial.time_origin} {1 if trial is old else 0} "
                        f"{1 if rewritten else 0} | {lst(ops)} | {lst(gen.log)}")
        if acc:
            res["cv"] = tis.calc_cv_vector(trial, [float(l), float(m), float(r)], ["sh", "sh", "wf"],
                                           cap=None if case["cap"] is None else float(case["cap"]))
    except BadDraw:
        res.update(status="err:baddraw", line="err:baddraw", exc=True)
    except Exception as e:  # noqa: BLE001
        res.update(status=err_kind(e), line=err_kind(e), exc=True)
    finally:
        _AUDIT["on"] = False
        tis.extender = orig_ext
        tis.subt_acceptance = orig_subt
        tis.shoot = orig_shoot
        tis.ENGINES = saved_eng
        eng.plan = None
    res["taps"] = taps
    res["draws"] = list(gen.log)
    res["krevs"] = list(eng.kick_revs)
    after = snapshot(old)
    res["frames_same"] = frames_only(after) == frames_only(before)
    res["attr_changed"] = after != before and res["frames_same"]
    # which path-level attributes changed (the recorded observation allows exactly status → 'NSG' and
    # generated → ('wf', 9000, 0, len) on a rejected move)
    res["attrs_ok"] = True
    if res["attr_changed"]:
        ok_status = old.status == "NSG" and old.generated == ("wf", 9000, 0, old.length)
        rest = {k: v for k, v in old.__dict__.items() if k not in ("phasepoints", "status", "generated")}
        rest_before = {k: v for k, v in before_attrs.items() if k not in ("status", "generated")}
        res["attrs_ok"] = ok_status and repr(sorted(rest.items())) == repr(sorted(rest_before.items()))
    res["allowmax_set"] = tis_set.get("allowmaxlength") is True
    # settings purity: the only write wire_fencing makes is tis_set["allowmaxlength"] = True (recorded observation)
    ens_after = settings_snapshot(ens)
    if via_md:
        ens_after["tis_set"].pop("lambda_minus_one", None)
    ens_after["tis_set"].pop("allowmaxlength", None)
    ens_before["tis_set"].pop("allowmaxlength", None)
    res["ens_ok"] = ens_after == ens_before
    res["old"], res["before"], res["old_same"] = old, before, after == before
    res["ran_out_ext"] = eng.ran_out_ext
    res["idx"] = list(gen.idx)
    with open(E["oldfile"], "rb") as f:
        res["file_same"] = f.read() == bytes_before and not _AUDIT["events"]
    return res


def wf_model_line(case, res, variant="r"):
    l, m, r = case["intf"]
    idx = res["idx"] + [1] * len(case["jumps"])
    js = " ".join(f"{idx[k]} {j['kick']} {lst(j['back'])} {lst(j['forw'])}" for k, j in enumerate(case["jumps"]))
    nj = 2 if case["nj"] is None else case["nj"]
    return (f"wf {variant} {case['oto']} {l} {m} {r} {'-' if case['cap'] is None else case['cap']} {case['ML']} {nj} "
            f"{case['sc']} {case['sce']} {frac_token(Fraction(case['xi']))} {lst(case['old'])} {lst(case['eb'])} "
            f"{lst(case['ef'])} {len(case['jumps'])} {js}").rstrip()


def wft_model_line(case, res, variant="r"):
    """frames of the accepted path: `wft v list(krevs) <wire-fencing input>`"""
    kr = [1 if b else 0 for b in res.get("krevs", [])]
    return f"wft {variant} {lst(kr)} " + wf_model_line(case, res, variant)[len(f"wf {variant} "):]


def real_frames_line(res):
    """what the frame-level model must print for this real result: the frames of an accepted path, `none` otherwise"""
    if res.get("exc") or res.get("status") != "ACC" or res.get("frames") is None:
        return "none"
    return show_frames(res["frames"])


def gen_wf_cases(ctx):
    return gen_wf_cases_small(ctx, 6000 if ctx.quick else 60000)


def gen_wf_cases_small(ctx, n):
    rng = ctx.rng
    out = []
    while len(out) < n:
        l = 0
        m = rng.choice((0, 1, 1, 2))
        r = m + rng.randint(1, 4)
        cap = rng.choice((None, None, None, r, rng.randint(m + 1, r), rng.randint(m + 1, r)))
        if rng.random() < 0.02:
            cap = rng.choice((m, m - 1, -1))
        intf = [l, m, r]
        if rng.random() < 0.01:
            intf = [r, m, l]
        c = r if cap is None else cap
        if rng.random() < 0.25:                       # arbitrary sequences
            L = rng.randint(2, 14)
            x = rng.choice((-1, -1, -1, r + 1, rng.randint(-1, r + 1)))
            old = []
            for _ in range(L):
                old.append(x)
                x = max(-1, min(r + 1, x + rng.choice((-2, -1, -1, 0, 1, 1, 1, 2))))
        else:                                          # a path of the ensemble: from below l through [l, r]
            old, x = [-1], 0
            while 0 <= x <= r and len(old) < 16:
                old.append(x)
                x += rng.choice((-1, 0, 1, 1, 1) if len(old) < 5 else (-1, -1, 0, 1))
            old.append(x)
        ML = rng.choice((100, 100, rng.randint(3, 14), rng.randint(0, 30)))
        nj = rng.choice((None, 1, 2, 2, 3, 0, 6, 10))
        sc = rng.choice(("L", "L", "L", "R", "LR"))
        sce = sc if rng.random() < 0.9 else rng.choice(("L", "R", "LR"))

        def walk(start, lo, hi, nmax, bias):
            xs, y = [], start
            for _k in range(rng.randint(0, nmax)):
                y = y + rng.choice(bias)
                xs.append(y)
                if (y < lo or y > hi) and rng.random() < 0.8:
                    break
            return xs + [rng.randint(min(lo, hi) - 1, max(lo, hi) + 1) for _k in range(rng.randint(0, 1))]
        jumps = []
        for _ in range(max(3, (nj or 2))):
            kick = rng.randint(m, max(m, c - 1)) if rng.random() < 0.93 else rng.randint(min(m, c) - 1, max(m, c) + 1)
            jumps.append({"kick": kick, "back": walk(kick, m, c, 7, (-1, -1, -1, 0, 1)), "forw": walk(kick, m, c, 7, (-1, 0, 1, 1, 1))})
        eb = walk(rng.randint(l, r), l, r, 9, (-1, -1, -1, 0, 1))
        ef = walk(rng.randint(l, r), l, r, 9, (-1, 0, 1, 1, 1))
        case = {"old": old, "oto": rng.randint(-5, 5), "ld": rng.random() < 0.2, "intf": intf, "cap": cap, "ML": ML, "nj": nj,
                "sc": sc, "sce": sce, "xi": str(Fraction(rng.randint(0, 64), 64)), "raws": [rng.randrange(1000) for _ in range(4)],
                "jumps": jumps, "eb": eb, "ef": ef, "pn": rng.choice((0, 7))}
        # shift everything so that interfaces / the cap / order values hit 0.0 exactly in different roles
        off = rng.choice((0, 0, -1, -2, -3, -4))
        if off:
            case["old"] = [x + off for x in old]
            case["intf"] = [x + off for x in intf]
            case["cap"] = None if cap is None else cap + off
            case["jumps"] = [{"kick": j["kick"] + off, "back": [x + off for x in j["back"]], "forw": [x + off for x in j["forw"]]}
                             for j in jumps]
            case["eb"] = [x + off for x in eb]
            case["ef"] = [x + off for x in ef]
        if rng.random() < 0.34:
            case["krf"] = True            # the engine clears vel_rev at the velocity kick (GROMACS engine); default keeps it
        if wf_pick_ok(case):
            out.append(case)
    return out


def wf_tie(ctx, have_model):
    """real wire_fencing with scripted engine/draws against Moves.wireFencing, plus the direct predicates"""
    cases = gen_wf_cases(ctx)
    real = [run_real_wf_scripted(c) for c in cases]
    mod = ctx.driver([wf_model_line(c, res) for c, res in zip(cases, real)]) if have_model else None
    modf = ctx.driver([wft_model_line(c, res) for c, res in zip(cases, real)]) if have_model else None
    n_rewrite = n_allow = 0
    for k, c in enumerate(cases):
        res = real[k]
        ctx.count(1, branch="wf-scripted:" + str(res["status"]))
        if have_model and res["line"] != mod[k]:
            ctx.disagree({"fn": "wire_fencing", "variant": "repaired", "wfs": c, "idx": res["idx"]}, res["line"], mod[k])
        if have_model and not str(res["line"]).startswith("harness-exception") and real_frames_line(res) != modf[k]:
            ctx.disagree({"fn": "wire_fencing: frames (stored point, vel_rev) of the accepted path", "wfs": c,
                          "idx": res["idx"], "krevs": res.get("krevs")}, real_frames_line(res), modf[k])
        if res.get("status") == "ACC" and res.get("frames"):
            ctx.hit("wf-frames:accepted-" + ("turned-around-by-subt_acceptance" if res.get("taps", {}).get("turned")
                                             else "as-generated"))
        for sig, what in judged(ctx, wf_judge, wf_as_judged(c), res):
            ctx.fail(sig, what, {"wfs": c, "code": res["line"]})
        if not res.get("ens_ok", True) and not res.get("acc"):
            ctx.fail("C09:wf:settings-changed-on-reject", f"{res['status']}: ens_set / tis_set changed beyond allowmaxlength=True",
                     {"wfs": c, "code": res["line"]})
        judged(ctx, alias_check, ctx, res, {"wfs": c, "code": res["line"]}, "C09:wf")
        if res.get("attr_changed"):
            n_rewrite += 1
        if res.get("allowmax_set"):
            n_allow += 1
        if res.get("zero_weight_boundary"):
            ctx.hit("observation:wf-accepted-with-zero-weight (frame exactly on the cap interface, or start_cond not L)")
        if res.get("ran_out_ext") and res.get("acc"):
            ctx.hit("observation:wf-accepted-although-an-extender-stream-ended-early (extender ignores the success flag)")
        if res["status"] == "ACC":
            ctx.distinct(("wfs", repr(sorted((a, repr(b)) for a, b in c.items()))))
        if k % 1499 == 7:
            ctx.sample({"wfs": c, "code": res["line"]})
    # ---- the same move through run_md (start_cond argument = ens_set entry), every 3rd case
    for k, c in enumerate(cases):
        if k % 3 or c["sc"] != c["sce"]:
            continue
        res = run_real_wf_scripted(c, via_md=True)
        ctx.count(1, branch="run_md:wf:" + str(res["status"]))
        rep = {"wfs": c, "via": "run_md", "code": res.get("line")}
        if res.get("exc"):
            if not res["frames_same"] or not res["file_same"]:
                ctx.fail("C09:run_md:old-path-changed-on-reject", f"wf raised {res['status']}: old frames/files changed", rep)
            continue
        if res["line"].split(" | ")[0].split()[1:3] != real[k]["line"].split(" | ")[0].split()[1:3] and not real[k].get("exc"):
            ctx.disagree({"fn": "run_md(wf) vs wire_fencing", "wfs": c}, res["line"], real[k]["line"])
        if res["status"] != "ACC":
            if res["md_replaced"] or not res["frames_same"] or not res["attrs_ok"] or not res["file_same"]:
                ctx.fail("C09:run_md:rejected-move-replaced-path" if res["md_replaced"] else "C09:run_md:old-path-changed-on-reject",
                         f"wf status {res['status']}: replaced={res['md_replaced']} frames unchanged={res['frames_same']} "
                         f"weights/path_number/... unchanged={res['attrs_ok']}", rep)
        else:
            if not res["md_replaced"] or res["trial"].weights is None or res["trial"].status != "ACC":
                ctx.fail("C09:run_md:accepted-path-not-installed", f"wf ACC: replaced={res['md_replaced']} weights={res['trial'].weights}", rep)
            for sig, what in wf_judge(wf_as_judged(c), res):
                ctx.fail(sig, what, rep)
    # recorded observations (the property speaks of frames and files, which stay intact)
    ctx.hit("observation:wf-rejected-with-NSG-overwrote-old-path.status/.generated (frames+files intact)", n_rewrite)
    ctx.hit("observation:wf-set-allowmaxlength=True-on-the-shared-tis_set-dict", n_allow)


def wf_as_judged(c):
    d = dict(c)
    d["n_jumps"] = c["nj"]
    return d


# --------------------------------------------------------------------------- run_md, two-ensemble moves
def md_two_cases(ctx):
    """zero-swap cases (format of props/c11.py): targeted leg-disagreement grid + seeded cases of C11's generators"""
    from props import c11
    rng = ctx.rng
    cases = []
    NEG = c11.NEG
    o0 = [(1, (100, 1), False, 0), (-1, (101, 1), False, 0), (-2, (102, 1), False, 0), (1, (103, 1), False, 0)]
    o1 = [(-1, (200, -1), False, 0), (1, (201, -1), False, 0), (2, (202, -1), False, 0), (4, (203, -1), False, 0)]
    # QuanTIS: one-step scripts A, B cross λ0; C completes the new [0-] path, D the new [0+] path
    c_ok = [[-2, -1, 1], [-1, 1], [-2, -2, -1, 2]]
    c_bad = [[-1] * 12, [1], [-2, -60]]                 # BTX (never back), BTS (too short), leaves on the far left
    d_ok = [[2, 1, -1], [2, 4], [1, 1, 2, 5]]
    d_bad = [[1] * 12, [2] * 12, []]                       # FTX; [] with B=4 gives FTS
    for m0 in (5, 6, 8, 9):
        for bval in (1, 2, 4):
            for C in c_ok + c_bad:
                for D in d_ok + d_bad:
                    for variant, i0, sc in (("plain", (NEG, 0, 0), (False, True)), ("lm1", (-3, -2, 0), (True, True))):
                        scripts = [c11.mk_script([1], 300, 1, v0=2), c11.mk_script([bval], 400, 1, v0=0),
                                   c11.mk_script(C, 500, None), c11.mk_script(D, 600, None)]
                        cases.append({"kind": "quantis", "tag": "c09-legs", "e0": c11.ens(i0, m0, sc),
                                      "e1": c11.ens((0, 1, 3), m0, (True, False)), "old0": o0, "old1": o1,
                                      "scripts": scripts, "beta0": Fraction(1), "beta1": Fraction(1), "aa": True,
                                      "xi": Fraction(1, 2)})
    # plain RETIS swap: backward script for the new [0-] path, forward script for the new [0+] path
    for m0 in (5, 6, 8):
        for m1 in (5, 6, 8):
            for Bw in c_ok + c_bad:
                for Fw in d_ok + d_bad + [[1]]:
                    for wf in (False, True):
                        cases.append({"kind": "retis", "tag": "c09-legs", "e0": c11.ens((NEG, 0, 0), m0, (False, True)),
                                      "e1": c11.ens((0, 1, 3), m1, (True, False), wf=wf), "old0": o0, "old1": o1,
                                      "scripts": [c11.mk_script(Bw, 500, None), c11.mk_script(Fw, 600, None)],
                                      "xi": Fraction(1, 2)})
    nq = 1500 if ctx.quick else 12000
    q = c11.quantis_cases(ctx)
    for c in q[:nq]:
        c = dict(c)
        c["aa"] = rng.random() < 0.6
        cases.append(c)
    r = c11.retis_cases(ctx)
    for c in rng.sample(r, min(len(r), 2500 if ctx.quick else 20000)):
        cases.append(c)
    return cases


@robust(lambda e: {"err": f"harness-exception:{type(e).__name__}", "replaced": (False, False), "diff": (None, None), "ret": None})
def run_md_two(W, c):
    """one zero-swap case through the REAL run_md (→ select_shoot → retis/quantis_swap_zero) with C11's scripted engines"""
    from props import c11
    E = c11.engine_classes()
    tis = W.tis
    W.sweep()
    fs, log, d = {}, [], W.dirs[0]
    if c["kind"] == "retis":
        eng0 = E["S"](0, fs, log, [c["scripts"][0]], d)
        eng1 = E["S"](1, fs, log, [c["scripts"][1]], d)
    else:
        eng0 = E["S"](0, fs, log, [c["scripts"][0], c["scripts"][2]], d, beta=float(c["beta0"]))
        eng1 = E["S"](1, fs, log, [c["scripts"][1], c["scripts"][3]], d, beta=float(c["beta1"]))
    old0 = W.mk_path(fs, "old0", c["old0"])
    old1 = W.mk_path(fs, "old1", c["old1"])
    for k, p in enumerate((old0, old1)):
        p.status, p.path_number, p.generated = "ACC", 11 + k, ("sh", 0.0, 1, 1)
        p.weights = (1.0,) if k == 0 else (1.0, 1.0, 0.0)
    rgen = c11.OneDraw(float(c["xi"]))
    picked = W.picked(c, old0, old1, rgen)
    e0, e1 = c["e0"], c["e1"]
    for key, name in ((-1, "e0"), (0, "e1")):
        picked[key]["eng_idx"] = {name: 0}
        picked[key]["exe_dir"] = d
        picked[key]["ens"]["tis_set"]["lambda_minus_one"] = False if e0["i"][0] == c11.NEG else float(e0["i"][0])
        picked[key]["ens"]["tis_set"]["quantis"] = c["kind"] == "quantis"
    md = {"picked": picked, "moves": [], "mc_moves": ["sh", "wf" if e1["wf"] else "sh", "sh", "sh"], "trial_len": [],
          "trial_op": [], "generated": [], "interfaces": [float(x) for x in e1["i"]],
          "cap": None if e1["cap"] is None else float(e1["cap"])}
    olds = (old0, old1)
    snaps = [c11.snapshot(p) for p in olds]
    old_files = {fr.config[0] for p in olds for fr in p.phasepoints}
    fs_before = {f: list(fs[f]) for f in old_files if f in fs}
    saved_np, saved_eng = tis.np, tis.ENGINES
    tis.np, tis.ENGINES = W.proxy, {"e0": [eng0], "e1": [eng1]}
    W.proxy.exp_log.clear()
    out = {"olds": olds}
    # the move's own return value (status of the trials as the move left them)
    seen = {}
    orig = {n: getattr(tis, n) for n in ("retis_swap_zero", "quantis_swap_zero")}

    def tap(name):
        def f(*a, **k):
            r = orig[name](*a, **k)
            seen["ret"] = (r[0], [(t, t.status) for t in r[1]], r[2])
            return r
        return f
    for n in orig:
        setattr(tis, n, tap(n))
    try:
        tis.run_md(md)
        out["status"] = md["status"]
    except Exception as e:  # noqa: BLE001
        out["err"] = err_kind(e)
    finally:
        tis.np, tis.ENGINES = saved_np, saved_eng
        for n, fn in orig.items():
            setattr(tis, n, fn)
    out["ret"] = seen.get("ret")
    out["live"] = (picked[-1]["traj"], picked[0]["traj"])
    out["replaced"] = tuple(l is not o for l, o in zip(out["live"], olds))
    out["diff"] = tuple(c11.snapshot_diff(snaps[k], c11.snapshot(olds[k]), fs_before if k == 0 else {}, fs, ("old[0-]", "old[0+]")[k])
                        for k in range(2))
    out["paths"] = tuple(W.read_path(fs, l) for l in out["live"])
    out["md"] = md
    return out


def md_two_block(ctx, have_model):
    from props import c11
    W = c11.World()
    try:
        cases = md_two_cases(ctx)
        lines, outs = [], []
        for c in cases:
            o = run_md_two(W, c)
            outs.append(o)
            if o.get("ret") is not None and "err" not in o:
                acc, trials, st = o["ret"]
                lines.append(f"commit2 {st} {trials[0][1] or '-'} {trials[1][1] or '-'}")
            else:
                lines.append(None)
        mod = ctx.driver([l for l in lines if l is not None]) if have_model else []
        mi = 0
        for c, o, l in zip(cases, outs, lines):
            rep = {"mdtwo": {k: c[k] for k in c if k != "tag"}}
            kind = c["kind"]
            label = o.get("err") or o["status"]
            legs = ""
            if o.get("ret") is not None:
                legs = ":legs=" + "/".join(str(t[1] or "-") for t in o["ret"][1])
            ctx.count(1, branch=f"run_md:{kind}:{label}{legs}" if label not in ("ACC",) else f"run_md:{kind}:ACC")
            if l is not None and have_model:
                got = f"{1 if o['replaced'][0] else 0} {1 if o['replaced'][1] else 0}"
                if got != mod[mi]:
                    ctx.disagree({"fn": "run_md commit (two ensembles)", "case": rep, "move_return": l}, got, mod[mi])
                mi += 1
            for sig, what in judged(ctx, md_two_judge, c, o, W):
                ctx.fail(sig, what, rep)
            if o.get("status") == "ACC" or (o.get("ret") and any(t[1] == "ACC" for t in o["ret"][1])):
                ctx.distinct(("mdtwo", repr(sorted((a, repr(b)) for a, b in c.items()))))
    finally:
        W.close()


def md_two_judge(c, o, W=None):
    """the C09 clauses on what run_md left in `picked` after a two-ensemble move"""
    from props import c11
    bad = []
    names = ("[0-]", "[0+]")
    status = o.get("status", o.get("err"))
    ret = o.get("ret")
    trial_st = None if ret is None else [t[1] for t in ret[1]]
    if status != "ACC":
        # rejected (or raised): both ensembles keep their old path object, unchanged in every respect
        for k in range(2):
            if o["replaced"][k]:
                live = o["live"][k]
                bad.append(("C09:run_md:rejected-move-replaced-path",
                            f"move status {status} (trial statuses {trial_st}) but picked{names[k]}['traj'] was replaced by a "
                            f"trial path: status={live.status!r} length={live.length} path_number={live.path_number} "
                            f"weights={live.weights}"))
            if o["diff"][k]:
                bad.append(("C09:run_md:old-path-changed-on-reject", f"move status {status}: {o['diff'][k]}"))
        if ret is not None and ret[0] is not False:
            bad.append(("C09:run_md:accept-status-mismatch", f"accept={ret[0]!r} with status {status}"))
        return bad
    if not all(o["replaced"]):
        bad.append(("C09:run_md:accepted-path-not-installed", f"status ACC, replaced={o['replaced']}"))
        return bad
    if ret is not None and (ret[0] is not True or any(s != "ACC" for s in trial_st)):
        bad.append(("C09:run_md:accept-status-mismatch", f"status ACC with accept={ret[0]!r}, trial statuses {trial_st}"))
    for k, live in enumerate(o["live"]):
        if live.weights is None or live.status != "ACC":
            bad.append(("C09:run_md:accepted-path-without-weights", f"{names[k]}: weights={live.weights} status={live.status!r}"))
        if o["diff"][k]:
            bad.append(("C09:run_md:old-path-changed", f"accepted move altered the replaced old path object: {o['diff'][k]}"))
    md = o["md"]
    if not (len(md["trial_len"]) == len(md["generated"]) == len(md["moves"]) == 2):
        bad.append(("C09:run_md:bookkeeping", f"trial_len={md['trial_len']} generated={md['generated']} moves={md['moves']}"))
    e0, e1 = c["e0"], c["e1"]
    if c["kind"] == "retis":
        nondry = all(len(s[1]) + 2 >= e1["maxlen"] for s in c["scripts"])
        if e0["maxlen"] <= e1["maxlen"] and nondry and c11.ordered(e0) and c11.ordered(e1) and e0["i"][2] == e1["i"][0] \
                and c11.valid_minus(e0, c["old0"]) and c11.valid_plus(e1, c["old1"]):
            if not c11.valid_minus(e0, o["paths"][0]):
                bad.append(("C09:run_md:installed-path-not-in-ensemble", f"new [0-] path {[f[0] for f in o['paths'][0]]}"))
            if not c11.valid_plus(e1, o["paths"][1]):
                bad.append(("C09:run_md:installed-path-not-in-ensemble", f"new [0+] path {[f[0] for f in o['paths'][1]]}"))
            if not o["live"][0].weights[0] or (not e1["wf"] and not o["live"][1].weights[0]):
                bad.append(("C09:run_md:zero-weight-in-own-ensemble", f"weights {o['live'][0].weights} {o['live'][1].weights}"))
    return bad


# --------------------------------------------------------------------------- call history: long-lived objects
def history_block(ctx, have_model):
    """ONE engine object and ONE tis_set dict over a sequence of different moves (shoot, wire_fencing, run_md);
    every step is compared with the same step on FRESH objects (fresh engine, a copy of the dict as it was before
    the step) and with the model for the current input — the model is functional, so what is checked here is that
    the code's result depends on nothing but (input, current content of the settings dict)."""
    import copy
    E = _imports()
    rng = ctx.rng
    nseq = 60 if ctx.quick else 1200
    long_eng = E["engine"]
    fresh_dir = os.path.join(E["tmp"], "exe_fresh")
    os.makedirs(fresh_dir, exist_ok=True)
    n_obs = 0
    wf_pool = gen_wf_cases_n(ctx, nseq * 3)
    for _s in range(nseq):
        ML = rng.choice((100, 100, 12, 9))
        shared = {"maxlength": ML}
        am0 = rng.choice((None, False))
        if am0 is not None:
            shared["allowmaxlength"] = am0
        fresh_eng = E["ScriptedEngine"](fresh_dir)           # a second engine object alive next to the long-lived one
        wf_seen = False
        for _k in range(7):
            kind = rng.choice(("sh", "sh", "wf", "md"))
            state = copy.deepcopy(shared)
            if kind in ("sh", "md"):
                L = rng.randint(3, 7)
                nb, nf = rng.randint(1, 4), rng.randint(1, 4)
                xis = xi_grid(L, 6) or [0.5]
                sc = rng.choice(("L", "L", "LR"))
                c = base_case(old=old_ops(rng, L, 0), idx=rng.randint(1, L - 2), xi=str(Fraction(rng.choice(xis))), ML=ML,
                              am=state.get("allowmaxlength"), sc=sc, sce=sc if kind == "md" else rng.choice(("-", sc)),
                              pn=rng.choice((0, 3)), back=stream(nb, rng.choice((-1, -1, 1)), "low"),
                              forw=stream(nf, rng.choice((1, 1, -1, 0)), "high"))
                if kind == "sh":
                    l1, i1 = run_real(c, eng=long_eng, tis_set=shared)
                    l2, i2 = run_real(c, eng=fresh_eng, tis_set=copy.deepcopy(state))
                    lm = ctx.driver([model_line(c, "r")])[0] if have_model else l1
                    judged(ctx, evaluate, ctx, c, l1, i1)
                else:
                    l1, i1 = run_real_md(c, eng=long_eng, tis_set=shared)
                    l2, i2 = run_real_md(c, eng=fresh_eng, tis_set=copy.deepcopy(state))
                    lm = ctx.driver(["runmd" + model_line(c, "r")[5:]])[0] if have_model else l1
                    if l1.startswith("ok") and i1["status"] != "ACC" and (i1["replaced"] or not i1["old_same"]):
                        ctx.fail("C09:run_md:old-path-replaced-or-mutated-on-reject", f"history run, status {i1['status']}",
                                 {"case": c, "via": "run_md", "code": l1})
                if wf_seen and state.get("allowmaxlength") is True and am0 is not True and "random" not in i1.get("draws", ["random"]):
                    n_obs += 1
                rep = {"fn": "history:" + kind, "case": c, "tis_set_before": state}
            else:
                c = dict(wf_pool.pop())
                c["ML"] = ML
                r1 = run_real_wf_scripted(c, eng=long_eng, tis_set=shared)
                r2 = run_real_wf_scripted(c, eng=fresh_eng, tis_set=copy.deepcopy(state))
                l1, l2 = r1["line"], r2["line"]
                lm = ctx.driver([wf_model_line(c, r1)])[0] if have_model else l1
                for sig, what in wf_judge(wf_as_judged(c), r1):
                    ctx.fail(sig, what, {"wfs": c, "code": l1})
                wf_seen = wf_seen or r1.get("allowmax_set", False)
                rep = {"fn": "history:wf", "wfs": c, "tis_set_before": state}
            ctx.count(1, branch="history:" + kind)
            if l1 != l2:
                ctx.disagree(rep, l1, l2, "long-lived engine / shared settings dict vs fresh objects with the same content")
            if have_model and l1 != lm:
                ctx.disagree(rep, l1, lm, "history run vs model for the current input")
    ctx.hit("observation:sh-move-after-wf-on-the-same-tis_set-dict-draws-no-ξ (allowmaxlength left True by wire_fencing)", n_obs)


def gen_wf_cases_n(ctx, n):
    class _C:
        pass
    sub = _C()
    sub.rng, sub.quick = ctx.rng, True
    out = []
    while len(out) < n:
        out.extend(c for c in gen_wf_cases_small(sub, min(200, n)) if c["sc"] == c["sce"])
    return out[:n]


# --------------------------------------------------------------------------- add_to_path tie
def atp_cases(quick):
    lv = (-1, 0, 2, 4, 5)
    out = []
    for n in range(0, 4):
        for ops in itertools.product(lv, repeat=n):
            for ml in (None, 0, 1, 2, 3, 4):
                for x in lv:
                    out.append((ml, x, 0, 4, ops))
    for ops in itertools.product((-1, 1, 3), repeat=2):
        for ml in (None, 2, 3):
            for x in (-1, 0, 1, 2, 3):
                out.append((ml, x, 2, 0, ops))      # left > right
                out.append((ml, x, 1, 1, ops))      # left == right
    return out


def real_atp(ml, x, left, right, ops):
    E = _imports()
    p = E["Path"](maxlen=ml)
    for o in ops:
        s = E["System"]()
        s.order = [float(o)]
        p.phasepoints.append(s)
    new = E["System"]()
    new.order = [float(x)]
    names = {"Running propagate...": "running", "Crossed left interface!": "left", "Crossed right interface!": "right",
             "Max. path length exceeded": "maxnoadd", "Max. path length exceeded!": "maxlen"}
    try:
        st, su, stop, add = E["EngineBase"].add_to_path(p, new, float(left), float(right))
    except Exception as e:  # noqa: BLE001
        return err_kind(e)
    f = lambda b: "1" if b is True else ("0" if b is False else repr(b))  # noqa: E731
    return f"{names.get(st, st)} {f(su)} {f(stop)} {f(add)} | {lst([to_int(s.order[0]) for s in p.phasepoints])}"


def atp_missed(c, out):
    """the new frame was appended, lies strictly outside [left, right], yet no success is reported"""
    if out.startswith("err"):
        return False
    parts = out.split(" | ")[0].split()
    ml, x, le, ri, ops = c
    return parts[3] == "1" and (x < le or x > ri) and parts[1] != "1"


def atp_bad(c, out):
    """success reported although the last frame of the path is not strictly outside [left, right]"""
    if out.startswith("err"):
        return False
    head, tail = out.split(" | ")
    if head.split()[1] != "1":
        return False
    ops = [int(t) for t in tail.split()[1:]]
    return not (ops and (ops[-1] < c[2] or ops[-1] > c[3]))


# --------------------------------------------------------------------------- run / replay
def run(ctx):
    _imports()
    ctx.rule = ("shoot: structured exhaustive grid (old length 3..7, every ⌊(L−2)/ξ⌋ boundary ξ and its float "
                "neighbours, all backward/forward exit positions around the drawn limit, exit sides, start "
                "conditions, kicks on a 7-level alphabet below/at/inside/at/above the interfaces, absolute limit "
                "0..8, every pair of streams of length ≤ 2 (thorough: 3) over the alphabet, never-exiting "
                "streams, malformed inputs), then seeded random cases with old paths up to 40 and trials up to "
                "≈120 frames. add_to_path: every path of ≤ 3 frames over 5 levels × maxlen None/0..4 × new "
                "frame. Non-trivial = both propagations ran (status not KOB/err); distinct by the whole case.")
    have_model = ctx._driver_ok
    try:
        # ---- corpus first: minimised witnesses of past findings must not fail on the current code
        corpus_first(ctx)
        # ---- add_to_path itself
        ac = atp_cases(ctx.quick)
        code_a = [real_atp(*c) for c in ac]
        if have_model:
            tok = lambda ml: "-" if ml is None else str(ml)  # noqa: E731
            outs = {v: ctx.driver([f"atp {v} {tok(ml)} {x} {le} {ri} {lst(ops)}" for (ml, x, le, ri, ops) in ac])
                    for v in ("s", "a", "r")}
        n_reg_atp = 0
        for k, c in enumerate(ac):
            ctx.count(1, branch="add_to_path")
            if code_a[k].split()[0] in ("left", "right", "maxlen"):
                ctx.distinct(("atp", c))
            if have_model:
                if outs["s"][k] != outs["r"][k]:
                    ctx.disagree({"fn": "addToPath(shared) vs addToPathV repaired", "case": c}, outs["s"][k], outs["r"][k])
                if code_a[k] != outs["r"][k]:
                    if code_a[k] == outs["a"][k]:
                        n_reg_atp += 1          # the pre-f955162 behaviour: judged on shoot below
                    ctx.disagree({"fn": "add_to_path", "variant": "repaired", "case": c}, code_a[k], outs["r"][k])
            # property-level statement about add_to_path that shoot relies on: success ⇒ the last frame of
            # the path lies strictly outside [left, right]
            if atp_bad(c, code_a[k]):
                ctx.fail("C09:add_to_path:success-without-crossing", f"success reported although the last frame is inside",
                         {"atp": c, "code": code_a[k]})
            # ... and (since f955162) a frame that was appended and lies strictly outside is a success
            if atp_missed(c, code_a[k]):
                ctx.fail(SIG_LEN_EQ, "add_to_path appended a frame strictly outside [left, right] and reports no success "
                         "(length == maxlen overrides the crossing)", {"atp": c, "code": code_a[k]})
        ctx.hit("add_to_path:cases-agreeing-with-asIs-only", n_reg_atp)

        # ---- shoot
        cases = gen_cases(ctx)
        real = [run_real(c) for c in cases]
        mods = {}
        if have_model:
            for v in ("a", "r"):
                mods[v] = ctx.driver([model_line(c, v) for c in cases])
        mism = {"a": [], "r": []}
        nthr = 0
        for k, c in enumerate(cases):
            line, info = real[k]
            st = line.split()[2] if line.startswith("ok") else line
            ctx.count(1, branch=st)
            if line.startswith("ok") and st != "KOB":
                ctx.distinct(repr(sorted(c.items())))
            if have_model:
                for v in ("a", "r"):
                    if line != mods[v][k]:
                        mism[v].append(k)
                if not info["old_same"] and info["acc"]:
                    ctx.disagree({"fn": "shoot", "case": c}, "old path changed by an accepted move", "model never writes it")
            judged(ctx, evaluate, ctx, c, line, info)
            if threshold_expect(c) is not None:
                nthr += 1
            if k % 17011 == 5:
                ctx.sample({"case": c, "code": line})
        ctx.hit("threshold-statement-applies", nthr)
        if have_model:
            # frames (stored phase point, vel_rev) of the pasted trial path against Moves.shootT: defined exactly when the
            # move got as far as the forward propagation (statuses FTL / FTX / 0-L / NCR / ACC)
            fidx = [k for k, (line, info) in enumerate(real) if line.startswith("ok") and info.get("frames") is not None]
            fmod = ctx.driver(["shoott r " + ("1" if real[k][1].get("krev") else "0") + model_line(cases[k], "r")[len("shoot r"):]
                               for k in fidx])
            for j, k in enumerate(fidx):
                info = real[k][1]
                want = show_frames(info["frames"]) if info["status"] in ("FTL", "FTX", "0-L", "NCR", "ACC") else "none"
                if want != fmod[j]:
                    ctx.disagree({"fn": "shoot: frames (stored point, vel_rev) of the trial path", "case": cases[k]}, want, fmod[j])
            # the code must be the `repaired` variant everywhere; agreement with `asIs` where the variants
            # differ is the regression of /repo f955162 (the property predicate above reports it with its input)
            ctx.extra["shoot_cases_where_variants_differ"] = sum(1 for k in range(len(cases)) if mods["a"][k] != mods["r"][k])
            ctx.extra["shoot_mismatches_vs_repaired"] = len(mism["r"])
            ctx.extra["shoot_mismatches_vs_asIs(historical)"] = len(mism["a"])
            for k in mism["r"][:20]:
                note = "agrees with the pre-f955162 variant asIs" if real[k][0] == mods["a"][k] else ""
                ctx.disagree({"fn": "shoot", "variant": "repaired", "case": cases[k]}, real[k][0], mods["r"][k], note)
        # ---- run_md: the live path is replaced only on ACC (sample of the cases, start_cond from ens_set)
        step = 4 if ctx.quick else 2
        md_cases = []
        for k, c in enumerate(cases):
            if k % step == 0 and real[k][0].startswith("ok") and real[k][1].get("ops") and c["sc"] in ("L", "R", "LR"):
                c2 = dict(c)
                c2["sce"] = c["sc"]
                md_cases.append(c2)
        # the [0+] ensemble (index 0, λ_left = λ_middle = 0.0), path number 0, integer-typed order parameters
        for nb, nf, ints in itertools.product((1, 2, 3), (1, 2, 3), (False, True)):
            md_cases.append(base_case(intf=[0, 0, 4], kick=1, sc="L", sce="L", xi="1/8", pn=0, ints=ints,
                                      back=[1] * (nb - 1) + [-1], forw=[2] * (nf - 1) + [5]))
        # the [0-] ensemble with a λ₋₁ interface (incl. λ₋₁ = 0.0): accepted L→L / R→L / … paths must get weight ≠ 0
        n_plus = len(md_cases)
        for lm1 in (0, -2, 1):
            for nb in (1, 2, 3):
                for nf in (1, 2, 3):
                    for sb, sf in itertools.product((-1, 1), repeat=2):
                        md_cases.append(dict(base_case(intf=[lm1, lm1 + 2, lm1 + 4], kick=lm1 + 1, sc="LR", sce="LR", xi="1/8",
                                                       back=[lm1 + 1] * (nb - 1) + [lm1 - 1 if sb < 0 else lm1 + 5],
                                                       forw=[lm1 + 2] * (nf - 1) + [lm1 - 1 if sf < 0 else lm1 + 5]), minus=True))
        md_real = [run_real_md(c) for c in md_cases]
        if have_model:
            vv = "r"
            md_mod = {vv: ctx.driver(["runmd" + model_line(c, vv)[5:] for c in md_cases])}
        for k, c in enumerate(md_cases):
            line, info = md_real[k]
            ctx.count(1, branch="run_md:" + (line.split()[1] if line.startswith("ok") else line))
            if have_model and line != md_mod[vv][k]:
                ctx.disagree({"fn": "run_md", "variant": vv, "case": c}, line, md_mod[vv][k])
            rep = {"case": c, "via": "run_md", "code": line}
            if not line.startswith("ok"):
                continue
            if info["status"] != "ACC":
                if info["replaced"] or not info["old_same"] or info["ops"] != [to_int(float(x)) for x in c["old"]]:
                    ctx.fail("C09:run_md:old-path-replaced-or-mutated-on-reject",
                             f"status {info['status']}: live path replaced={info['replaced']} old unchanged={info['old_same']}", rep)
                if not info["file_same"]:
                    ctx.fail("C09:shoot:old-files-touched-on-reject", f"status {info['status']} (run_md)", rep)
            else:
                if not info["replaced"]:
                    ctx.fail("C09:run_md:accepted-path-not-installed", "status ACC but the old path stays", rep)
                kbad = time_ordered(info.get("frames") or [])
                if kbad is not None:
                    ctx.fail("C09:run_md:installed-path-not-ordered-in-time", not_ordered_text(info["frames"], kbad), rep)
                w = info["weights"]
                if c.get("minus"):
                    if not (w is not None and len(w) == 1 and w[0] != 0):
                        ctx.fail("C09:run_md:zero-weight-in-own-ensemble", f"[0-] with λ₋₁={c['intf'][0]}: weights {w}", rep)
                elif set(c["sc"]) != {"L", "R"} and not (w is not None and len(w) == 3 and w[info["own"]] != 0):
                    ctx.fail("C09:run_md:zero-weight-in-own-ensemble", f"weights {w} (own ensemble index {info['own']})", rep)
        # ---- run_md for the two-ensemble moves (plain and QuanTIS zero swap), incl. disagreeing legs
        md_two_block(ctx, have_model)
        # ---- call history: one engine / one settings dict over sequences of moves vs fresh objects vs model
        history_block(ctx, have_model)
        # ---- wire fencing: scripted tie against the Lean model, then free-running predicate runs
        wf_tie(ctx, have_model)
        wf_block(ctx)
        # ---- extension: status tables (stage reached), select_shoot routing, run_md composed with weights
        from props import c09ext
        c09ext.ext_block(ctx, have_model, cases, real)
        if _HARNESS_EXC:
            ctx.extra["harness_exceptions"] = _HARNESS_EXC[:20]
            ctx.disagree({"fn": "harness"}, f"{len(_HARNESS_EXC)} harness exception(s), first: {_HARNESS_EXC[0]}", "none expected")
            del _HARNESS_EXC[:]
        ctx.exhaustive = False
        ctx.assumptions += [
            "wire_fencing: seeded random scripted cases against Moves.wireFencing (ξ of the segment pick restricted to values "
            "for which the float comparison sum/n >= ξ equals the exact one), plus free-running lattice-walk runs judged by "
            "the predicates only",
            "call-history runs (one engine object, one tis_set dict over sequences of shoot / wire_fencing / run_md) are "
            "tie-only: the model is a function of (input, current settings); each step is compared with fresh objects "
            "holding the same settings and with the model for the current input",
            "OBSERVATION (call history): after a wire_fencing call the shared tis_set dict carries allowmaxlength=True, so a "
            "later shooting move on the same dict draws no ξ and uses maxlength as its limit (model: ShootIn.allowMax, theorem "
            "shoot_allowmax_ignores_xi); with the process-pool runner every job gets a pickled copy, so this does not persist "
            "between jobs in production",
            "OBSERVATION (not a failure: frames and files stay intact): a wire_fencing move rejected with NSG after the jumps "
            "returns the OLD path object with its .status set to 'NSG' and .generated to ('wf', 9000, 0, len); every "
            "wire_fencing call past the segment pick sets tis_set['allowmaxlength'] = True on the dict shared with the ensemble "
            "(counts in the histogram under observation:*; model field WfOut.oldRewritten)",
            "order values are small integers (exact as floats)",
            "ξ values are restricted to floats for which int((L−2)/ξ) in float arithmetic equals the floor of the exact "
            "quotient (checked per value; boundary values (L−2)/n and both float neighbours are used when they pass)",
            "engine contract: the first frame an engine adds is the state it was started from (order = kicked order); "
            "order parameter not velocity-direction dependent",
            "numpy Generator.integers(lo, hi) raises ValueError iff lo ≥ hi (checked by calling numpy)",
            "old path files: one real file referenced by every old frame, watched by an audit hook (open for writing, "
            "remove, rename, truncate, …) and compared bytewise",
        ]
    finally:
        cleanup()


def corpus_first(ctx):
    import json
    from common import CORPUS
    d = CORPUS / "C09"
    for f in sorted(d.glob("*.json")) if d.is_dir() else []:
        obj = json.loads(f.read_text())
        r = obj.get("replay", {})
        ctx.count(1, branch="corpus")
        if "case" in r and r.get("via") != "run_md":
            line, info = run_real(r["case"])
            evaluate(ctx, r["case"], line, info)
        elif "wfcase" in r:
            res = run_real_wf(r["wfcase"])
            for sig, what in wf_judge(r["wfcase"], res):
                ctx.fail(sig, what, {"wfcase": r["wfcase"], "code": res["line"], "corpus": f.name})
        elif "wfs" in r:
            res = run_real_wf_scripted(r["wfs"])
            for sig, what in wf_judge(wf_as_judged(r["wfs"]), res):
                ctx.fail(sig, what, {"wfs": r["wfs"], "code": res["line"], "corpus": f.name})
            if "expect_code" in r and res["line"] != r["expect_code"]:
                ctx.disagree({"fn": "corpus " + f.name, "wfs": r["wfs"]}, res["line"], r["expect_code"], "recorded result of the witness")
            if "expect_frames" in r and real_frames_line(res) != r["expect_frames"]:
                ctx.disagree({"fn": "corpus " + f.name + " (frames)", "wfs": r["wfs"]}, real_frames_line(res), r["expect_frames"],
                             "recorded frames of the witness (Lean: Infretis.Moves.wfRevEx_frames)")
        elif "atp" in r:
            got = real_atp(*r["atp"])
            if atp_bad(r["atp"], got) or atp_missed(r["atp"], got):
                ctx.fail(obj.get("signature", "C09:add_to_path"), "corpus case fails", {"atp": r["atp"], "code": got})


def replay(ctx, obj):
    """re-run one recorded failing input on the current implementation; 1 if it still fails"""
    r = obj.get("replay", {})
    try:
        if "atp" in r:
            got = real_atp(*r["atp"])
            print("code:", got, "recorded:", r.get("code"))
            return 1 if (atp_bad(r["atp"], got) or atp_missed(r["atp"], got)) else 0
        if "md1" in r:
            from props import c09ext
            return c09ext.replay_md1(r)
        if "route" in r:
            from props import c09ext

            class _C:
                fails = []

                def fail(self, sig, what, rep):
                    self.fails.append((sig, what, rep))

                def count(self, *a, **k):
                    pass

                def disagree(self, *a, **k):
                    pass
            cc = _C()
            c09ext.routing(cc, False)
            hit = [f for f in cc.fails if f[2].get("route") == r["route"]]
            for sig, what, _ in hit:
                print("FAILS:", sig, "-", what)
            return 1 if hit else 0
        if "mdtwo" in r:
            from props import c11
            W = c11.World()
            try:
                c = c11._revive(r["mdtwo"]) if hasattr(c11, "_revive") else r["mdtwo"]
                o = run_md_two(W, c)
                bad = md_two_judge(c, o, W)
            finally:
                W.close()
            print("run_md two-ensemble case:", c["kind"], "status", o.get("status", o.get("err")),
                  "trial statuses", None if o.get("ret") is None else [t[1] for t in o["ret"][1]], "replaced", o["replaced"])
            for sig, what in bad:
                print("FAILS:", sig, "-", what)
            return 1 if bad else 0
        if "wfs" in r:
            res = run_real_wf_scripted(r["wfs"], via_md=r.get("via") == "run_md")
            if r.get("via") == "run_md" and not res.get("exc"):
                if res["status"] != "ACC" and (res["md_replaced"] or not res["frames_same"] or not res["attrs_ok"]):
                    print("FAILS: run_md(wf) changed/replaced the old path on", res["status"])
                    return 1
            bad = wf_judge(wf_as_judged(r["wfs"]), res)
            if not res.get("exc"):
                from props import c09ext
                oc = c09ext.real_wf_outcome(res)
                if oc[0] in ("noframes", "nosegment", "exttoolong", "wrongstart") and res["status"] == "ACC":
                    bad.append(("C09:wf:accepted-at-a-rejecting-stage", f"stage {oc}, status ACC"))
            print("wfs:", r["wfs"])
            print("code:", res["line"])
            for sig, what in bad:
                print("FAILS:", sig, "-", what)
            return 1 if bad else 0
        if "wfcase" in r:
            res = run_real_wf(r["wfcase"])
            bad = wf_judge(r["wfcase"], res)
            print("wfcase:", r["wfcase"])
            print("code:", res["line"])
            for sig, what in bad:
                print("FAILS:", sig, "-", what)
            return 1 if bad else 0
        if "case" not in r:
            print("no failing input recorded (proof obligation / correspondence only):")
            print(obj)
            return 1
        case = r["case"]
        if r.get("via") == "run_md":
            line, info = run_real_md(case)
            print("case:", case)
            print("run_md:", line)
            if not line.startswith("ok"):
                return 0
            if info["status"] != "ACC":
                bad = info["replaced"] or not info["old_same"] or not info["file_same"]
            else:
                w = info["weights"]
                if case.get("minus"):
                    bad = (not info["replaced"]) or not (w is not None and len(w) == 1 and w[0] != 0)
                else:
                    bad = (not info["replaced"]) or (set(case["sc"]) != {"L", "R"} and not (w is not None and len(w) == 3 and w[info["own"]] != 0))
            print("FAILS" if bad else "holds")
            return 1 if bad else 0
        line, info = run_real(case)
        print("case:", case)
        print("code:", line)
        th = threshold_expect(case)
        if th:
            print(f"threshold statement: L_new={th[1]} n_old/n_new={th[2]} ξ={case['xi']} → should accept: {th[0]}")

        class C:
            fails = []

            def fail(self, sig, what, rep):
                self.fails.append((sig, what))
        c = C()
        if line.startswith("ok") and not str(line).startswith("harness-exception"):
            from props import c09ext
            try:
                oc = c09ext.real_shoot_outcome(case, info)
                want = c09ext.status_by_table(oc, case["ML"]) if oc[0] in ("kob", "backfail", "wrongend", "forwfail", "final") else None
                print("stage reached:", oc, "→ status by the table:", want, "; status of the code:", info["status"])
                if want is not None and (want == "ACC") != (info["status"] == "ACC"):
                    c.fails.append(("C09:shoot:acceptance-not-by-stage", f"stage {oc}: must be {want}, got {info['status']}"))
            except Exception as e:  # noqa: BLE001
                print("stage could not be determined:", type(e).__name__, e)
        evaluate(c, case, line, info)
        for sig, what in c.fails:
            print("FAILS:", sig, "-", what)
        return 1 if c.fails else 0
    finally:
        cleanup()
