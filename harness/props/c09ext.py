"""C09 extension tie (called from props/c09.py at the end of run()).

What is compared here that c09.py does not compare:
  * shoot: the STAGE at which the real move ended (which propagate calls were made, their success flags and
    lengths, the three final path tests evaluated with the real `check_interfaces`) against `Moves.shootOutcome`,
    and the status against the table `Moves.statusOf` (re-stated in Python: predicate on the real code);
  * wire_fencing: the stage (no frames / no accepted jump / extender too long / wrong start / accepted) from the
    tapped return values of the real `extender` / `subt_acceptance` against `Moves.wfOutcome` / `wfStatusOf`;
  * select_shoot: which move function the real dispatcher calls, with which start_cond and engine, against `Moves.route`;
  * run_md end to end for one-ensemble jobs (shoot and wire_fencing) against `Moves.runMdOne`: status, replacement,
    trial_len, trial_op, the weight vector calc_cv_vector assigns, with configured cap, several interfaces,
    wire-fencing neighbours, the minus ensemble with and without lambda_minus_one, error kinds.
"""
from __future__ import annotations

import copy
from fractions import Fraction

from common import err_kind, frac_token, lst

from props import c09


# --------------------------------------------------------------------------- status tables (Python statement)
def status_by_table(oc, ML):
    k = oc[0]
    if k == "kob":
        return "KOB"
    if k == "backfail":
        return "BTX" if oc[1] + 1 >= ML else "BTL"
    if k == "wrongend":
        return "BWI"
    if k == "forwfail":
        return "FTX" if oc[1] == ML else "FTL"
    z, b, c = oc[1:]
    if z:
        return "0-L"
    if b or c:
        return "ACC"
    return "NCR"


def wf_status_by_table(oc):
    return {"noframes": "NSG", "nosegment": "NSG", "exttoolong": "FTX", "wrongstart": "BWI", "accepted": "ACC"}[oc[0]]


def show_oc(oc):
    return " ".join(str(int(x)) if isinstance(x, bool) else str(x) for x in oc)


def real_shoot_outcome(case, info):
    """the stage at which the real shoot ended, from the engine's call record and the returned path"""
    calls = info.get("calls", [])
    trial = info["trial"]
    if not calls:
        return ("kob",)
    if len(calls) == 1:
        rev, ok, n = calls[0]
        if not rev:
            return ("bad-call-order",)
        return ("wrongend",) if ok else ("backfail", n)
    if len(calls) != 2 or not calls[0][0] or calls[1][0] or not calls[0][1]:
        return ("bad-call-order",) + tuple(calls)
    if not calls[1][1]:
        return ("forwfail", len(info["ops"]))
    sc = set(c09.sc_tuple(case["sc"]))
    sce = set(c09.sc_tuple(case["sce"])) if case["sce"] != "-" else sc
    ci = info["ci"]                       # the real check_interfaces of the returned path (taken right after the move)
    if isinstance(ci, str):
        return ("check-interfaces-raised", ci)
    return ("final", "L" not in sc and "L" in ci[:2], sce == {"L", "R"}, bool(ci[-1][1]))


def shoot_outcomes(ctx, have_model, cases, real):
    idx = [k for k, (line, info) in enumerate(real) if not str(line).startswith("harness-exception")]
    mod = ctx.driver(["outcome" + c09.model_line(cases[k], "r")[5:] for k in idx]) if have_model else None
    for j, k in enumerate(idx):
        c = cases[k]
        line, info = real[k]
        if not line.startswith("ok"):
            got = line
        else:
            try:
                oc = real_shoot_outcome(c, info)
            except Exception as e:  # noqa: BLE001
                oc = ("harness-exception", type(e).__name__)
            want = status_by_table(oc, c["ML"]) if oc[0] in ("kob", "backfail", "wrongend", "forwfail", "final") else None
            got = f"{show_oc(oc)} => {info['status']}"
            ctx.count(1, branch="stage:" + oc[0] + ("" if oc[0] != "final" else ":" + "".join(str(int(x)) for x in oc[1:])))
            if want is not None and (want == "ACC") != (info["status"] == "ACC"):
                # the property's "acceptance exactly with ACC" rests on this table: ACC after a failed propagation /
                # wrong end / failed path test, or a rejection although both trajectories reached the interfaces within
                # the drawn limit and the path passed every test.  (Which REJECTION code is used — BTL vs BTX, … — is
                # compared with the model only: the property does not speak about it.)
                ctx.fail("C09:shoot:acceptance-not-by-stage",
                         f"the move ended at stage {show_oc(oc)} (maxlength {c['ML']}): the status must be {want}, got {info['status']}",
                         {"case": c, "code": line})
        if have_model and got != mod[j]:
            ctx.disagree({"fn": "shoot: stage reached / status table", "case": c}, got, mod[j])


def real_wf_outcome(res):
    taps = res.get("taps", {})
    if not res.get("draws"):
        return ("noframes",)
    if not any(taps.get("shoots", [])):
        return ("nosegment",)                   # no sub-ensemble shoot reported success (succ_seg == 0)
    if "ext" not in taps:
        return ("bad-call-order", "extender-not-called")
    if not taps["ext"][0]:
        return ("exttoolong", taps["ext"][1])
    if "subt" not in taps:
        return ("bad-call-order",)
    if not taps["subt"][0]:
        return ("wrongstart",)
    g = res["trial"].generated
    return ("accepted", g[2], g[3])


def wf_outcomes(ctx, have_model, cases, reals):
    mod = ctx.driver(["wfoutcome" + c09.wf_model_line(c, r)[2:] for c, r in zip(cases, reals)]) if have_model else None
    for k, (c, res) in enumerate(zip(cases, reals)):
        if res.get("exc"):
            got = res["line"]
        else:
            oc = real_wf_outcome(res)
            got = f"{show_oc(oc)} => {res['status']}"
            ctx.count(1, branch="wf-stage:" + oc[0])
            if oc[0] in ("noframes", "nosegment", "exttoolong", "wrongstart") and res["status"] == "ACC":
                ctx.fail("C09:wf:accepted-at-a-rejecting-stage", f"wire_fencing ended at stage {show_oc(oc)}: the status must be "
                         f"{wf_status_by_table(oc)}, got ACC", {"wfs": c, "code": res["line"]})
        if have_model and got != mod[k] and not str(got).startswith("harness-exception"):
            ctx.disagree({"fn": "wire_fencing: stage reached / status table", "wfs": c}, got, mod[k])


# --------------------------------------------------------------------------- select_shoot
class _StubEngine:
    def __init__(self):
        self.calls = []

    def set_mdrun(self, pens):
        self.calls.append("set_mdrun")

    def clean_up(self):
        self.calls.append("clean_up")


class _StubPath:
    path_number = 3


def routing(ctx, have_model):
    E = c09._imports()
    tis = E["tis"]
    names = ("shoot", "wire_fencing", "quantis_swap_zero", "retis_swap_zero")
    orig = {n: getattr(tis, n) for n in names}
    saved = tis.ENGINES
    seen = []

    def stub(name):
        def f(*a, **k):
            seen.append((name, a, k))
            return False, (_StubPath() if name in ("shoot", "wire_fencing") else [_StubPath(), _StubPath()]), "XXX"
        return f
    lines, gots, cs = [], [], []
    try:
        for n in names:
            setattr(tis, n, stub(n))
        for keys in ((), (0,), (1,), (-1,), (-1, 0), (0, 1), (-1, 0, 1), (0, 1, 2)):
            for move in ("sh", "wf", "ss", ""):
                for quantis in (False, True):
                    for sc in (("L",), ("R",), ("L", "R")):
                        engs = {f"e{k}": [_StubEngine(), _StubEngine()] for k in keys}
                        tis.ENGINES = engs
                        picked = {}
                        for k in keys:
                            picked[k] = {"ens": {"mc_move": move, "ens_name": f"{k:03d}", "start_cond": sc,
                                                 "tis_set": {"quantis": quantis}},
                                         "traj": _StubPath(), "eng_idx": {f"e{k}": 1}}
                        markers = {}
                        if quantis:                     # every other configuration also carries a per-job engine stream
                            for k in keys:
                                markers[k] = object()
                                picked[k]["rgen-eng"] = markers[k]
                        del seen[:]
                        try:
                            acc, paths, st = tis.select_shoot(picked)
                            if len(keys) in (1, 2):
                                for k in keys:
                                    e = engs[f"e{k}"][1]
                                    if e.calls != ["set_mdrun", "clean_up"] or getattr(e, "rgen", None) is not markers.get(k):
                                        ctx.fail("C09:select_shoot:wrong-arguments", f"engine of ensemble {k}: calls {e.calls}, "
                                                 f"rgen set: {hasattr(e, 'rgen')} (expected: {k in markers})",
                                                 {"route": [list(keys), move, quantis, list(sc)]})
                            got = seen[0][0] if len(seen) == 1 else f"calls:{[s[0] for s in seen]}"
                            ok_args = True
                            if got in ("shoot", "wire_fencing"):
                                a, kw = seen[0][1], seen[0][2]
                                k0 = keys[0]
                                ok_args = (a[0] is picked[k0]["ens"] and a[1] is picked[k0]["traj"] and a[2] is engs[f"e{k0}"][1]
                                           and kw.get("start_cond") == sc and isinstance(paths, list) and len(paths) == 1)
                            if not ok_args:
                                ctx.fail("C09:select_shoot:wrong-arguments", f"{got} called with ens/path/engine/start_cond other than "
                                         f"the picked ensemble's", {"route": [list(keys), move, quantis, list(sc)]})
                        except Exception as e:  # noqa: BLE001
                            got = err_kind(e)
                        cs.append((keys, move, quantis, sc))
                        gots.append(got)
                        lines.append(f"route {len(keys)} {1 if -1 in keys else 0} {move or 'none'} {1 if quantis else 0}")
    finally:
        for n, fn in orig.items():
            setattr(tis, n, fn)
        tis.ENGINES = saved
    mod = ctx.driver(lines) if have_model else gots
    for c, g, m in zip(cs, gots, mod):
        ctx.count(1, branch="route:" + g)
        if g != m:
            ctx.disagree({"fn": "select_shoot routing", "picked_keys": list(c[0]), "mc_move": c[1], "quantis": c[2]}, g, m)


# --------------------------------------------------------------------------- run_md composed
def cfg_tokens(cfg):
    return (f"{lst(cfg['interfaces'])} {lst([1 if f else 0 for f in cfg['flags']])} "
            f"{'-' if cfg['cap'] is None else cfg['cap']} {cfg['ens']} {'-' if cfg['lm1'] is None else cfg['lm1']}")


@c09.robust(lambda e: (f"harness-exception:{type(e).__name__}", {}))
def run_md_one(kind, case, cfg):
    """one job through the REAL run_md → select_shoot → shoot / wire_fencing → calc_cv_vector"""
    E = c09._imports()
    tis, eng = E["tis"], E["engine"]
    E["enginebase"].counter.count = -1
    old = c09.mk_old(case)
    tis_set = {"maxlength": case["ML"], "lambda_minus_one": False if cfg["lm1"] is None else float(cfg["lm1"])}
    if kind == "sh":
        gen = E["ScriptedGen"](case["idx"], float(Fraction(case["xi"])))
        eng.order_function.conv = float
        eng.script([float(x) for x in case["back"]], [float(x) for x in case["forw"]], float(case["kick"]))
        eng.keep_rev = not case.get("krf", False)
        if case["am"] is not None:
            tis_set["allowmaxlength"] = bool(case["am"])
        move = "sh"
    elif kind == "wf":
        gen = c09.WfGen(float(Fraction(case["xi"])), case["raws"])
        eng.script_wf([(j["kick"], j["back"], j["forw"]) for j in case["jumps"]], case["eb"], case["ef"])
        eng.keep_rev = not case.get("krf", False)
        if case["nj"] is not None:
            tis_set["n_jumps"] = case["nj"]
        if case["cap"] is not None:
            tis_set["interface_cap"] = float(case["cap"])
        move = "wf"
    else:
        gen = E["ScriptedGen"](1, 0.5)
        move = kind
    ens = {"interfaces": tuple(float(x) for x in case["intf"]), "tis_set": tis_set, "rgen": gen, "ens_name": "00x",
           "mc_move": move}
    if case["sce"] != "-":
        ens["start_cond"] = c09.sc_tuple(case["sce"])
    en = cfg["ens"]
    picked = {en: {"ens": ens, "traj": old, "eng_idx": {"scripted": 0}, "exe_dir": eng.exe_dir}}
    md = {"picked": picked, "moves": [], "mc_moves": ["sh"] + ["wf" if f else "sh" for f in cfg["flags"]], "trial_len": [],
          "trial_op": [], "generated": [], "interfaces": [float(x) for x in cfg["interfaces"]],
          "cap": None if cfg["cap"] is None else float(cfg["cap"])}
    saved = tis.ENGINES
    tis.ENGINES = {"scripted": [eng]}
    orig_ext = tis.extender

    def ext_wrapper(*a, **k):
        eng.phase = "ext"
        return orig_ext(*a, **k)
    tis.extender = ext_wrapper
    before = c09.snapshot(old)
    info = {"idx": []}
    try:
        tis.run_md(md)
        live, st = picked[en]["traj"], md["status"]
        ops = [c09.to_int(s.order[0]) for s in live.phasepoints]
        w = getattr(live, "weights", None) if live is not old else None
        wtxt = "-" if w is None else lst([c09.to_int(x) for x in w])
        lo, hi = md["trial_op"][0]
        line = (f"ok {st} {1 if live is not old else 0} {md['trial_len'][0]} {c09.to_int(lo)} {c09.to_int(hi)} | "
                f"{lst(ops)} | {wtxt}")
        after = c09.snapshot(old)
        info.update(status=st, live=live, replaced=live is not old, ops=ops, weights=w,
                    frames_same=c09.frames_only(after) == c09.frames_only(before), md=md,
                    frames=c09.frames_of(eng, live) if kind in ("sh", "wf") else None)
    except c09.BadDraw:
        line = "err:baddraw"
    except Exception as e:  # noqa: BLE001
        line = err_kind(e)
    finally:
        tis.ENGINES = saved
        tis.extender = orig_ext
        eng.plan = None
        eng.order_function.conv = float
    if kind == "wf":
        info["idx"] = list(gen.idx)
        info["ran_out_ext"] = getattr(eng, "ran_out_ext", False)
    return line, info


def md_model_line(kind, case, cfg, info):
    head = f"runmd1 r {cfg_tokens(cfg)} {kind if kind in ('sh', 'wf') else 'other'} "
    if kind == "sh":
        return head + c09.model_line(case, "r")[len("shoot r "):]
    if kind == "wf":
        return head + c09.wf_model_line(case, {"idx": info.get("idx", [])})[len("wf r "):]
    return head + lst(case["old"])


def consistent_cfg(rng, case, wf):
    """md_items as the scheduler builds them for THIS ensemble: its middle interface sits at index ens_num of the
    global interface list, whose ends are the ensemble's outer interfaces"""
    l, m, r = case["intf"]
    if not l <= m <= r:
        return None
    if l == m:
        interfaces, en = [l] + sorted(rng.randint(l, r) for _ in range(rng.randint(0, 2))) + [r], 0
    else:
        lows = sorted(rng.randint(l, m) for _ in range(rng.randint(0, 2)))
        highs = sorted(rng.randint(m, r) for _ in range(rng.randint(0, 2)))
        interfaces = [l] + lows + [m] + highs + [r]
        en = 1 + len(lows)
    flags = [rng.random() < 0.25 for _ in interfaces[1:]]
    flags[en] = wf                        # mc_moves[ens_num + 1] is this ensemble's move; its weight is entry ens_num
    return {"interfaces": interfaces, "flags": flags, "cap": case.get("cap") if wf else rng.choice((None, None, r, m + 1)),
            "ens": en, "lm1": None, "consistent": True}


def random_cfg(rng, case):
    n = rng.randint(1, 5)
    x = rng.randint(-2, 1)
    interfaces = []
    for _ in range(n):
        interfaces.append(x)
        x += rng.randint(0, 3)
    flags = [rng.random() < 0.4 for _ in range(max(0, n - 1 + rng.choice((0, 0, 0, -1, 1))))]
    return {"interfaces": interfaces, "flags": flags, "cap": rng.choice((None, None, 0, 2, 3, 5)),
            "ens": rng.choice((-1, -1, 0, 1, 1, 2, 3, -2)), "lm1": rng.choice((None, None, None, 0, -2, 1)), "consistent": False}


def run_md_composed(ctx, have_model, cases, real):
    rng = ctx.rng
    jobs = []
    # shoot jobs: a sample of the shoot grid (every stage occurs there), start_cond taken from ens_set
    picks = [k for k, (line, info) in enumerate(real) if line.startswith("ok") or line.startswith("err")]
    rng.shuffle(picks)
    for k in picks[:(2000 if ctx.quick else 15000)]:
        c = dict(cases[k])
        c.pop("ints", None)
        c["sce"] = c["sc"] if rng.random() < 0.97 else "-"
        cfg = consistent_cfg(rng, c, False) if rng.random() < 0.7 else None
        jobs.append(("sh", c, cfg or random_cfg(rng, c)))
    # wire-fencing jobs
    for c in c09.gen_wf_cases_small(ctx, 1500 if ctx.quick else 8000):
        c = dict(c)
        c["sc"] = c["sce"]
        cfg = consistent_cfg(rng, c, True) if rng.random() < 0.75 else None
        jobs.append(("wf", c, cfg or random_cfg(rng, c)))
    # an mc_move select_shoot does not know
    for mv in ("ss", "xx"):
        jobs.append((mv, c09.base_case(sce="L"), {"interfaces": [0, 2, 4], "flags": [False, False], "cap": None, "ens": 1,
                                                 "lm1": None, "consistent": False}))
    outs = [run_md_one(*j) for j in jobs]
    mod = ctx.driver([md_model_line(j[0], j[1], j[2], o[1]) for j, o in zip(jobs, outs)]) if have_model else None
    for k, ((kind, c, cfg), (line, info)) in enumerate(zip(jobs, outs)):
        st = line.split()[1] if line.startswith("ok") else line
        ctx.count(1, branch=f"run_md1:{kind}:{st}")
        rep = {"md1": {"kind": kind, "case": c, "cfg": {a: b for a, b in cfg.items()}}, "code": line}
        if have_model and line != mod[k] and not line.startswith("harness-exception"):
            ctx.disagree({"fn": "run_md (one ensemble, composed)", "job": rep["md1"]}, line, mod[k])
        for sig, what in md_one_judge(kind, c, cfg, line, info):
            ctx.fail(sig, what, rep)
        if line.startswith("ok") and st == "ACC":
            ctx.distinct(("md1", kind, repr(sorted((a, repr(b)) for a, b in c.items())), repr(sorted(cfg.items()))))
        if k % 997 == 11:
            ctx.sample({"md1": rep["md1"], "code": line})


def md_one_judge(kind, c, cfg, line, info):
    """the C09 clauses on what run_md left behind (direct statement, independent of the model)"""
    bad = []
    if not line.startswith("ok"):
        return bad
    st = info["status"]
    old_ops = [c09.to_int(float(x)) for x in c["old"]]
    if st != "ACC":
        if info["replaced"] or info["ops"] != old_ops or not info["frames_same"]:
            bad.append(("C09:run_md:old-path-replaced-or-mutated-on-reject",
                        f"{kind} status {st}: replaced={info['replaced']} frames unchanged={info['frames_same']}"))
        return bad
    if not info["replaced"] or info["weights"] is None or info["live"].status != "ACC":
        bad.append(("C09:run_md:accepted-path-not-installed", f"{kind} ACC: replaced={info['replaced']} weights={info['weights']}"))
        return bad
    ops, w = info["ops"], info["weights"]
    l, m, r = c["intf"]
    sce = c09.sc_tuple(c["sce"])
    if info.get("frames") is not None:
        # "ordered in time" of the path the ensemble now holds (reversible toy dynamics of the scripted engine)
        k = c09.time_ordered(info["frames"])
        if k is not None:
            bad.append(("C09:run_md:installed-path-not-ordered-in-time", f"{kind} ACC: " + c09.not_ordered_text(info["frames"], k)))
    if l <= m <= r and len(ops) >= 3:
        # membership of the path now held by the ensemble, start side taken from ens_set["start_cond"]
        first, last = ops[0], ops[-1]
        why = []
        if kind == "sh":
            if not ((first < l and "L" in sce) or (first > r and "R" in sce)):
                why.append(f"starts at {first}, start_cond {sce}")
            if not (last < l or last > r):
                why.append(f"ends inside at {last}")
        elif kind == "wf" and not info.get("ran_out_ext") and (c.get("cap") is None or c["cap"] <= r):
            if not ((first <= l and sce == ("L",)) or (first >= r and sce == ("R",))):
                why.append(f"starts at {first}, start_cond {sce}")
            if not (last <= l or last >= r):
                why.append(f"ends inside at {last}")
        if not all(l <= x <= r for x in ops[1:-1]):
            why.append("interior frame outside")
        if len(ops) > c["ML"]:
            why.append(f"length {len(ops)} > maxlength {c['ML']}")
        if why:
            bad.append(("C09:run_md:installed-path-not-in-ensemble", f"{kind} ACC path {ops}: " + "; ".join(why)))
    if cfg.get("consistent") and l <= m <= r:
        en = cfg["ens"]
        if len(w) != len(cfg["interfaces"]):
            bad.append(("C09:run_md:weight-vector-shape", f"weights {w} for interfaces {cfg['interfaces']}"))
        elif set(c09.sc_tuple(c["sce"])) != {"L", "R"}:
            capv = r if c.get("cap") is None else c["cap"]
            generic = kind == "sh" or (all(x != capv for x in ops) and c["sce"] == "L" and capv <= r and m < capv)
            crossing = min(ops) < m <= max(ops) or (l == m and min(ops) <= m <= max(ops))
            if generic and crossing and not w[en]:
                bad.append(("C09:run_md:zero-weight-in-own-ensemble",
                            f"{kind} ACC path {ops} has weights {w}: entry {en} (its own ensemble, interface {m}) is 0"))
    return bad


def ext_block(ctx, have_model, cases, real):
    shoot_outcomes(ctx, have_model, cases, real)
    wcases = c09.gen_wf_cases_small(ctx, 2000 if ctx.quick else 12000)
    wreal = [c09.run_real_wf_scripted(c) for c in wcases]
    wf_outcomes(ctx, have_model, wcases, wreal)
    routing(ctx, have_model)
    run_md_composed(ctx, have_model, cases, real)
    ctx.assumptions += [
        "extension: the stage a move reached is read off the real code from the scripted engine's call record "
        "(propagate calls, success flags, lengths), the tapped return values of extender / subt_acceptance and the real "
        "check_interfaces of the returned path; select_shoot is run with stub move functions (only the dispatch is observed)",
        "run_md composed: md_items['moves'] / ['generated'] entries and log_mdlogs are exercised but only their error "
        "behaviour (IndexError of mc_moves[ens_num + 1]) is modelled",
    ]


def replay_md1(r):
    j = r["md1"]
    line, info = run_md_one(j["kind"], j["case"], j["cfg"])
    print("run_md job:", j)
    print("code:", line)
    bad = md_one_judge(j["kind"], j["case"], j["cfg"], line, info)
    for sig, what in bad:
        print("FAILS:", sig, "-", what)
    return 1 if bad else 0
