"""C10 — wire-fencing weights are exact, symmetric and drive segment choice.

Tie: the real wirefence_weight_and_pick / compute_weight / calc_cv_vector against the Lean
model (Infretis.WF.scan/pick/computeWeight/cvVector) and against the Lean *spec*
(Infretis.WF.specWeight, the right-hand side of theorem scan_weight_eq_spec), exhaustively
over short order sequences on a level alphabet, plus random long sequences.
"""
from __future__ import annotations

import itertools
from fractions import Fraction

from common import err_kind, frac_token, lst


def _imports():
    from infretis.classes.path import Path
    from infretis.classes.system import System
    from infretis.core import tis
    return Path, System, tis


class OneDraw:
    """stands in for ens_set['rgen']: random() returns the scripted ξ and logs the request"""

    def __init__(self, xi):
        self.xi = xi
        self.calls = 0

    def random(self):
        self.calls += 1
        return self.xi

    def __getattr__(self, name):  # any other draw is a tie failure
        raise AssertionError(f"unexpected draw request {name}")


def mk(ops, Path, System):
    p = Path(maxlen=10_000)
    for o in ops:
        s = System()
        s.order = [float(o)]
        p.phasepoints.append(s)
    return p


def py_spec(ops, l, r):
    """independent transcription of the property's weight (runs of inside frames)"""
    n = len(ops)
    i = 0
    tot = 0
    segs = []
    inside = lambda x: l <= x < r  # noqa: E731
    while i < n:
        if inside(ops[i]):
            j = i
            while j + 1 < n and inside(ops[j + 1]):
                j += 1
            if i > 0 and j < n - 1:
                if not (ops[i - 1] >= r and ops[j + 1] >= r):
                    tot += j - i + 1
                    segs.append((i - 1, j + 1, j - i + 1))
            i = j + 1
        else:
            i += 1
    return tot, segs


PURITY = []   # (function, what changed) — filled when a weight function modifies the path it is given


def snap(path):
    return ([id(s) for s in path.phasepoints], [list(s.order) for s in path.phasepoints],
            [s.vel_rev for s in path.phasepoints], path.status, path.generated, path.maxlen, path.path_number,
            None if path.weights is None else tuple(path.weights))


def pure(fn, path, before):
    after = snap(path)
    if after != before and len(PURITY) < 20:
        PURITY.append((fn, [k for k, (a, b) in enumerate(zip(before, after)) if a != b]))


def code_weight(tis, path, l, r):
    before = snap(path)
    try:
        n, seg = tis.wirefence_weight_and_pick(path, float(l), float(r))
        assert seg.length == 0
        return int(n)
    except Exception as e:  # noqa: BLE001
        return err_kind(e)
    finally:
        pure("wirefence_weight_and_pick", path, before)


def code_pick(tis, path, l, r, xi):
    """returns 'a,b,c' (start idx, end idx, interior frames) of the returned segment or 'none'"""
    ids = {id(s): k for k, s in enumerate(path.phasepoints)}
    g = OneDraw(xi)
    try:
        n, seg = tis.wirefence_weight_and_pick(path, float(l), float(r), return_seg=True, ens_set={"rgen": g})
    except Exception as e:  # noqa: BLE001
        return err_kind(e), 0
    if seg.length == 0:
        return "none", g.calls
    idx = [ids.get(id(s), -1) for s in seg.phasepoints]
    ok = idx == list(range(idx[0], idx[0] + len(idx)))
    if not ok:
        return f"noncontiguous:{idx}", g.calls
    if seg.generated != "ct":
        return "bad-generated", g.calls
    return f"{idx[0]},{idx[-1]},{len(idx) - 2}", g.calls


def xi_grid(segs, n):
    """draws at and around every cumulative boundary (dyadic, so float and rational comparisons agree)"""
    xis = {Fraction(0), Fraction(1, 1 << 20), Fraction(1) - Fraction(1, 1 << 20)}
    cum = 0
    for s in segs:
        cum += s[2]
        b = Fraction(cum, n)
        for d in (-1, 1):
            x = Fraction(round(b * (1 << 20)) + d * 3, 1 << 20)
            if 0 <= x < 1:
                xis.add(x)
        if b.denominator & (b.denominator - 1) == 0 and b < 1:
            xis.add(b)
    return sorted(xis)


def spec_pick(segs, n, x):
    cum = 0
    for s in segs:
        cum += s[2]
        if Fraction(cum, n) >= x:
            return f"{s[0]},{s[1]},{s[2]}"
    return "none"


def code_move_seed(tis, Path, System, intfs, cap, ops, xi, n_jumps=2):
    """Drive the real `wire_fencing` up to the point where it starts MD: `tis.shoot` is replaced by a probe
    that records the sub-ensemble interfaces and the segment it is asked to shoot from (by identity of the
    old path's frames) and reports a failed jump, so that the move ends with "NSG" without an engine."""
    path = mk(ops, Path, System)
    ids = {id(s): k for k, s in enumerate(path.phasepoints)}
    g = OneDraw(xi)
    tis_set = {"maxlength": 1000, "n_jumps": n_jumps, "allowmaxlength": False}
    if cap is not None:
        tis_set["interface_cap"] = float(cap)
    ens_set = {"interfaces": [float(x) for x in intfs], "tis_set": tis_set, "rgen": g, "ens_name": "001",
               "start_cond": ("L",), "mc_move": "wf"}
    calls = []

    def probe(sub_ens, segment, engine, start_cond=("L",)):
        idx = [ids.get(id(f), -1) for f in segment.phasepoints]
        calls.append((list(sub_ens["interfaces"]), idx, tuple(start_cond)))
        return False, segment, "BTL"

    real = tis.shoot
    tis.shoot = probe
    try:
        try:
            ok, out, status = tis.wire_fencing(ens_set, path, None)
        except Exception as e:  # noqa: BLE001
            return {"err": err_kind(e)}
    finally:
        tis.shoot = real
    return {"ok": ok, "status": status, "calls": calls, "draws": g.calls, "same_path": out is path}


def move_seed_part(ctx, Path, System, tis, have_model):
    """the clause "the sub-path seeding a wire-fencing MOVE is one of the valid sub-paths of [λ_i, cap)":
    the real `wire_fencing` (not only the picker called with the right arguments)."""
    rng = ctx.rng
    cases = []
    # (interfaces of the ensemble, caps); a cap of exactly 0 (falsy) and middle == left ([0+]) are included
    sets = [((0, 2, 6), (None, 3, 4, 6)), ((0, 0, 5), (None, 2, 5)), ((-4, -2, 3), (None, 0, 1)), ((0, 1, 3), (None, 2))]
    for intfs, caps in sets:
        lv = tuple(range(intfs[0] - 1, intfs[2] + 2))
        pool = [ops for ops in seqs(lv, 4 if ctx.quick else 5, 3)]
        if ctx.quick and len(pool) > 1500:
            pool = rng.sample(pool, 1500)
        for _ in range(300 if ctx.quick else 5000):
            L = rng.randint(5, 40)
            x = rng.choice(lv)
            ops = []
            for _k in range(L):
                ops.append(x)
                x += rng.choice((-1, 1, 1, -1, 0, rng.randint(-4, 4)))
                x = max(lv[0], min(lv[-1], x))
            pool.append(tuple(ops))
        for cap in caps:
            for ops in pool:
                capv = intfs[2] if cap is None else cap
                n, segs = py_spec(ops, intfs[1], capv)
                n_all, segs_all = py_spec(ops, intfs[1], intfs[2])
                # keep every case where the cap matters, a sample of the others
                matters = (n, segs) != (n_all, segs_all)
                if not matters and len(segs) < 2 and rng.random() < 0.8:
                    continue
                xs = xi_grid(segs, n) if n else [Fraction(1, 2)]
                if len(xs) > 6:
                    xs = rng.sample(xs, 6)
                for x in xs:
                    cases.append((intfs, cap, ops, x))
    lim = 25000 if ctx.quick else 400000
    if len(cases) > lim:
        cases = rng.sample(cases, lim)
    code = [code_move_seed(tis, Path, System, intfs, cap, ops, float(x)) for (intfs, cap, ops, x) in cases]
    if have_model:
        out = ctx.driver([f"wfseed {intfs[1]} {intfs[2]} {'-' if cap is None else cap} {frac_token(x)} {lst(ops)}"
                          for (intfs, cap, ops, x) in cases])
    for k, (intfs, cap, ops, x) in enumerate(cases):
        ctx.count(1, branch="move_seed")
        capv = intfs[2] if cap is None else cap
        n, segs = py_spec(ops, intfs[1], capv)
        c = code[k]
        rep = {"fn": "wire_fencing", "intfs": list(intfs), "cap": cap, "ops": list(ops), "xi": str(x)}
        if "err" in c:
            shown = c["err"]
        elif not c["calls"]:
            shown = "none"
        else:
            sub, idx, _sc = c["calls"][0]
            contiguous = idx == list(range(idx[0], idx[0] + len(idx))) and idx[0] >= 0
            shown = (f"{lst([int(v) if float(v) == int(v) else v for v in sub])} | "
                     + (f"{idx[0]},{idx[-1]},{len(idx) - 2}" if contiguous else f"noncontiguous:{idx}"))
        if have_model and shown != out[k]:
            ctx.disagree(rep, shown, out[k])
        want_seg = spec_pick(segs, n, x) if n else "none"
        want = "none" if not n else f"{lst([intfs[1], intfs[1], capv])} | {want_seg}"
        if n:
            ctx.distinct(("move", intfs, cap, ops))
        if shown != want:
            got_seg = shown.split(" | ")[-1]
            valid = {f"{s[0]},{s[1]},{s[2]}" for s in segs}
            if "err" in c:
                sig = "C10:move-raises"
            elif shown == "none" or want == "none":
                sig = "C10:move-usable-iff-weight-below-cap"
            elif got_seg not in valid:
                sig = "C10:move-seed-not-a-valid-subpath-below-cap"
            elif got_seg != want_seg:
                sig = "C10:move-seed-not-proportional"
            else:
                sig = "C10:move-sub-ensemble-interfaces"
            ctx.fail(sig, f"wire_fencing seeds its jumps with {shown}; the valid sub-paths of [{intfs[1]}, {capv}) and "
                          f"ξ={x} give {want}", dict(rep, code=shown, spec=want))
        elif "err" not in c:
            if c["draws"] != (1 if n else 0):
                ctx.fail("C10:move-draw-count", f"{c['draws']} draws for the seed of one move", dict(rep, draws=c["draws"]))
            if n and (c["status"] != "NSG" or c["ok"]):
                ctx.fail("C10:move-without-usable-jump-not-NSG", f"status {c['status']} ok={c['ok']} although every jump failed",
                         dict(rep, status=c["status"]))
        if k % 5003 == 0:
            ctx.sample(dict(rep, code=shown))


def seqs(levels, maxlen, minlen=0):
    for L in range(minlen, maxlen + 1):
        yield from itertools.product(levels, repeat=L)


def run(ctx):
    Path, System, tis = _imports()
    rng = ctx.rng
    ctx.rule = ("exhaustive order sequences over a level alphabet (below/at-left/inside/at-right/above) up to a "
                "length, every (left,right) of a small set incl. left=right and left>right, forward and reversed; "
                "then seeded random sequences up to length 60. Non-trivial = weight>0 or a rejected (R..R) inside "
                "run or a jump present; distinct by (l,r,sequence).")
    maxlen = 7 if ctx.quick else 8
    lr_sets = [(0, 2, (-1, 0, 1, 2, 3))]
    small = [(1, 1, (0, 1, 2)), (2, 0, (-1, 0, 1, 2, 3))]
    cases = []
    for (l, r, levels) in lr_sets:
        for ops in seqs(levels, maxlen):
            cases.append((l, r, ops))
    for (l, r, levels) in small:
        for ops in seqs(levels, 6 if ctx.quick else 7):
            cases.append((l, r, ops))
    nrand = 3000 if ctx.quick else 60000
    for _ in range(nrand):
        L = rng.randint(2, 60)
        l = rng.randint(-2, 2)
        r = l + rng.randint(0, 4)
        # random walk with occasional jumps so that long inside runs and jumps both occur
        x = rng.randint(l - 2, r + 2)
        ops = []
        for _k in range(L):
            ops.append(x)
            x += rng.choice((-1, 0, 1, 1, -1, rng.randint(-6, 6)))
            x = max(l - 3, min(r + 3, x))
        cases.append((l, r, tuple(ops)))
    ctx.exhaustive = False
    ctx.extra["exhaustive_part"] = f"all sequences of length ≤ {maxlen} over 5 levels for (l,r)=(0,2); ≤ {6 if ctx.quick else 7} for l=r and l>r"

    # ---- code side
    code_w, code_wr = [], []
    for (l, r, ops) in cases:
        p = mk(ops, Path, System)
        code_w.append(code_weight(tis, p, l, r))
        pr = mk(ops[::-1], Path, System)
        code_wr.append(code_weight(tis, pr, l, r))
    # ---- model + spec side
    have_model = ctx._driver_ok
    if have_model:
        lines = [f"weight {l} {r} {lst(ops)}" for (l, r, ops) in cases]
        lines += [f"spec {l} {r} {lst(ops)}" for (l, r, ops) in cases]
        out = ctx.driver(lines)
        mod_w = out[: len(cases)]
        spec_w = [int(x) for x in out[len(cases):]]
    for k, (l, r, ops) in enumerate(cases):
        sw, segs = py_spec(ops, l, r)
        cw = code_w[k]
        ctx.count(1, branch=("pos" if sw else "zero"))
        if sw or any(a < l and b >= r or b < l and a >= r for a, b in zip(ops, ops[1:])):
            ctx.distinct((l, r, ops))
        if have_model:
            mw = int(mod_w[k].split(" | ")[0])
            if cw != mw:
                ctx.disagree({"fn": "wirefence_weight_and_pick", "l": l, "r": r, "ops": ops}, cw, mw)
            if spec_w[k] != sw:
                ctx.disagree({"fn": "specWeight(lean) vs py_spec", "l": l, "r": r, "ops": ops}, sw, spec_w[k])
        # property predicates on the implementation's own output
        if cw != sw:
            ctx.fail("C10:weight-ne-spec", f"wirefence weight {cw} ≠ number of frames on valid sub-paths {sw}",
                     {"l": l, "r": r, "ops": ops, "code": cw, "spec": sw})
        if code_wr[k] != cw:
            ctx.fail("C10:weight-not-reversal-symmetric", f"weight {cw} but {code_wr[k]} for the time-reversed path",
                     {"l": l, "r": r, "ops": ops, "code": cw, "code_reversed": code_wr[k]})
        if k % 20011 == 0:
            ctx.sample({"fn": "weight", "l": l, "r": r, "ops": list(ops), "code": cw, "spec": sw})

    # ---- pick law: for every case with ≥1 segment, ξ at each cumulative boundary and around it
    pick_cases = []
    step = 1 if not ctx.quick else 3
    for k, (l, r, ops) in enumerate(cases):
        sw, segs = py_spec(ops, l, r)
        if not segs or (len(segs) < 2 and k % step):
            continue
        n = sw
        cum = 0
        xis = {Fraction(0), Fraction(1, 1 << 20), Fraction(1) - Fraction(1, 1 << 20)}
        for s in segs:
            cum += s[2]
            b = Fraction(cum, n)
            # dyadic neighbours of the boundary: float(c/n) >= ξ agrees with exact arithmetic there
            for d in (-1, 1):
                x = Fraction(round(b * (1 << 20)) + d * 3, 1 << 20)
                if 0 <= x < 1:
                    xis.add(x)
            if b.denominator & (b.denominator - 1) == 0 and b < 1:
                xis.add(b)
        for x in sorted(xis):
            pick_cases.append((l, r, ops, x))
    if ctx.quick and len(pick_cases) > 60000:
        pick_cases = rng.sample(pick_cases, 60000)
    code_p = []
    for (l, r, ops, x) in pick_cases:
        p = mk(ops, Path, System)
        code_p.append(code_pick(tis, p, l, r, float(x)))
    if have_model:
        outp = ctx.driver([f"pick {l} {r} {frac_token(x)} {lst(ops)}" for (l, r, ops, x) in pick_cases])
    for k, (l, r, ops, x) in enumerate(pick_cases):
        cp, calls = code_p[k]
        ctx.count(1, branch="pick")
        sw, segs = py_spec(ops, l, r)
        # spec: segment k with cum(k-1) < ξ·n ≤ cum(k) (first with cum/n ≥ ξ)
        cum = 0
        want = "none"
        for s in segs:
            cum += s[2]
            if Fraction(cum, sw) >= x:
                want = f"{s[0]},{s[1]},{s[2]}"
                break
        if have_model and cp != outp[k]:
            ctx.disagree({"fn": "pick", "l": l, "r": r, "ops": ops, "xi": str(x)}, cp, outp[k])
        if cp != want:
            ctx.fail("C10:pick-not-proportional", f"segment {cp} returned for ξ={x}, proportional rule gives {want}",
                     {"l": l, "r": r, "ops": ops, "xi": str(x), "code": cp, "spec": want})
        if calls != 1:
            ctx.fail("C10:pick-draw-count", f"{calls} draws for one segment choice", {"l": l, "r": r, "ops": ops})
        if k % 9973 == 0:
            ctx.sample({"fn": "pick", "l": l, "r": r, "ops": list(ops), "xi": str(x), "code": cp})

    # ---- compute_weight and calc_cv_vector
    cw_cases = []
    lv7 = (-1, 0, 1, 2, 3, 4, 5)
    for ops in seqs(lv7, 4 if ctx.quick else 5, 0):
        for wf in (0, 1):
            cw_cases.append((0, 2, 4, wf, ops))
    for ops in seqs((-1, 0, 1, 2, 3), 4, 0):
        cw_cases.append((0, 2, 2, 1, ops))   # cap == interface
        cw_cases.append((0, 0, 2, 1, ops))   # ensemble [0+]: middle == left
        cw_cases.append((3, 2, 1, 1, ops))   # i0 > i2 → assertion
    code_c = []
    for (i0, i1, i2, wf, ops) in cw_cases:
        p = mk(ops, Path, System)
        before = snap(p)
        try:
            v = tis.compute_weight(p, [float(i0), float(i1), float(i2)], "wf" if wf else "sh")
            code_c.append(str(int(v)) if float(v) == int(v) else repr(v))
        except Exception as e:  # noqa: BLE001
            code_c.append(err_kind(e))
        pure("compute_weight", p, before)
    if have_model:
        outc = ctx.driver([f"cw {i0} {i1} {i2} {wf} {lst(ops)}" for (i0, i1, i2, wf, ops) in cw_cases])
    for k, (i0, i1, i2, wf, ops) in enumerate(cw_cases):
        ctx.count(1, branch="compute_weight")
        cc = code_c[k]
        if have_model and cc != outc[k]:
            ctx.disagree({"fn": "compute_weight", "intfs": [i0, i1, i2], "wf": wf, "ops": ops}, cc, outc[k])
        if ops and i0 <= i2 and i1 <= i2:
            base = py_spec(ops, i1, i2)[0] if wf else 1
            outer = (ops[0] <= i0 and ops[-1] >= i2) or (ops[0] >= i2 and ops[-1] <= i0)
            # the property: doubled when the path connects the two outer sides (stated for wf)
            if wf and outer and cc != str(2 * base):
                ctx.fail("C10:outer-connection-not-doubled", f"weight {cc}, expected {2 * base}",
                         {"intfs": [i0, i1, i2], "ops": ops, "code": cc})
            same = (ops[0] <= i0 and ops[-1] <= i0) or (ops[0] >= i2 and ops[-1] >= i2)
            if wf and same and cc != str(base):
                ctx.fail("C10:same-side-doubled", f"weight {cc}, expected {base}",
                         {"intfs": [i0, i1, i2], "ops": ops, "code": cc})
            if not wf and cc != "1":
                ctx.fail("C10:sh-weight-not-1", f"weight {cc}", {"intfs": [i0, i1, i2], "ops": ops})
            if base and wf:
                ctx.distinct(("cw", i0, i1, i2, ops))

    cv_cases = []
    # interface sets incl. ones straddling zero, so that a cap of exactly 0 (a falsy value) is exercised
    intf_sets = [(0, 2, 4), (0, 2, 4, 6), (-3, -1, 1), (-4, -2, 0, 2)]
    for intfs in intf_sets:
        n = len(intfs)
        lv = tuple(range(intfs[0] - 1, intfs[-1] + 2))
        for mv in itertools.product((0, 1), repeat=n - 1):   # moves[1:], moves[0] is for [0-]
            caps = [None, intfs[-1] - 1, intfs[-1]] + ([0] if intfs[0] < 0 <= intfs[-1] else [])
            for cap in dict.fromkeys(caps):
                pool = list(seqs(lv, 3, 0))
                extra = [tuple(rng.choice(lv) for _ in range(rng.randint(4, 9))) for _ in range(40 if ctx.quick else 400)]
                for ops in pool + extra:
                    cv_cases.append((cap, intfs, mv, ops))
    code_v = []
    for (cap, intfs, mv, ops) in cv_cases:
        p = mk(ops, Path, System)
        moves = ["sh"] + ["wf" if m else "sh" for m in mv]
        before = snap(p)
        fintfs = [float(x) for x in intfs]
        try:
            v = tis.calc_cv_vector(p, fintfs, moves, cap=None if cap is None else float(cap))
            code_v.append(lst([int(x) if float(x) == int(x) else x for x in v]))
        except Exception as e:  # noqa: BLE001
            code_v.append(err_kind(e))
        pure("calc_cv_vector", p, before)
        if fintfs != [float(x) for x in intfs] or moves != ["sh"] + ["wf" if m else "sh" for m in mv]:
            PURITY.append(("calc_cv_vector", "interfaces/moves argument modified"))
    if have_model:
        outv = ctx.driver([f"cv {'-' if cap is None else cap} {lst(intfs)} {lst(mv)} {lst(ops)}"
                           for (cap, intfs, mv, ops) in cv_cases])
    for k, (cap, intfs, mv, ops) in enumerate(cv_cases):
        ctx.count(1, branch="cv_vector")
        cvv = code_v[k]
        if have_model and cvv != outv[k]:
            ctx.disagree({"fn": "calc_cv_vector", "cap": cap, "intfs": intfs, "moves_tail": mv, "ops": ops}, cvv, outv[k])
        if ops and not cvv.startswith("err"):
            vals = cvv.split()[1:]
            pmax = max(ops)
            ok = len(vals) == len(intfs) and vals[-1] == "0"
            capv = intfs[-1] if cap is None else cap
            for i, m in enumerate(mv[: len(intfs) - 1]):
                if not m and i < len(vals):
                    ok = ok and vals[i] == ("1" if intfs[i] <= pmax else "0")
                elif m and i < len(vals) and intfs[0] <= capv:
                    # wire-fencing entry: frames on valid sub-paths of [λ_i, cap), doubled iff start side ≠ end side
                    base = py_spec(ops, intfs[i], capv)[0]
                    st = "L" if ops[0] <= intfs[0] else ("R" if ops[0] >= capv else "?")
                    en = "L" if ops[-1] <= intfs[0] else ("R" if ops[-1] >= capv else None)
                    want = 2 * base if st != en else base
                    if vals[i] != str(want):
                        ctx.fail("C10:cv-vector-wf-entry", f"wire-fencing entry {i} of the weight vector is {vals[i]}, "
                                 f"the frames on valid sub-paths of [{intfs[i]}, {capv}) give {want}",
                                 {"cap": cap, "intfs": intfs, "moves_tail": mv, "ops": ops, "code": cvv})
            if not ok:
                ctx.fail("C10:cv-vector-shape", f"weight vector {cvv} for sh entries/last interface",
                         {"cap": cap, "intfs": intfs, "moves_tail": mv, "ops": ops, "code": cvv})
            ctx.distinct(("cv", cap, intfs, mv, ops))
        if k % 4001 == 0:
            ctx.sample({"fn": "calc_cv_vector", "cap": cap, "intfs": list(intfs), "moves_tail": list(mv),
                        "ops": list(ops), "code": cvv})
    # minus paths
    # incl. a λ₋₁ of exactly 0 (falsy but valid) below a positive first interface
    m_cases = [(b, lm1, ops) for ops in seqs((-3, -2, -1, 0, 1), 4, 0) for b in (0,) for lm1 in (None, -2)]
    m_cases += [(2, lm1, ops) for ops in seqs((-1, 0, 1, 2, 3), 4, 0) for lm1 in (None, 0, 1)]
    code_m = []
    for (b, lm1, ops) in m_cases:
        p = mk(ops, Path, System)
        try:
            v = tis.calc_cv_vector(p, [float(b), float(b) + 2.0, float(b) + 4.0], ["sh", "sh", "sh"],
                                   lambda_minus_one=False if lm1 is None else float(lm1), minus=True)
            code_m.append(lst([int(x) for x in v]))
        except Exception as e:  # noqa: BLE001
            code_m.append(err_kind(e))
    if have_model:
        outm = ctx.driver([f"cvminus {b if lm1 is None else lm1} {lst(ops)}" for (b, lm1, ops) in m_cases])
    for k, (b, lm1, ops) in enumerate(m_cases):
        ctx.count(1, branch="cv_minus")
        if have_model and code_m[k] != outm[k]:
            ctx.disagree({"fn": "calc_cv_vector(minus)", "bound": b, "lm1": lm1, "ops": ops}, code_m[k], outm[k])
        # a valid [0-] path (starts and ends right of λ0, i.e. ≥ λ0, interior below) gets (1,)
        if len(ops) >= 3 and lm1 is None and ops[0] >= b and ops[-1] >= b and all(x < b for x in ops[1:-1]):
            if code_m[k] != "1 1":
                ctx.fail("C10:minus-vector", f"valid [0-] path got {code_m[k]}", {"ops": ops, "bound": b})
            ctx.distinct(("cvm", ops))
        # λ₋₁ variant: the [0-] weight is 1 iff the path reaches λ₋₁ (a path confined left of λ₀ still counts)
        if ops and lm1 is not None and not code_m[k].startswith("err"):
            want = "1 1" if max(ops) >= lm1 else "1 0"
            if code_m[k] != want:
                ctx.fail("C10:minus-vector-lambda-minus-one", f"[0-] weight {code_m[k]} with λ₋₁={lm1}, max={max(ops)}: expected {want}",
                         {"ops": ops, "lambda_minus_one": lm1, "first_interface": b})
    move_seed_part(ctx, Path, System, tis, have_model)
    # extension pass: scan trace, segment frames, move strings, all calc_cv_vector arguments, high_acc_swap, call sites
    from props import c10_ext
    c10_ext.run_ext(ctx, Path, System, tis, have_model, code_move_seed)
    # the weight functions only read the path they are given
    for fn, what in PURITY:
        ctx.fail("C10:weight-function-modifies-its-input", f"{fn} changed field(s) {what} of the path/arguments it was given",
                 {"fn": fn, "changed": what})
    del PURITY[:]
    for a in [
        "order values are small integers (exact as floats); ξ values are dyadic so float `c/n >= ξ` equals the rational comparison",
        "IEEE rounding of sum_frames / n_frames is not modelled",
        "move level: `wire_fencing` is driven up to its first `shoot` call (replaced by a probe that fails every jump); "
        "the jumps, the extender and the acceptance are C09's",
    ]:
        if a not in ctx.assumptions:
            ctx.assumptions.append(a)


def replay(ctx, obj):
    """re-run one recorded failing input on the current implementation"""
    Path, System, tis = _imports()
    r = obj.get("replay", {})
    from props import c10_ext
    rc = c10_ext.replay_ext(r, Path, System, tis)
    if rc is not None:
        return rc
    if r.get("fn") == "wire_fencing":
        c = code_move_seed(tis, Path, System, r["intfs"], r["cap"], r["ops"], float(Fraction(r["xi"])))
        capv = r["intfs"][2] if r["cap"] is None else r["cap"]
        n, segs = py_spec(r["ops"], r["intfs"][1], capv)
        want = "none" if not n else f"{lst([r['intfs'][1], r['intfs'][1], capv])} | {spec_pick(segs, n, Fraction(r['xi']))}"
        if "err" in c:
            shown = c["err"]
        elif not c["calls"]:
            shown = "none"
        else:
            sub, idx, _sc = c["calls"][0]
            shown = f"{lst([int(v) if float(v) == int(v) else v for v in sub])} | {idx[0]},{idx[-1]},{len(idx) - 2}"
        print("code:", shown, "spec:", want, "draws:", c.get("draws"), "status:", c.get("status"))
        return 0 if shown == want and c.get("draws") == (1 if n else 0) else 1
    if "xi" in r:
        p = mk(r["ops"], Path, System)
        got = code_pick(tis, p, r["l"], r["r"], float(Fraction(r["xi"])))[0]
        print("code:", got, "spec:", r.get("spec"))
        return 0 if got == r.get("spec") else 1
    if "l" in r:
        p = mk(r["ops"], Path, System)
        got = code_weight(tis, p, r["l"], r["r"])
        want = py_spec(r["ops"], r["l"], r["r"])[0]
        gotr = code_weight(tis, mk(r["ops"][::-1], Path, System), r["l"], r["r"])
        print("code:", got, "reversed:", gotr, "spec:", want)
        return 0 if got == want == gotr else 1
    print(json_dump(obj))
    return 1


def json_dump(o):
    import json
    return json.dumps(o, indent=1, default=str)
