"""C10 extension tie (model: lean/Infretis/Model/WFExt.lean, driver ops trace/wpick/wfseed2/cwm/cvfull/cvcols/has/
loadw/mdw/subtw).  Called from c10.run after the original parts.

  trace_part      the scan of `wirefence_weight_and_pick` iteration by iteration: (key_l, key_r, isave, len(path_arr))
                  read from the real function's frame after every loop iteration (sys.settrace) against the model's
                  `trace`; structured long paths (excursions, plateaus on λ_i and on the cap, ramps, jumps); the
                  histogram branch × doubled/undoubled must hit every cell
  segment_part    the whole second half of the function: guard, draw count, the frames appended through Path.append
                  (incl. a `maxlen` that refuses frames), identity of the frame objects, copied attributes
  cwm_part        compute_weight with the move STRING ("wf", "ss", others)
  cvfull_part     calc_cv_vector with every argument combination (minus, λ₋₁ incl. 0.0, cap incl. 0.0, no/one
                  interface, short moves list, tuple/list/array arguments, several order-parameter columns)
  has_part        high_acc_swap: the ratio and the decision, ξ around the ratio
  callsite_part   the real REPEX_state.load_paths / run_md / subt_acceptance / wire_fencing with a configured cap:
                  which cap, interfaces and flags reach the weight functions
"""
from __future__ import annotations

import itertools
import os
import re
import sys
import tempfile
from fractions import Fraction

from common import err_kind, frac_token, lst

LETTERS = "JLRAC"


# ----------------------------------------------------------------------------------------------- helpers
def mk(ops, Path, System, maxlen=10_000, cols=None):
    p = Path(maxlen=maxlen)
    for k, o in enumerate(ops):
        s = System()
        s.order = [float(o)] if cols is None else [float(o)] + [float(c) for c in cols[k]]
        s.config = (f"f{k}", k)
        p.phasepoints.append(s)
    return p


def py_spec(ops, l, r):
    """independent transcription of the property's weight: maximal inside runs with a frame before and after, the two
    bounding frames not both on the right"""
    n = len(ops)
    i = 0
    tot = 0
    segs = []
    while i < n:
        if l <= ops[i] < r:
            j = i
            while j + 1 < n and l <= ops[j + 1] < r:
                j += 1
            if i > 0 and j < n - 1 and not (ops[i - 1] >= r and ops[j + 1] >= r):
                tot += j - i + 1
                segs.append((i - 1, j + 1, j - i + 1))
            i = j + 1
        else:
            i += 1
    return tot, segs


def py_cw(ops, i0, i1, i2, move):
    """the property's words for compute_weight: frames on valid sub-paths, doubled iff start side ≠ end side"""
    base = py_spec(ops, i1, i2)[0] if move == "wf" else 1
    st = "L" if ops[0] <= i0 else ("R" if ops[0] >= i2 else "?")
    en = "L" if ops[-1] <= i0 else ("R" if ops[-1] >= i2 else None)
    return 2 * base if (st != en and move in ("wf", "ss")) else base


def spec_pick(segs, n, x):
    cum = 0
    for s in segs:
        cum += s[2]
        if Fraction(cum, n) >= x:
            return s
    return None


def xi_grid(segs, n):
    xis = {Fraction(0), Fraction(1, 1 << 20), Fraction(1) - Fraction(1, 1 << 20)}
    cum = 0
    for s in segs:
        cum += s[2]
        b = Fraction(cum, n)
        for d in (-1, 1):
            x = Fraction(round(b * (1 << 20)) + d * 3, 1 << 20)
            if 0 <= x < 1:
                xis.add(x)
        if b.denominator & (b.denominator - 1) == 0 and b < 1:
            xis.add(b)
    return sorted(xis)


class OneDraw:
    def __init__(self, xi):
        self.xi = xi
        self.calls = 0

    def random(self):
        self.calls += 1
        return self.xi

    def __getattr__(self, name):
        raise AssertionError(f"unexpected draw request {name}")


def opt(x):
    return "-" if x is None else str(x)


def nums(v):
    return lst([int(x) if float(x) == int(x) else x for x in v])


# ----------------------------------------------------------------------------------------------- generators
def structured(rng, l, r, target):
    """long paths from blocks: short excursions of every kind, plateaus exactly on l and on r, ramps, jumps"""
    lo, hi = l - 2, r + 2
    mid = list(range(l, r)) or [l]
    blocks = []

    def exc(a, b, k):            # a, inside × k, b
        return [a] + [rng.choice(mid) for _ in range(k)] + [b]
    L = lambda: rng.choice((l - 1, l - 2))   # noqa: E731
    R = lambda: rng.choice((r, r + 1, r + 2))  # noqa: E731
    kinds = rng.choices(["LL", "LR", "RL", "RR", "platl", "platr", "up", "down", "jump", "out"], k=200)
    ops = [rng.choice((L(), R(), rng.choice(mid)))]
    for kind in kinds:
        if len(ops) >= target:
            break
        k = rng.choice((1, 1, 2, 3, rng.randint(1, 12)))
        if kind == "LL":
            blocks = exc(L(), L(), k)
        elif kind == "LR":
            blocks = exc(L(), R(), k)
        elif kind == "RL":
            blocks = exc(R(), L(), k)
        elif kind == "RR":
            blocks = exc(R(), R(), k)
        elif kind == "platl":
            blocks = [rng.choice((l - 1, r))] + [l] * k + [rng.choice((l - 1, r, l))]
        elif kind == "platr":
            blocks = [rng.choice((l - 1, r - 1 if r - 1 >= l else l))] + [r] * k + [rng.choice((l - 1, l, r + 1))]
        elif kind == "up":
            blocks = list(range(lo, hi + 1, rng.choice((1, 1, 2))))
        elif kind == "down":
            blocks = list(range(hi, lo - 1, -rng.choice((1, 1, 2))))
        elif kind == "jump":
            blocks = [L(), R(), L()] if rng.random() < 0.5 else [R(), L(), R()]
        else:
            blocks = [rng.choice((L(), R())) for _ in range(k)]
        ops += blocks
    return tuple(ops)


def trace_cases(ctx):
    rng = ctx.rng
    cases = []
    # deterministic witnesses of every cell branch × doubled (l=0, r=2, i0=-1): see trace_part
    fixed = [
        (-1, 0, 2, (-2, 1, -2)), (-1, 0, 2, (-2, 1, 3)), (-1, 0, 2, (3, 1, -2)), (-1, 0, 2, (3, 1, 3)),
        (-1, 0, 2, (-2, 3, -2, 1, -2)), (-1, 0, 2, (-2, 3, -2, 1, 3)),            # jump + undoubled / doubled
        (-1, 0, 2, (-2, 1, 3, 1, 3, 3)), (-1, 0, 2, (-2, 1, 3, 1, 3, -2, -2)),      # abortRR doubled / undoubled
        (-1, 0, 2, (3, 1, -2, -2)), (-1, 0, 2, (3, 1, -2, 3)),                      # openR doubled / undoubled
        (-1, 0, 2, (0, 0, 0)), (-1, 0, 2, (2, 2, 2)), (-1, 0, 2, ()), (-1, 0, 2, (1,)),
    ]
    cases += fixed
    n_struct = 500 if ctx.quick else 4000
    for _ in range(n_struct):
        l = rng.randint(-2, 2)
        r = l + rng.choice((0, 1, 1, 2, 3, 4))
        i0 = l - rng.choice((0, 0, 1, 2))
        cases.append((i0, l, r, structured(rng, l, r, rng.choice((10, 30, 80, 200, 400 if not ctx.quick else 200)))))
    # all short sequences again, now compared state by state
    for ops in itertools.product((-1, 0, 1, 2, 3), repeat=4 if ctx.quick else 5):
        cases.append((0, 0, 2, ops))
    for ops in itertools.product((0, 1, 2), repeat=4):
        cases.append((1, 1, 1, ops))
    return cases


class ScanTracer:
    """states (key_l, key_r, isave, len(path_arr)) of the real function after every iteration of its scan loop, read
    from the frame's locals.  Returns None when the locals are not there (a refactored function): nothing is compared."""

    NAMES = ("i", "key_l", "key_r", "isave", "path_arr")

    def __init__(self, code):
        self.code = code
        self.snaps = []
        self.final = None
        self.final_arr = None
        self.ok = True

    def _snap(self, frame):
        loc = frame.f_locals
        if not all(k in loc for k in self.NAMES[1:]):
            return None
        return (loc.get("i"), bool(loc["key_l"]), bool(loc["key_r"]), int(loc["isave"]), len(loc["path_arr"]))

    def local(self, frame, event, arg):
        if event == "line":
            s = self._snap(frame)
            if s is not None:
                self.snaps.append(s)
        elif event == "return":
            self.final = self._snap(frame)
            arr = frame.f_locals.get("path_arr")
            try:
                self.final_arr = None if arr is None else [tuple(int(v) for v in seg) for seg in arr]
                if self.final_arr is not None and any(len(seg) != 3 for seg in self.final_arr):
                    self.final_arr = None     # another representation of the sub-paths: nothing to compare entry by entry
            except Exception:  # noqa: BLE001  (a refactored function may keep something else under that name)
                self.final_arr = None
        return self.local

    def glob(self, frame, event, arg):
        if event == "call" and frame.f_code is self.code:
            return self.local
        return None

    def states(self, n_iter):
        """state after iteration k = first snapshot whose loop variable is k+1; after the last one = at return"""
        if self.final is None:
            return None
        out = []
        first = {}
        for s in self.snaps:
            if isinstance(s[0], int) and s[0] not in first:
                first[s[0]] = s
        for k in range(n_iter):
            if k + 1 < n_iter:
                if k + 1 not in first:
                    return None
                out.append(first[k + 1][1:])
            else:
                out.append(self.final[1:])
        return out


# ----------------------------------------------------------------------------------------------- parts
def trace_part(ctx, Path, System, tis, have_model):
    cases = trace_cases(ctx)
    code_states, code_w, code_cw, code_arr = [], [], [], []
    fn_code = tis.wirefence_weight_and_pick.__code__
    for (i0, l, r, ops) in cases:
        p = mk(ops, Path, System)
        tr = ScanTracer(fn_code)
        prev = sys.gettrace()              # the thorough tier measures code coverage with a tracer of its own: put it back
        sys.settrace(tr.glob)
        try:
            try:
                n, seg = tis.wirefence_weight_and_pick(p, float(l), float(r))
                w = int(n)
            except Exception as e:  # noqa: BLE001
                w = err_kind(e)
        finally:
            sys.settrace(prev)
        code_w.append(w)
        code_states.append(tr.states(max(len(ops) - 1, 0)) if not isinstance(w, str) else None)
        code_arr.append(tr.final_arr if not isinstance(w, str) else None)
        try:
            v = tis.compute_weight(mk(ops, Path, System), [float(i0), float(l), float(r)], "wf")
            code_cw.append(int(v))
        except Exception as e:  # noqa: BLE001
            code_cw.append(err_kind(e))
    if not have_model:
        return
    out = ctx.driver([f"trace {l} {r} {lst(ops)}" for (i0, l, r, ops) in cases])
    out_spec = ctx.driver([f"specsegs {l} {r} {lst(ops)}" for (i0, l, r, ops) in cases])
    cells = {}
    untraced = 0
    for k, (i0, l, r, ops) in enumerate(cases):
        ctx.count(1, branch="scan_trace")
        left, w_m, segs_m = out[k].split(" | ")
        toks = left.split()[1:]
        letters = [t.split(":")[0] for t in toks]
        m_states = [(t.split(":")[1] == "1", t.split(":")[2] == "1", int(t.split(":")[3]), int(t.split(":")[4])) for t in toks]
        rep = {"fn": "scan-trace", "l": l, "r": r, "ops": list(ops)}
        if str(code_w[k]) != w_m:
            ctx.disagree(rep, code_w[k], w_m)
        cs = code_states[k]
        if cs is None:
            untraced += 1
        elif cs != m_states:
            bad = next((j for j, (a, b) in enumerate(zip(cs, m_states)) if a != b), min(len(cs), len(m_states)))
            ctx.disagree(dict(rep, iteration=bad), f"state after iteration {bad}: {cs[bad] if bad < len(cs) else None}",
                         f"{m_states[bad] if bad < len(m_states) else None} (branch {letters[bad] if bad < len(letters) else '-'})",
                         note="(key_l, key_r, isave, len(path_arr)) after a scan iteration")
        # the property on this input (independent count), also for the long structured paths
        sw, segs = py_spec(ops, l, r)
        showsegs = lambda L: lst([f"{a},{b},{c}" for (a, b, c) in L])  # noqa: E731
        # path_arr itself (content, order, multiplicity): code vs model, Lean specification vs independent transcription,
        # and the property on the code's own list
        if out_spec[k] != showsegs(segs):
            ctx.disagree(dict(rep, what="specSegs(lean) vs py_spec"), showsegs(segs), out_spec[k])
        if code_arr[k] is not None:
            if showsegs(code_arr[k]) != segs_m:
                ctx.disagree(dict(rep, what="path_arr at return"), showsegs(code_arr[k]), segs_m)
            if list(code_arr[k]) != list(segs):
                ctx.fail("C10:path-arr-not-the-valid-subpaths", f"path_arr {code_arr[k]} but the valid sub-paths of [{l}, {r}) are {segs}",
                         {"l": l, "r": r, "ops": list(ops), "code": [list(x) for x in code_arr[k]], "spec": [list(x) for x in segs], "what": "path_arr"})
        if l <= r and code_w[k] != sw:
            ctx.fail("C10:weight-ne-spec", f"wirefence weight {code_w[k]} ≠ number of frames on valid sub-paths {sw}",
                     {"l": l, "r": r, "ops": list(ops), "code": code_w[k], "spec": sw})
        if l <= r and ops and i0 <= r and code_cw[k] != py_cw(ops, i0, l, r, "wf"):
            ctx.fail("C10:compute-weight-doubling", f"compute_weight {code_cw[k]}, the frames on valid sub-paths with the "
                     f"doubling rule give {py_cw(ops, i0, l, r, 'wf')}", {"intfs": [i0, l, r], "ops": list(ops), "code": code_cw[k]})
        if sw:
            ctx.distinct(("trace", l, r, ops))
        # histogram: scan branch × outcome of compute_weight (doubled or not), only where the weight is positive
        if isinstance(code_w[k], int) and code_w[k] > 0 and isinstance(code_cw[k], int):
            d = "doubled" if code_cw[k] == 2 * code_w[k] else "single"
            for b in set(letters):
                if b in LETTERS:
                    cells[(b, d)] = cells.get((b, d), 0) + 1
        for b in letters:
            ctx.hit(f"scan_branch={b}")
        if k % 1499 == 0:
            ctx.sample(dict(rep, code=code_w[k], branches="".join(letters)[:60]))
    ctx.extra["scan_branch_x_doubling"] = {f"{b}/{d}": cells.get((b, d), 0) for b in LETTERS for d in ("single", "doubled")}
    ctx.extra["scan_trace_untraced_cases"] = untraced
    missing = [f"{b}/{d}" for b in LETTERS for d in ("single", "doubled") if not cells.get((b, d))]
    if missing:
        # a generator defect, not a property violation: the fixed witnesses hit every cell on the model's own trace
        ctx.disagree({"fn": "scan-trace", "what": "branch × doubling histogram has empty cells"}, "-", missing,
                     note="generator no longer reaches every scan branch with both doubling outcomes")


def segment_part(ctx, Path, System, tis, have_model):
    rng = ctx.rng
    cases = []
    base = []
    for _ in range(700 if ctx.quick else 8000):
        l = rng.randint(-1, 1)
        r = l + rng.choice((1, 2, 2, 3))
        base.append((l, r, structured(rng, l, r, rng.choice((6, 12, 25, 60)))))
    for ops in itertools.product((-1, 0, 1, 2, 3), repeat=5):
        if rng.random() < (0.25 if ctx.quick else 1.0):
            base.append((0, 2, ops))
    for (l, r, ops) in base:
        n, segs = py_spec(ops, l, r)
        xs = xi_grid(segs, n) if n else [Fraction(1, 2)]
        if len(xs) > 4:
            xs = rng.sample(xs, 4)
        if n and rng.random() < 0.08:
            # a draw no generator gives (ξ ≥ 1): ξ = 1 still takes the last sub-path, above 1 the loop over the sub-paths
            # runs out and the empty path comes back with the weight (tis.py:241 → 251)
            xs = xs + [rng.choice((Fraction(1), Fraction(3, 2), Fraction(1) + Fraction(1, 1 << 20)))]
        for x in xs:
            longest = max((s[2] + 2 for s in segs), default=3)
            ml = rng.choice((None, 10_000, len(ops), longest, longest - 1, 2, 1, 0))
            mode = rng.choice(("seg", "seg", "seg", "seg", "noret", "noens"))
            cases.append((ml, l, r, mode, x, ops))
    code = [real_segment(tis, Path, System, ml, l, r, mode, x, ops) for (ml, l, r, mode, x, ops) in cases]
    if have_model:
        out = ctx.driver([f"wpick {opt(ml)} {l} {r} {0 if mode == 'noret' else 1} {'-' if mode == 'noens' else frac_token(x)} {lst(ops)}"
                          for (ml, l, r, mode, x, ops) in cases])
    for k, (ml, l, r, mode, x, ops) in enumerate(cases):
        ctx.count(1, branch=f"segment:{mode}")
        shown, info = code[k]
        rep = {"fn": "wirefence_weight_and_pick(segment)", "maxlen": ml, "l": l, "r": r, "mode": mode, "xi": str(x), "ops": list(ops)}
        if have_model and shown != out[k]:
            ctx.disagree(rep, shown, out[k])
        if info is None:
            ctx.fail("C10:segment-raises", f"wirefence_weight_and_pick raised {shown}", rep)
            continue
        bad = judge_segment(ml, l, r, mode, x, ops, info)
        if bad:
            ctx.fail(bad[0], bad[1], dict(rep, code=shown))
        elif mode == "seg" and info["idx"]:
            ctx.distinct(("seg", ml, l, r, ops, x))
        if k % 2503 == 0:
            ctx.sample(dict(rep, code=shown))


def cwm_part(ctx, Path, System, tis, have_model):
    cases = []
    for ops in itertools.product((-1, 0, 1, 2, 3, 4, 5), repeat=3):
        for mv in ("wf", "ss", "sh", "xx"):
            cases.append((0, 2, 4, mv, ops))
    for L in (0, 1, 2, 4):
        for ops in itertools.product((-1, 0, 2, 3), repeat=L):
            for mv in ("wf", "ss", "sh"):
                cases.append((0, 0, 2, mv, ops))
                cases.append((3, 2, 1, mv, ops))
    rng = ctx.rng
    for _ in range(300 if ctx.quick else 5000):
        i0 = rng.randint(-2, 1)
        i1 = i0 + rng.randint(0, 2)
        i2 = i1 + rng.randint(0, 3)
        cases.append((i0, i1, i2, rng.choice(("wf", "ss", "sh")), structured(rng, i1, i2, rng.choice((8, 30, 90)))))
    code = []
    for (i0, i1, i2, mv, ops) in cases:
        try:
            v = tis.compute_weight(mk(ops, Path, System), [float(i0), float(i1), float(i2)], mv)
            code.append(str(int(v)) if float(v) == int(v) else repr(v))
        except Exception as e:  # noqa: BLE001
            code.append(err_kind(e))
    if have_model:
        out = ctx.driver([f"cwm {i0} {i1} {i2} {mv if mv != 'xx' else 'sh'} {lst(ops)}" for (i0, i1, i2, mv, ops) in cases])
    for k, (i0, i1, i2, mv, ops) in enumerate(cases):
        ctx.count(1, branch=f"compute_weight:{mv}")
        rep = {"fn": "compute_weight", "intfs": [i0, i1, i2], "move": mv, "ops": list(ops)}
        if have_model and code[k] != out[k]:
            ctx.disagree(rep, code[k], out[k])
        if ops and i0 <= i2 and i1 <= i2:
            want = py_cw(ops, i0, i1, i2, mv)
            if code[k] != str(want):
                ctx.fail("C10:compute-weight-doubling" if mv == "wf" else "C10:non-wf-weight",
                         f"compute_weight(move={mv}) = {code[k]}, expected {want}", dict(rep, code=code[k]))


def cvfull_part(ctx, Path, System, tis, have_model):
    rng = ctx.rng
    cases = []       # (minus, lm1, cap, intfs, moves, ops, container, cols)
    intf_sets = [(), (1,), (0, 2), (0, 2, 4), (-2, 0, 2, 4), (0, 0, 3)]
    for intfs in intf_sets:
        n = len(intfs)
        lv = (-3, -1, 0, 1, 2, 3, 5)
        for _ in range(120 if ctx.quick else 2500):
            L = rng.choice((0, 1, 2, 3, 5, 9, 20))
            ops = tuple(rng.choice(lv) for _ in range(L))
            if L >= 5 and n >= 2 and rng.random() < 0.6:
                ops = structured(rng, intfs[rng.randrange(n - 1)], intfs[-1], L)
            mlen = rng.choice((n, n, n, n + 1, max(n - 1, 0), 0))
            moves = tuple(rng.choice(("sh", "wf", "wf", "ss")) for _ in range(mlen))
            minus = rng.random() < 0.3
            lm1 = rng.choice((None, None, 0, -2, 1))
            caps = [None, 0] + ([intfs[-1], intfs[-1] - 1, intfs[0]] if n else [1])
            cap = rng.choice(caps)
            container = rng.choice(("list", "tuple", "array"))
            cols = None
            if rng.random() < 0.3:
                cols = [tuple(rng.choice((-9, 9, 0, 100)) for _ in range(rng.choice((1, 2)))) for _ in ops]
            cases.append((minus, lm1, cap, intfs, moves, ops, container, cols))
    code = [real_cvfull(tis, Path, System, *c) for c in cases]
    if have_model:
        lines = []
        for (minus, lm1, cap, intfs, moves, ops, container, cols) in cases:
            head = f"{1 if minus else 0} {opt(lm1)} {opt(cap)} {lst(intfs)} {lst(moves)}"
            if cols is None:
                lines.append(f"cvfull {head} {lst(ops)}")
            else:
                lines.append(f"cvcols {head} {len(ops)} " + " ".join(lst((o,) + tuple(c)) for o, c in zip(ops, cols)))
        out = ctx.driver(lines)
    for k, (minus, lm1, cap, intfs, moves, ops, container, cols) in enumerate(cases):
        ctx.count(1, branch="cv_full:" + ("minus" if minus else "plus") + (":cols" if cols else ""))
        rep = {"fn": "calc_cv_vector(all arguments)", "minus": minus, "lm1": lm1, "cap": cap, "intfs": list(intfs),
               "moves": list(moves), "ops": list(ops), "container": container, "cols": cols}
        if have_model and code[k] != out[k]:
            ctx.disagree(rep, code[k], out[k])
        for sig, text in judge_cvfull(minus, lm1, cap, intfs, moves, ops, code[k]):
            ctx.fail(sig, text, dict(rep, code=code[k]))
        if ops and not code[k].startswith("err"):
            ctx.distinct(("cvfull", minus, lm1, cap, intfs, moves, ops))
        if k % 997 == 0:
            ctx.sample(dict(rep, code=code[k]))


def has_part(ctx, Path, System, tis, have_model):
    rng = ctx.rng
    cases = []
    pool_short = [ops for L in (3, 4) for ops in itertools.product((-1, 1, 3, 5), repeat=L)]
    for _ in range(1500 if ctx.quick else 15000):
        a0 = rng.choice((-1, 0, 0))
        a1 = a0 + rng.choice((0, 1, 2))
        a2 = a1 + rng.choice((1, 2, 3))
        b0 = a0 + rng.choice((0, 0, 1))
        b1 = max(b0, a1 + rng.choice((0, 1, 2)))
        b2 = max(b1, a2 + rng.choice((-1, 0, 0, 1)))
        if rng.random() < 0.04:
            a0, a2 = a2 + 1, a0           # assertion inside get_start_point
        m0, m1 = rng.choice((("wf", "wf"), ("wf", "sh"), ("sh", "wf"), ("sh", "sh"), ("wf", "ss"), ("ss", "sh")))
        if rng.random() < 0.5:
            pa, pb = rng.choice(pool_short), rng.choice(pool_short)
        else:
            pa = structured(rng, a1, a2, rng.choice((5, 12, 30)))
            pb = structured(rng, b1, b2, rng.choice((5, 12, 30)))
        if rng.random() < 0.02:
            pa = ()
        cases.append((a0, a1, a2, b0, b1, b2, m0, m1, pa, pb))
    # ξ: around the ratio the property's words give (dyadic neighbours), plus 0 and just below 1
    full = []
    for c in cases:
        a0, a1, a2, b0, b1, b2, m0, m1, pa, pb = c
        xs = [Fraction(0), Fraction(1) - Fraction(1, 1 << 20), Fraction(1, 2)]
        pr = has_ratio((a0, a1, a2), (b0, b1, b2), m0, m1, pa, pb)
        if pr is not None:
            p = pr[0]
            for d in (-3, 3):
                x = Fraction(round(p * (1 << 20)) + d, 1 << 20)
                if 0 <= x < 1:
                    xs.append(x)
            if p.denominator & (p.denominator - 1) == 0 and 0 <= p < 1:
                xs.append(p)
        for x in rng.sample(xs, min(len(xs), 3)):
            full.append(c + (x,))
    code = [real_has(tis, Path, System, (a0, a1, a2), (b0, b1, b2), m0, m1, pa, pb, x)
            for (a0, a1, a2, b0, b1, b2, m0, m1, pa, pb, x) in full]
    if have_model:
        out = ctx.driver([f"has {a0} {a1} {a2} {b0} {b1} {b2} {m0} {m1} {frac_token(x)} {lst(pa)} {lst(pb)}"
                          for (a0, a1, a2, b0, b1, b2, m0, m1, pa, pb, x) in full])
    for k, (a0, a1, a2, b0, b1, b2, m0, m1, pa, pb, x) in enumerate(full):
        ctx.count(1, branch="high_acc_swap")
        acc, status, calls = code[k]
        rep = {"fn": "high_acc_swap", "intf0": [a0, a1, a2], "intf1": [b0, b1, b2], "moves": [m0, m1], "pa": list(pa),
               "pb": list(pb), "xi": str(x)}
        if have_model:
            m_acc = out[k].split()[0]
            if acc != m_acc:
                ctx.disagree(rep, acc, out[k])
        if status is None:
            continue
        if (acc, status) not in (("1", "ACC"), ("0", "HAS")) or calls != 1:
            ctx.fail("C10:high-acc-status-or-draws", f"accept={acc} status={status} draws={calls}", rep)
        pr = has_ratio((a0, a1, a2), (b0, b1, b2), m0, m1, pa, pb)
        if pr is not None:
            p, (c1o, c2o, c1n, c2n) = pr
            want = "1" if x < p else "0"
            if have_model and len(out[k].split()) == 2 and Fraction(out[k].split()[1]) != p:
                ctx.disagree(rep, f"ratio {p} (frames on valid sub-paths)", out[k], note="model ratio vs independent count")
            if acc != want:
                ctx.fail("C10:high-acc-ratio", f"swap {'accepted' if acc == '1' else 'rejected'} at ξ={x}; the weights of the "
                         f"property give the ratio {c1n}·{c2n}/({c1o}·{c2o}) = {p}", dict(rep, code=acc, ratio=str(p)))
            if c1o and c2o and c1n and c2n:
                ctx.distinct(("has", a0, a1, a2, b0, b1, b2, m0, m1, pa, pb))
        if k % 1201 == 0:
            ctx.sample(dict(rep, code=acc))


def callsite_part(ctx, Path, System, tis, have_model):
    """REPEX_state.load_paths, run_md, subt_acceptance with a configured cap — the state, the loaded weights and the
    md_items all come out of ONE call of the real setup_internal"""
    from infretis.classes import repex as R
    rng = ctx.rng
    exe = tempfile.mkdtemp(prefix="vp-c10-", dir="/var/tmp")
    cwd0 = os.getcwd()
    cfgs = [((0, 2, 4), 3), ((0, 2, 4), None), ((-4, -2, 0, 2), 0), ((-4, -2, 0, 2), 1), ((0, 1, 3, 6), 4), ((0, 1, 3, 6), 6),
            ((0, 2, 4, 6, 8), 5)]
    load_cases, md_cases, subt_cases = [], [], []
    try:
        os.chdir(exe)
        for intfs, cap in cfgs:
            n_ens = len(intfs)
            for _rep in range(25 if ctx.quick else 250):
                moves = ["sh"] + [rng.choice(("wf", "wf", "wf", "sh", "sh", "ss")) for _ in range(n_ens - 1)]
                lm1 = rng.choice((None, None, intfs[0] - 1))
                opss = [structured(rng, intfs[0], intfs[0], 6)]
                for i in range(n_ens - 1):
                    lo = intfs[i]
                    hi = intfs[-1] if rng.random() < 0.5 else (intfs[-1] if cap is None else cap)
                    opss.append(structured(rng, lo, max(lo, hi), rng.choice((6, 15, 40))))
                # the number of paths need not be the state's size: too few (IndexError), too many (never looked at)
                u = rng.random()
                if u < 0.12:
                    opss = opss[:rng.randint(0, n_ens - 1)]
                elif u < 0.24:
                    opss = opss + [structured(rng, intfs[0], intfs[-1], 8) for _ in range(rng.randint(1, 2))]
                md0, st, (got, routed) = real_setup(R, Path, System, intfs, cap, lm1, moves, opss)
                load_cases.append((intfs, cap, lm1, tuple(moves), tuple(opss), got, routed))
                if st is None:
                    st = make_state(R, intfs, cap, lm1, moves)
                    md0 = None
                # run_md on the md_items setup_internal built; a zero swap hands it two trials ([0-] and [0+])
                picks = [[e] for e in rng.sample(range(-1, n_ens - 1), min(3, n_ens))] + [[-1, 0]]
                if rng.random() < 0.3:
                    picks.append([0, -1])
                for ens_nums in picks:
                    trials = []
                    for ens_num in ens_nums:
                        lo = intfs[max(ens_num, 0)]
                        trials.append(structured(rng, lo, intfs[-1] if cap is None else max(cap, lo), rng.choice((5, 12, 40))))
                    status = rng.choice(("ACC", "ACC", "ACC", "BWI"))
                    got = real_md(st, tis, Path, System, exe, ens_nums, status, trials, md0)
                    md_cases.append((intfs, cap, lm1, tuple(moves), tuple(ens_nums), status, tuple(trials), got, md0 is not None))
                # subt_acceptance on the ensembles initiate_ensembles built
                for e in range(1, n_ens):
                    ens = dict(st.ensembles[e])
                    l, m, r = (int(v) for v in ens["interfaces"])
                    ops = structured(rng, m, r if cap is None else max(cap, m), rng.choice((5, 12, 30)))
                    subt_cases.append((l, m, r, cap, ens["mc_move"], ops, real_subt(tis, Path, System, ens, ops)))
    finally:
        os.chdir(cwd0)
        import shutil
        shutil.rmtree(exe, ignore_errors=True)
    if have_model:
        out_l = ctx.driver([f"loadwn {len(intfs)} {opt(lm1)} {opt(cap)} {lst(intfs)} {lst(moves)} {len(opss)} " + " ".join(lst(o) for o in opss)
                            for (intfs, cap, lm1, moves, opss, got, routed) in load_cases])
        out_m = ctx.driver([f"mdall {1 if status == 'ACC' else 0} {opt(cap)} {lst(intfs)} {lst(moves)} {len(trials)} "
                            + " ".join(lst(o) for o in trials) + f" {len(ens_nums)} " + " ".join(f"{e} {opt(lm1)}" for e in ens_nums)
                            for (intfs, cap, lm1, moves, ens_nums, status, trials, got, _r) in md_cases])
        out_s = ctx.driver([f"subtw {l} {m} {r} {opt(cap)} {mv} {lst(ops)}" for (l, m, r, cap, mv, ops, got) in subt_cases])
    for k, (intfs, cap, lm1, moves, opss, got, routed) in enumerate(load_cases):
        size = len(intfs)
        kind = "short" if len(opss) < size else ("long" if len(opss) > size else "exact")
        ctx.count(1, branch=f"callsite:load_paths:{kind}")
        rep = {"fn": "load_paths", "intfs": list(intfs), "cap": cap, "lm1": lm1, "moves": list(moves), "paths": [list(o) for o in opss],
               "via": "setup_internal"}
        if have_model and got != out_l[k]:
            ctx.disagree(rep, got, out_l[k])
        if kind == "short":
            # fewer paths than ensembles: the library refuses (IndexError); the property says nothing about such a call,
            # only model and code are compared
            continue
        if got.startswith("err"):
            ctx.fail("C10:load-paths-raises", f"load_paths raised {got}", rep)
            continue
        want = want_load(intfs, cap, moves, opss)
        # surplus paths (beyond the state's size): whether they are left alone is compared model-vs-code only
        entries = lambda t: re.findall(r"\[[^\]]*\]|-", t.split(" ", 1)[1] if " " in t else "")  # noqa: E731
        if entries(got)[:size] != entries(want)[:size] or len(entries(got)) != len(opss):
            ctx.fail("C10:load-paths-weights", f"weights given by load_paths {got}; frames on valid sub-paths of [λ_i, cap={cap}) give {want}",
                     dict(rep, code=got, spec=want))
        elif not routed:
            ctx.fail("C10:load-paths-weights-not-stored", "weights handed to add_traj / traj_data differ from path.weights", rep)
        ctx.distinct(("load", intfs, cap, moves, opss))
        if k % 61 == 0:
            ctx.sample(dict(rep, code=got))
    for k, (intfs, cap, lm1, moves, ens_nums, status, trials, got, via_setup) in enumerate(md_cases):
        ctx.count(1, branch="callsite:run_md:%d-trial%s" % (len(ens_nums), "" if via_setup else ":hand-built-md_items"))
        rep = {"fn": "run_md", "intfs": list(intfs), "cap": cap, "lm1": lm1, "moves": list(moves), "ens": list(ens_nums), "status": status,
               "ops": [list(o) for o in trials], "via": "setup_internal" if via_setup else "hand-built"}
        if have_model and got != out_m[k]:
            ctx.disagree(rep, got, out_m[k])
        want = want_md_all(intfs, cap, lm1, moves, ens_nums, status, trials)
        if got != want:
            if status != "ACC":
                ctx.fail("C10:run-md-weights-on-rejected-move", f"a rejected move left {got}", rep)
            else:
                ctx.fail("C10:run-md-weights", f"weights given by run_md {got} for the trials of ensembles {list(ens_nums)}; frames on valid "
                         f"sub-paths of [λ_i, cap={cap}) give {want}", dict(rep, code=got, spec=want))
        if status == "ACC":
            ctx.distinct(("md", intfs, cap, moves, ens_nums, trials))
    for k, (l, m, r, cap, mv, ops, got) in enumerate(subt_cases):
        ctx.count(1, branch=f"callsite:subt_acceptance:{mv}")
        rep = {"fn": "subt_acceptance", "intfs": [l, m, r], "cap": cap, "move": mv, "ops": list(ops)}
        if have_model and got != out_s[k]:
            ctx.disagree(rep, got, out_s[k])
        rr = (r if cap is None else cap) if mv == "wf" else r
        if not got.startswith("err") and l <= rr and m <= rr:
            want = str(py_cw(ops, l, m, rr, mv))
            if got != want:
                ctx.fail("C10:subt-acceptance-weight", f"path.weight {got}; frames on valid sub-paths of [{m}, {rr}) give {want}",
                         dict(rep, code=got, spec=want))


def seed2_part(ctx, Path, System, tis, have_model, code_move_seed):
    """the real wire_fencing up to its first shoot with the FRAMES of the seed (not only indices) and the path's maxlen"""
    rng = ctx.rng
    cases = []
    for _ in range(400 if ctx.quick else 8000):
        i0 = rng.choice((-4, 0))
        i1 = i0 + rng.choice((0, 1, 2))
        i2 = i1 + rng.choice((2, 3, 5))
        cap = rng.choice((None, i2, i2 - 1, i1 + 1, 0 if i1 <= 0 else i1 + 1))
        capv = i2 if cap is None else cap
        ops = structured(rng, i1, capv, rng.choice((6, 15, 40, 100)))
        n, segs = py_spec(ops, i1, capv)
        x = rng.choice(xi_grid(segs, n)) if n else Fraction(1, 2)
        cases.append((i0, i1, i2, cap, ops, x))
    code = []
    for (i0, i1, i2, cap, ops, x) in cases:
        c = code_move_seed(tis, Path, System, (i0, i1, i2), cap, ops, float(x))
        if "err" in c:
            code.append(c["err"])
        elif not c["calls"]:
            code.append("none")
        else:
            sub, idx, _sc = c["calls"][0]
            ok = idx == list(range(idx[0], idx[0] + len(idx))) and idx[0] >= 0
            code.append(f"{nums(sub)} | {idx[0]} | {lst([ops[j] for j in idx])} | 10000 | 1" if ok else f"noncontiguous:{idx}")
    if have_model:
        out = ctx.driver([f"wfseed2 10000 {i1} {i2} {opt(cap)} {frac_token(x)} {lst(ops)}" for (i0, i1, i2, cap, ops, x) in cases])
    for k, (i0, i1, i2, cap, ops, x) in enumerate(cases):
        ctx.count(1, branch="move_seed_frames")
        rep = {"fn": "wire_fencing", "intfs": [i0, i1, i2], "cap": cap, "ops": list(ops), "xi": str(x)}
        if have_model and code[k] != out[k]:
            ctx.disagree(rep, code[k], out[k])
        capv = i2 if cap is None else cap
        n, segs = py_spec(ops, i1, capv)
        if n:
            a, b, c = spec_pick(segs, n, x)
            want = f"{lst([i1, i1, capv])} | {a} | {lst(ops[a:b + 1])} | 10000 | 1"
        else:
            want = "none"
        if code[k] != want:
            ctx.fail("C10:move-seed-frames", f"wire_fencing seeds its jumps with {code[k]}; the valid sub-paths of [{i1}, {capv}) and "
                     f"ξ={x} give {want}", dict(rep, code=code[k], spec=want))


# ----------------------------------------------------------------------------------------------- single cases (replay)
def want_vec(intfs, cap, moves, ops):
    capv = intfs[-1] if cap is None else cap
    pmax = max(ops)
    v = []
    for i in range(len(intfs) - 1):
        if moves[i + 1] == "wf":
            v.append(py_cw(ops, intfs[0], intfs[i], capv, "wf"))
        else:
            v.append(1 if intfs[i] <= pmax else 0)
    return v + [0]


def make_cfg(intfs, cap, lm1, moves):
    n_ens = len(intfs)
    tis_set = {"lambda_minus_one": False if lm1 is None else float(lm1), "maxlength": 1000}
    if cap is not None:
        tis_set["interface_cap"] = float(cap)
    return {"current": {"size": n_ens, "cstep": 0, "active": list(range(n_ens)), "locked": [], "traj_num": n_ens, "frac": {}},
            "runner": {"workers": 1},
            "simulation": {"seed": 0, "steps": 10, "interfaces": [float(x) for x in intfs], "shooting_moves": list(moves),
                           "tis_set": tis_set, "load_dir": "load", "ensemble_engines": [["engine0"]] * n_ens},
            "output": {"screen": 0, "data_dir": "./", "data_file": "./infretis_data.txt", "delete_old": False}}


def make_state(R, intfs, cap, lm1, moves):
    st = R.REPEX_state(make_cfg(intfs, cap, lm1, moves), minus=True)
    st.initiate_ensembles()
    st.traj_data = {}
    return st


def show_weights(paths):
    return "%d %s" % (len(paths), " ".join("-" if p.weights is None else "[" + nums(p.weights) + "]" for p in paths))


def load_outcome(st, paths, added):
    """(weights of every given path, `-` = never looked at; True iff what add_traj / traj_data received is what the
    paths carry)"""
    got = show_weights(paths)
    seen = [p for p in paths if p.weights is not None]
    routed = [tuple(a["valid"]) == tuple(paths[a["ens"] + 1].weights) and a["traj"] is paths[a["ens"] + 1] for a in added]
    stored = [tuple(st.traj_data[p.path_number]["weights"]) == tuple(p.weights) for p in seen]
    return got, all(routed) and all(stored) and len(added) == len(seen)


def real_load(st, Path, System, opss):
    added = []
    st.add_traj = lambda **kw: added.append(kw)          # C05's business; the weights are what is judged here
    paths = [mk(o, Path, System) for o in opss]
    for k, p in enumerate(paths):
        p.path_number = k
    try:
        st.load_paths(paths)
        return load_outcome(st, paths, added)
    except Exception as e:  # noqa: BLE001
        return err_kind(e), False


def real_setup(R, Path, System, intfs, cap, lm1, moves, opss):
    """the REAL `infretis.setup.setup_internal` on a configuration with this cap: REPEX_state, initiate_ensembles,
    load_paths (on the paths `load_paths_from_disk` is made to return) and the `md_items` dict it hands to the
    scheduler — so that the cap / interfaces / moves `run_md` receives are the ones the library passes on, not ones
    this check wrote down.  Logger, engine construction and `add_traj` (C05) are replaced.
    Returns (md_items or None, state or None, load outcome)."""
    from infretis import setup as S
    added = []
    paths = [mk(o, Path, System) for o in opss]
    for k, p in enumerate(paths):
        p.path_number = k
    saved = (S.setup_logger, S.load_paths_from_disk, S.def_globals, R.REPEX_state.add_traj)
    S.setup_logger = lambda *a, **kw: None
    S.load_paths_from_disk = lambda config: paths
    S.def_globals = lambda config: {}
    R.REPEX_state.add_traj = lambda self, **kw: added.append(kw)
    try:
        try:
            md0, st = S.setup_internal(make_cfg(intfs, cap, lm1, moves))
        except Exception as e:  # noqa: BLE001
            return None, None, (err_kind(e), False)
    finally:
        S.setup_logger, S.load_paths_from_disk, S.def_globals, R.REPEX_state.add_traj = saved
    return md0, st, load_outcome(st, paths, added)


def want_load(intfs, cap, moves, opss, size=None):
    size = len(intfs) if size is None else size
    ws = ["[" + nums([1]) + "]"] + ["[" + nums(want_vec(intfs, cap, moves, o)) + "]" for o in opss[1:size]] + ["-"] * max(len(opss) - max(size, 1), 0)
    return "%d %s" % (len(opss), " ".join(ws))


def real_md(st, tis, Path, System, exe, ens_nums, status, opss, md0=None):
    """the real run_md on `md0` (the md_items of the real setup_internal; rebuilt by hand only when none is given) with
    ALL the picked ensembles of one move (two after a zero swap); select_shoot is replaced by a stub that returns the
    trials.  Result in the driver's format: `n [w…] [w…]`, `-` for a trial without weights."""
    if isinstance(ens_nums, int):
        ens_nums, opss = [ens_nums], [opss]
    trials = [mk(o, Path, System) for o in opss]
    for t in trials:
        t.generated = ("sh", 0, 0, 0)
    md = dict(md0) if md0 is not None else {"mc_moves": st.mc_moves, "interfaces": st.interfaces, "cap": st.cap}
    md.update({"picked": {e: {"ens": st.ensembles[e + 1], "exe_dir": exe, "traj": None} for e in ens_nums},
               "moves": [], "trial_len": [], "trial_op": [], "generated": []})
    real = tis.select_shoot
    tis.select_shoot = lambda picked, _t=trials, _s=status: (_s == "ACC", list(_t), _s)
    try:
        try:
            tis.run_md(md)
            got = show_weights(trials)
            for e, t in zip(ens_nums, trials):
                if (md["picked"][e]["traj"] is t) != (status == "ACC"):
                    got += " traj-not-routed"
        except Exception as e:  # noqa: BLE001
            got = err_kind(e)
    finally:
        tis.select_shoot = real
    return got


def want_md(intfs, cap, lm1, moves, ens_num, ops):
    if ens_num < 0:
        b = lm1 if lm1 is not None else intfs[0]
        return nums([1 if b <= max(ops) else 0])
    return nums(want_vec(intfs, cap, moves, ops))


def want_md_all(intfs, cap, lm1, moves, ens_nums, status, opss):
    if status != "ACC":
        return "%d %s" % (len(opss), " ".join("-" for _ in opss))
    return "%d %s" % (len(opss), " ".join("[" + want_md(intfs, cap, lm1, moves, e, o) + "]" for e, o in zip(ens_nums, opss)))


def real_subt(tis, Path, System, ens, ops):
    p = mk(ops, Path, System)

    class Eng:
        order_function = None
    try:
        tis.subt_acceptance(p, ens, Eng(), ("L",))
        return str(int(p.weight)) if float(p.weight) == int(p.weight) else repr(p.weight)
    except Exception as ex:  # noqa: BLE001
        return err_kind(ex)


def real_has(tis, Path, System, a, b, m0, m1, pa, pb, x):
    g = OneDraw(float(x))
    try:
        acc, status = tis.high_acc_swap([mk(pa, Path, System), mk(pb, Path, System)], g, [float(v) for v in a], [float(v) for v in b], [m0, m1])
        return (f"{1 if acc else 0}", status, g.calls)
    except Exception as e:  # noqa: BLE001
        return (err_kind(e), None, g.calls)


def has_ratio(a, b, m0, m1, pa, pb):
    a0, a1, a2 = a
    b0, b1, b2 = b
    if not (pa and pb and a0 <= a2 and b0 <= b2 and a1 <= a2 and b1 <= b2):
        return None
    c1o, c2o = py_cw(pa, a0, a1, a2, m0), py_cw(pb, b0, b1, b2, m1)
    c1n, c2n = py_cw(pb, a0, a1, a2, m0), py_cw(pa, b0, b1, b2, m1)
    p = Fraction(1) if (c1o == 0 or c2o == 0) else Fraction(c1n * c2n, c1o * c2o)
    return p, (c1o, c2o, c1n, c2n)


def real_segment(tis, Path, System, ml, l, r, mode, x, ops):
    p = mk(ops, Path, System, maxlen=ml)
    p.status = "ACC"
    p.time_origin = 17
    p.generated = ("sh", 0, 0, 0)
    ids = {id(s): k for k, s in enumerate(p.phasepoints)}
    g = OneDraw(float(x))
    try:
        if mode == "seg":
            n, seg = tis.wirefence_weight_and_pick(p, float(l), float(r), return_seg=True, ens_set={"rgen": g})
        elif mode == "noret":
            n, seg = tis.wirefence_weight_and_pick(p, float(l), float(r), return_seg=False, ens_set={"rgen": g})
        else:
            n, seg = tis.wirefence_weight_and_pick(p, float(l), float(r), return_seg=True)
    except Exception as e:  # noqa: BLE001
        return (err_kind(e), None)
    idx = [ids.get(id(s), -1) for s in seg.phasepoints]
    contiguous = idx == list(range(idx[0], idx[0] + len(idx))) if idx else True
    copied = seg.length > 0 or seg.generated == "ct"
    attrs_ok = (seg.status == "ACC" and seg.time_origin == 17 and seg.generated == "ct") if copied else \
        (seg.status == "" and seg.time_origin == 0 and seg.generated is None)
    shown = (f"{int(n)} | {idx[0] if idx else 0} | {nums([s.order[0] for s in seg.phasepoints])} | {opt(seg.maxlen)} | "
             f"{1 if copied else 0} | {g.calls}")
    return (shown, {"contiguous": contiguous and (not idx or idx[0] >= 0), "attrs_ok": attrs_ok, "idx": idx})


def judge_segment(ml, l, r, mode, x, ops, info):
    """None if fine, else (signature, text)"""
    n, segs = py_spec(ops, l, r)
    want = spec_pick(segs, n, x) if (n and mode == "seg") else None
    fits = want is not None and (ml is None or want[2] + 2 <= ml)
    if not info["contiguous"] or not info["attrs_ok"]:
        return "C10:segment-not-the-paths-own-frames", f"segment frames {info['idx']} / attributes not those of the path"
    if want is None:
        if info["idx"]:
            return "C10:segment-without-weight-or-request", f"a segment {info['idx']} came back in mode {mode}, weight {n}"
    elif fits:
        a, b, c = want
        if info["idx"] != list(range(a, b + 1)):
            return ("C10:segment-frames-not-the-valid-subpath",
                    f"segment frames {info['idx']}, the valid sub-path selected by ξ={x} is frames {a}..{b}")
        fr = [ops[j] for j in info["idx"]]
        inside = lambda v: l <= v < r  # noqa: E731
        if inside(fr[0]) or inside(fr[-1]) or not all(inside(v) for v in fr[1:-1]) or (fr[0] >= r and fr[-1] >= r):
            return "C10:segment-ends-not-outside", f"segment {fr}"
    return None


def real_cvfull(tis, Path, System, minus, lm1, cap, intfs, moves, ops, container, cols):
    import numpy as np
    p = mk(ops, Path, System, cols=cols)
    fi = [float(x) for x in intfs]
    arg = fi if container == "list" else (tuple(fi) if container == "tuple" else np.array(fi))
    mv = list(moves) if container != "tuple" else tuple(moves)
    try:
        v = tis.calc_cv_vector(p, arg, mv, lambda_minus_one=False if lm1 is None else float(lm1),
                               cap=None if cap is None else float(cap), minus=minus)
        return nums(v) if isinstance(v, tuple) else f"not-a-tuple:{type(v).__name__}"
    except Exception as e:  # noqa: BLE001
        return err_kind(e)


def judge_cvfull(minus, lm1, cap, intfs, moves, ops, code):
    """list of (signature, text)"""
    out = []
    if not ops or code.startswith("err") or code.startswith("not"):
        return out
    vals = code.split()[1:]
    pmax = max(ops)
    if minus:
        b = lm1 if lm1 is not None else intfs[0]
        if vals != ["1" if b <= pmax else "0"]:
            out.append(("C10:minus-vector" if lm1 is None else "C10:minus-vector-lambda-minus-one",
                        f"[0-] weight vector {code}, bound {b}, max {pmax}"))
        return out
    n = len(intfs)
    ok = len(vals) == max(n, 1) and vals[-1] == "0"
    capv = (intfs[-1] if cap is None else cap) if n else None
    for i in range(n - 1):
        if i + 1 >= len(moves) or i >= len(vals):
            ok = False
            break
        if moves[i + 1] == "wf":
            if intfs[0] <= capv and intfs[i] <= capv:
                want = py_cw(ops, intfs[0], intfs[i], capv, "wf")
                if vals[i] != str(want):
                    out.append(("C10:cv-vector-wf-entry", f"wire-fencing entry {i} of the weight vector is {vals[i]}, the frames "
                                f"on valid sub-paths of [{intfs[i]}, {capv}) give {want}"))
        else:
            ok = ok and vals[i] == ("1" if intfs[i] <= pmax else "0")
    if not ok:
        out.append(("C10:cv-vector-shape", f"weight vector {code} for sh entries/last interface"))
    return out


def replay_ext(r, Path, System, tis):
    """re-run one recorded failing input of the extension parts; None = not one of ours"""
    from infretis.classes import repex as R
    fn = r.get("fn")
    if r.get("what") == "path_arr":
        tr = ScanTracer(tis.wirefence_weight_and_pick.__code__)
        prev = sys.gettrace()
        sys.settrace(tr.glob)
        try:
            try:
                tis.wirefence_weight_and_pick(mk(r["ops"], Path, System), float(r["l"]), float(r["r"]))
            except Exception as e:  # noqa: BLE001
                print("code:", err_kind(e))
                return 1
        finally:
            sys.settrace(prev)
        want = py_spec(r["ops"], r["l"], r["r"])[1]
        print("code:", tr.final_arr, "spec:", want)
        return 0 if tr.final_arr is None or list(tr.final_arr) == list(want) else 1
    if fn == "float-class":
        return replay_float(r, Path, System, tis)
    if fn == "swap-then-wf":
        return replay_swap_then_wf(r, Path, System, tis)
    if fn in ("load_paths", "run_md", "subt_acceptance"):
        exe = tempfile.mkdtemp(prefix="vp-c10-", dir="/var/tmp")
        cwd0 = os.getcwd()
        try:
            os.chdir(exe)
            if fn == "subt_acceptance":
                l, m, rr0 = r["intfs"]
                ts = {"maxlength": 1000}
                if r["cap"] is not None:
                    ts["interface_cap"] = float(r["cap"])
                ens = {"interfaces": (float(l), float(m), float(rr0)), "tis_set": ts, "mc_move": r["move"]}
                got = real_subt(tis, Path, System, ens, r["ops"])
                rr = (rr0 if r["cap"] is None else r["cap"]) if r["move"] == "wf" else rr0
                want = str(py_cw(r["ops"], l, m, rr, r["move"]))
            else:
                if fn == "load_paths":
                    size = len(r["intfs"])
                    if r.get("via") == "setup_internal":
                        md0, st, (got, routed) = real_setup(R, Path, System, r["intfs"], r["cap"], r["lm1"], r["moves"], r["paths"])
                    else:
                        st = make_state(R, r["intfs"], r["cap"], r["lm1"], r["moves"])
                        got, routed = real_load(st, Path, System, r["paths"])
                    want = "err:index" if len(r["paths"]) < size else want_load(r["intfs"], r["cap"], r["moves"], r["paths"])
                    if got == want and not routed and not got.startswith("err"):
                        got += " (not stored)"
                else:
                    ens_nums = r["ens"] if isinstance(r["ens"], list) else [r["ens"]]
                    trials = r["ops"] if isinstance(r["ens"], list) else [r["ops"]]
                    md0 = None
                    st = None
                    if r.get("via") == "setup_internal":
                        paths = [[1, -1, 1]] + [[-1, 1, -1]] * (len(r["intfs"]) - 1)
                        md0, st, _ = real_setup(R, Path, System, r["intfs"], r["cap"], r["lm1"], r["moves"], paths)
                    if st is None:
                        st = make_state(R, r["intfs"], r["cap"], r["lm1"], r["moves"])
                        md0 = None
                    got = real_md(st, tis, Path, System, exe, ens_nums, r["status"], trials, md0)
                    want = want_md_all(r["intfs"], r["cap"], r["lm1"], r["moves"], ens_nums, r["status"], trials)
        finally:
            os.chdir(cwd0)
            import shutil
            shutil.rmtree(exe, ignore_errors=True)
        print("code:", got, "spec:", want)
        return 0 if got == want else 1
    if fn == "high_acc_swap":
        x = Fraction(r["xi"])
        acc, status, calls = real_has(tis, Path, System, r["intf0"], r["intf1"], r["moves"][0], r["moves"][1], r["pa"], r["pb"], x)
        pr = has_ratio(r["intf0"], r["intf1"], r["moves"][0], r["moves"][1], r["pa"], r["pb"])
        want = None if pr is None else ("1" if x < pr[0] else "0")
        print("code:", acc, status, calls, "spec:", want, "ratio:", None if pr is None else pr[0])
        bad = status is not None and ((acc, status) not in (("1", "ACC"), ("0", "HAS")) or calls != 1)
        return 1 if bad or (want is not None and status is not None and acc != want) else 0
    if fn == "wirefence_weight_and_pick(segment)":
        x = Fraction(r["xi"])
        shown, info = real_segment(tis, Path, System, r["maxlen"], r["l"], r["r"], r["mode"], x, tuple(r["ops"]))
        print("code:", shown)
        if info is None:
            return 1
        return 1 if judge_segment(r["maxlen"], r["l"], r["r"], r["mode"], x, tuple(r["ops"]), info) else 0
    if fn == "calc_cv_vector(all arguments)":
        cols = None if r["cols"] is None else [tuple(c) for c in r["cols"]]
        code = real_cvfull(tis, Path, System, r["minus"], r["lm1"], r["cap"], tuple(r["intfs"]), tuple(r["moves"]), tuple(r["ops"]),
                           r["container"], cols)
        bad = judge_cvfull(r["minus"], r["lm1"], r["cap"], tuple(r["intfs"]), tuple(r["moves"]), tuple(r["ops"]), code)
        print("code:", code, "failed:", [b[0] for b in bad])
        return 1 if bad else 0
    if fn == "compute_weight" or ("intfs" in r and "ops" in r and fn is None and "moves_tail" not in r and "cap" not in r):
        i0, i1, i2 = r["intfs"]
        mv = r.get("move", "wf")
        try:
            v = tis.compute_weight(mk(r["ops"], Path, System), [float(i0), float(i1), float(i2)], mv)
            got = str(int(v)) if float(v) == int(v) else repr(v)
        except Exception as e:  # noqa: BLE001
            got = err_kind(e)
        want = str(py_cw(r["ops"], i0, i1, i2, mv))
        print("code:", got, "spec:", want)
        return 0 if got == want else 1
    return None


# ----------------------------------------------------------------------------------------------- float class
# Order values that are NOT on a small integer / dyadic grid: values at an interface ± k ulp (double precision) and
# ± k·2⁻²⁴ relative (single-precision resolution), runs of nearly equal maxima / minima with the true extreme not first.
# The Lean model compares exactly (ℤ): every double is a dyadic rational, so all values of a case are multiplied by
# their common power-of-two denominator and sent as (big) integers — exact, order and equality preserving.
import math


def near(rng, x):
    """a double next to x: a few ulps away, or a few single-precision steps away"""
    kind = rng.choice(("ulp", "ulp", "f32", "f32", "f32half", "same"))
    k = rng.choice((1, 1, 2, 3)) * rng.choice((-1, 1))
    if kind == "same":
        return x
    if kind == "ulp":
        y = x
        for _ in range(abs(k)):
            y = math.nextafter(y, math.inf if k > 0 else -math.inf)
        return y
    rel = 2.0 ** -24 if kind == "f32" else 2.0 ** -26
    y = x * (1.0 + k * rel) if x != 0.0 else k * 2.0 ** -150
    return y


def scaler(values):
    """x ↦ x·D as an int, D the common (power of two) denominator of all the doubles given"""
    D = 1
    for v in values:
        if v is not None:
            D = max(D, Fraction(v).denominator)
    return lambda v: None if v is None else int(Fraction(v) * D)


def float_path(rng, marks, L):
    """a path over the marks (interfaces, cap) and points between/around them, most of them perturbed by `near`;
    contains runs of nearly equal values whose largest / smallest member is not the first"""
    marks = sorted(set(marks))
    lo, hi = marks[0], marks[-1]
    span = (hi - lo) or 1.0
    pts = list(marks) + [lo - 0.37 * span, hi + 0.41 * span] + [(a + b) / 2 for a, b in zip(marks, marks[1:])]
    ops = []
    while len(ops) < L:
        c = rng.choice(pts)
        if rng.random() < 0.35:                       # a run of near-ties around c, extreme somewhere inside
            run = [near(rng, c) for _ in range(rng.randint(2, 5))]
            run.insert(rng.randint(1, len(run)), max(run) + abs(max(run)) * 2.0 ** -25 if rng.random() < 0.5
                       else min(run) - abs(min(run)) * 2.0 ** -25)
            ops += run
        else:
            ops.append(near(rng, c) if rng.random() < 0.7 else c)
    return tuple(ops[:L]) if rng.random() < 0.5 else tuple(ops)


def float_cases(ctx):
    rng = ctx.rng
    sets = [(0.1, 0.3, 0.5), (-0.2, 0.0, 0.25, 0.7), (0.5, 0.5000001, 1.0), (1e-3, 2e-3, 3e-3, 5e-3), (-1.5, -0.9, -0.3),
            (0.0, 1.0)]
    cases = []
    for _ in range(900 if ctx.quick else 15000):
        intfs = rng.choice(sets)
        n = len(intfs)
        cap = rng.choice((None, None, intfs[-1], (intfs[-2] + intfs[-1]) / 2, near(rng, intfs[-1])))
        marks = list(intfs) + ([cap] if cap is not None else [])
        ops = float_path(rng, marks, rng.choice((3, 5, 8, 14, 30)))
        # the very witness shape of a single-precision tie: max exactly on an interface, a value just below it first
        if rng.random() < 0.15:
            lam = rng.choice(intfs)
            below = lam * (1 - 2.0 ** -26) if lam > 0 else (lam * (1 + 2.0 ** -26) if lam < 0 else -2.0 ** -150)
            ops = (intfs[0] - 0.1, below, lam, below, intfs[0] - 0.1)
        moves = tuple(["sh"] + [rng.choice(("sh", "wf", "wf")) for _ in range(n - 1)])
        lm1 = rng.choice((None, None, intfs[0] - 0.05, near(rng, intfs[0])))
        cases.append((intfs, cap, lm1, moves, ops))
    return cases


def float_part(ctx, Path, System, tis, have_model):
    from infretis.classes import repex as R
    cases = float_cases(ctx)
    rows = []
    exe = tempfile.mkdtemp(prefix="vp-c10f-", dir="/var/tmp")
    cwd0 = os.getcwd()
    try:
        os.chdir(exe)
        for ci, (intfs, cap, lm1, moves, ops) in enumerate(cases):
            rev = ops[::-1]
            capv = intfs[-1] if cap is None else cap
            k = ci % (len(intfs) - 1)
            l = intfs[k]
            row = {}
            # ordermax / ordermin
            p = mk(ops, Path, System)
            try:
                (vmax, imax), (vmin, imin) = p.ordermax, p.ordermin
                row["ext"] = (float(vmax), int(imax), float(vmin), int(imin))
            except Exception as e:  # noqa: BLE001
                row["ext"] = err_kind(e)
            # wirefence weight forward / reversed, compute_weight
            def w(o, l=l, capv=capv):
                try:
                    return int(tis.wirefence_weight_and_pick(mk(o, Path, System), l, capv)[0])
                except Exception as e:  # noqa: BLE001
                    return err_kind(e)
            row["w"], row["wr"] = w(ops), w(rev)
            try:
                v = tis.compute_weight(mk(ops, Path, System), [intfs[0], l, capv], "wf")
                row["cw"] = str(int(v)) if float(v) == int(v) else repr(v)
            except Exception as e:  # noqa: BLE001
                row["cw"] = err_kind(e)
            # weight vector: plus forward / reversed, minus
            row["cv"] = real_cvfull(tis, Path, System, False, lm1, cap, intfs, moves, ops, "list", None)
            row["cvr"] = real_cvfull(tis, Path, System, False, lm1, cap, intfs, moves, rev, "list", None)
            row["cvm"] = real_cvfull(tis, Path, System, True, lm1, cap, intfs, moves, ops, "list", None)
            # load_paths on a few (the path as every plus path)
            if ci % 9 == 0:
                st = make_state(R, intfs, cap, None, moves)
                opss = tuple([ops] * len(intfs))
                row["load"] = real_load(st, Path, System, opss)
            rows.append(row)
    finally:
        os.chdir(cwd0)
        import shutil
        shutil.rmtree(exe, ignore_errors=True)
    if have_model:
        lines, where = [], []
        for ci, (intfs, cap, lm1, moves, ops) in enumerate(cases):
            sc = scaler(list(intfs) + [cap, lm1] + list(ops))
            capv = intfs[-1] if cap is None else cap
            l = intfs[ci % (len(intfs) - 1)]
            I, O = [sc(x) for x in intfs], [sc(x) for x in ops]
            lines.append(f"weight {sc(l)} {sc(capv)} {lst(O)}")
            lines.append(f"weight {sc(l)} {sc(capv)} {lst(O[::-1])}")
            lines.append(f"cwm {I[0]} {sc(l)} {sc(capv)} wf {lst(O)}")
            lines.append(f"cvfull 0 {opt(sc(lm1))} {opt(sc(cap))} {lst(I)} {lst(moves)} {lst(O)}")
            lines.append(f"cvfull 1 {opt(sc(lm1))} {opt(sc(cap))} {lst(I)} {lst(moves)} {lst(O)}")
            if "load" in rows[ci]:
                lines.append(f"loadw - {opt(sc(cap))} {lst(I)} {lst(moves)} {len(I)} " + " ".join(lst(O) for _ in I))
                where.append((ci, "load"))
        out = ctx.driver(lines)
        it = iter(out)
    for ci, (intfs, cap, lm1, moves, ops) in enumerate(cases):
        ctx.count(1, branch="float_class")
        row = rows[ci]
        capv = intfs[-1] if cap is None else cap
        l = intfs[ci % (len(intfs) - 1)]
        rep = {"fn": "float-class", "intfs": [x.hex() for x in intfs], "cap": None if cap is None else cap.hex(),
               "lm1": None if lm1 is None else lm1.hex(), "moves": list(moves), "ops": [x.hex() for x in ops], "k": ci % (len(intfs) - 1),
               "decimal": {"intfs": list(intfs), "cap": cap, "ops": list(ops)}}
        if have_model:
            m_w, m_wr, m_cw, m_cv, m_cvm = (next(it).split(" | ")[0], next(it).split(" | ")[0], next(it), next(it), next(it))
            for name, code, model in (("weight", str(row["w"]), m_w), ("weight(reversed)", str(row["wr"]), m_wr),
                                      ("compute_weight", row["cw"], m_cw), ("calc_cv_vector", row["cv"], m_cv),
                                      ("calc_cv_vector(minus)", row["cvm"], m_cvm)):
                if code != model:
                    ctx.disagree(dict(rep, what=name), code, model)
            if "load" in row:
                m_load = next(it)
                if row["load"][0] != m_load:
                    ctx.disagree(dict(rep, what="load_paths"), row["load"][0], m_load)
        for sig, text in judge_float(intfs, cap, lm1, moves, ops, l, capv, row):
            ctx.fail(sig, text, rep)
        ctx.distinct(("float", intfs, cap, moves, ops))
        if ci % 1999 == 0:
            ctx.sample(dict(rep, code=row["cv"]))


def judge_float(intfs, cap, lm1, moves, ops, l, capv, row):
    """the property on the implementation's own output, every comparison exact (Python compares doubles exactly)"""
    out = []
    hi, lo = max(ops), min(ops)
    e = row["ext"]
    if isinstance(e, str):
        out.append(("C10:ordermax-raises", f"ordermax/ordermin raised {e}"))
    else:
        vmax, imax, vmin, imin = e
        if vmax != hi or not (0 <= imax < len(ops)) or ops[imax] != hi:
            out.append(("C10:ordermax-not-the-maximum", f"ordermax = ({vmax!r}, {imax}) but the largest order value is {hi!r}"))
        if vmin != lo or not (0 <= imin < len(ops)) or ops[imin] != lo:
            out.append(("C10:ordermin-not-the-minimum", f"ordermin = ({vmin!r}, {imin}) but the smallest order value is {lo!r}"))
    if l <= capv:
        sw = py_spec(ops, l, capv)[0]
        if row["w"] != sw:
            out.append(("C10:weight-ne-spec", f"wirefence weight {row['w']} ≠ number of frames on valid sub-paths {sw}"))
        if row["wr"] != row["w"]:
            out.append(("C10:weight-not-reversal-symmetric", f"weight {row['w']} but {row['wr']} for the time-reversed path"))
        if intfs[0] <= capv and row["cw"] != str(py_cw(ops, intfs[0], l, capv, "wf")):
            out.append(("C10:compute-weight-doubling", f"compute_weight {row['cw']}, expected {py_cw(ops, intfs[0], l, capv, 'wf')}"))
    out += judge_cvfull(False, lm1, cap, intfs, moves, ops, row["cv"])
    out += judge_cvfull(True, lm1, cap, intfs, moves, ops, row["cvm"])
    if not row["cv"].startswith("err"):
        vals = row["cv"].split()[1:]
        for i in range(len(intfs) - 1):            # entry k non-zero ⇔ λ_k ≤ max(order), for shooting ensembles
            if i + 1 < len(moves) and moves[i + 1] != "wf" and i < len(vals) and (vals[i] != "0") != (intfs[i] <= hi):
                out.append(("C10:cv-vector-crossing-vs-exact-maximum",
                            f"entry {i} is {vals[i]} although λ_{i} = {intfs[i]!r} {'≤' if intfs[i] <= hi else '>'} max(order) = {hi!r}"))
    if row["cvr"] != row["cv"]:
        out.append(("C10:cv-vector-not-reversal-symmetric", f"weight vector {row['cv']} but {row['cvr']} for the time-reversed path"))
    if "load" in row:
        got, routed = row["load"]
        opss = tuple([ops] * len(intfs))
        if got.startswith("err"):
            out.append(("C10:load-paths-raises", f"load_paths raised {got}"))
        elif all(x <= capv for x in intfs) and got != want_load(intfs, cap, moves, opss):
            out.append(("C10:load-paths-weights", f"weights given by load_paths {got}; expected {want_load(intfs, cap, moves, opss)}"))
    return out


def replay_float(r, Path, System, tis):
    from infretis.classes import repex as R
    fh = float.fromhex
    intfs = tuple(fh(x) for x in r["intfs"])
    cap = None if r["cap"] is None else fh(r["cap"])
    lm1 = None if r["lm1"] is None else fh(r["lm1"])
    ops = tuple(fh(x) for x in r["ops"])
    moves = tuple(r["moves"])
    capv = intfs[-1] if cap is None else cap
    l = intfs[r["k"]]
    p = mk(ops, Path, System)
    row = {}
    try:
        (vmax, imax), (vmin, imin) = p.ordermax, p.ordermin
        row["ext"] = (float(vmax), int(imax), float(vmin), int(imin))
    except Exception as e:  # noqa: BLE001
        row["ext"] = err_kind(e)
    def w(o):
        try:
            return int(tis.wirefence_weight_and_pick(mk(o, Path, System), l, capv)[0])
        except Exception as e:  # noqa: BLE001
            return err_kind(e)
    row["w"], row["wr"] = w(ops), w(ops[::-1])
    try:
        v = tis.compute_weight(mk(ops, Path, System), [intfs[0], l, capv], "wf")
        row["cw"] = str(int(v)) if float(v) == int(v) else repr(v)
    except Exception as e:  # noqa: BLE001
        row["cw"] = err_kind(e)
    row["cv"] = real_cvfull(tis, Path, System, False, lm1, cap, intfs, moves, ops, "list", None)
    row["cvr"] = real_cvfull(tis, Path, System, False, lm1, cap, intfs, moves, ops[::-1], "list", None)
    row["cvm"] = real_cvfull(tis, Path, System, True, lm1, cap, intfs, moves, ops, "list", None)
    exe = tempfile.mkdtemp(prefix="vp-c10f-", dir="/var/tmp")
    cwd0 = os.getcwd()
    try:
        os.chdir(exe)
        row["load"] = real_load(make_state(R, intfs, cap, None, moves), Path, System, tuple([ops] * len(intfs)))
    finally:
        os.chdir(cwd0)
        import shutil
        shutil.rmtree(exe, ignore_errors=True)
    bad = judge_float(intfs, cap, lm1, moves, ops, l, capv, row)
    print("code:", row)
    for sig, text in bad:
        print("still fails:", sig, text)
    return 1 if bad else 0


# ----------------------------------------------------------------------------------------------- zero swap, then wf in [0+]
def swap_then_wf_cases(ctx):
    from props import c11
    rng = ctx.rng
    cases = []
    for _ in range(120 if ctx.quick else 2500):
        lamN = rng.choice((5, 5, 6))
        cap = rng.choice((None, None, None, 3, 4, lamN))
        mid = rng.choice((2, 3))
        wf0 = rng.random() < 0.15
        inner = lambda k: [rng.choice((1, 2, 2, 3, 4, 4)) for _ in range(k)]  # noqa: E731
        o1 = [rng.choice((-1, 0))] + inner(rng.randint(2, 8)) + [rng.choice((-1, -1, lamN + 1))]
        o0 = [1] + [rng.choice((-1, -2)) for _ in range(rng.randint(1, 3))] + [1]
        fw = inner(rng.randint(1, 8)) + [rng.choice((-1, -1, lamN + 1))]
        bw = [rng.choice((-1, -2)) for _ in range(rng.randint(0, 3))] + [1]
        c = {"kind": "retis", "tag": "c10-swap-then-wf",
             "e0": c11.ens((c11.NEG, 0, 0), 1000, (False, True), wf0, cap), "e1": c11.ens((0, 0, lamN), 1000, (True, False), True, cap),
             "old0": [(o, (100 + k, 1), False, 0) for k, o in enumerate(o0)],
             "old1": [(o, (200 + k, 1), False, 0) for k, o in enumerate(o1)],
             "scripts": [c11.mk_script(bw, 300, -1), c11.mk_script(fw, 400, 1)], "xi": Fraction(0)}
        cases.append({"c": c, "intfs": (0, mid, lamN), "cap": cap, "moves": ("wf" if wf0 else "sh", "wf", rng.choice(("sh", "wf"))),
                      "xi2": None})
    return cases


def run_swap_then_wf(W, R, tis, Path, System, case, xi2_of):
    """the real retis_swap_zero on the ensemble dicts REPEX_state.initiate_ensembles builds (ONE tis_set shared by all
    ensembles), then the real wire_fencing (up to its first shoot) in [0+] on the SAME dicts and the returned path"""
    st = make_state(R, case["intfs"], case["cap"], None, case["moves"])
    tis_set = st.config["simulation"]["tis_set"]
    before = {k: v for k, v in tis_set.items()}
    live = {"ens": (st.ensembles[0], st.ensembles[1])}
    r = W.run(case["c"], live=live)
    if "err" in r:
        return {"swap": r["err"]}
    path1 = r["objs"][1]
    ops1 = tuple(int(s.order[0]) for s in path1.phasepoints)
    after = {k: v for k, v in tis_set.items() if k != "accept_all"}
    res = {"swap": ("ACC" if r["accept"] else r["status"]), "ops1": ops1,
           "settings_changed": {k: (before.get(k, "<absent>"), after.get(k, "<absent>")) for k in set(before) | set(after)
                                if before.get(k, "<absent>") != after.get(k, "<absent>")}}
    if not r["accept"]:
        return res
    # the weight vector run_md gives the new [0+] path
    try:
        res["cv"] = nums(tis.calc_cv_vector(path1, st.interfaces, st.mc_moves, tis_set["lambda_minus_one"], cap=st.cap, minus=False))
    except Exception as e:  # noqa: BLE001
        res["cv"] = err_kind(e)
    xi2 = xi2_of(ops1)
    res["xi2"] = xi2
    ens1 = st.ensembles[1]
    g = OneDraw(float(xi2))
    ens1["rgen"] = g
    ids = {id(s): k for k, s in enumerate(path1.phasepoints)}
    calls = []

    def probe(sub_ens, segment, engine, start_cond=("L",)):
        calls.append((list(sub_ens["interfaces"]), [ids.get(id(f), -1) for f in segment.phasepoints]))
        return False, segment, "BTL"
    real = tis.shoot
    tis.shoot = probe
    try:
        try:
            ok, out, status = tis.wire_fencing(ens1, path1, None)
            if not calls:
                res["seed"] = "none"
            else:
                sub, idx = calls[0]
                res["seed"] = f"{nums(sub)} | {idx[0]} | {lst([ops1[j] for j in idx]) if min(idx) >= 0 else idx}"
            res["draws"] = g.calls
        except Exception as e:  # noqa: BLE001
            res["seed"] = err_kind(e)
    finally:
        tis.shoot = real
    return res


def want_seed(intfs, cap, ops1, xi2):
    capv = intfs[-1] if cap is None else cap
    n, segs = py_spec(ops1, intfs[0], capv)
    if not n:
        return "none", 0
    a, b, _c = spec_pick(segs, n, xi2)
    return f"{lst([intfs[0], intfs[0], capv])} | {a} | {lst(ops1[a:b + 1])}", n


def swap_then_wf_part(ctx, Path, System, tis, have_model):
    from infretis.classes import repex as R
    from props import c11
    rng = ctx.rng
    cases = swap_then_wf_cases(ctx)
    W = c11.World()
    cwd0 = os.getcwd()
    exe = tempfile.mkdtemp(prefix="vp-c10s-", dir="/var/tmp")

    def xi2_of_factory(case):
        def f(ops1):
            capv = case["intfs"][-1] if case["cap"] is None else case["cap"]
            n, segs = py_spec(ops1, case["intfs"][0], capv)
            return rng.choice(xi_grid(segs, n)) if n else Fraction(1, 2)
        return f
    results = []
    try:
        os.chdir(exe)
        for case in cases:
            results.append(run_swap_then_wf(W, R, tis, Path, System, case, xi2_of_factory(case)))
    finally:
        os.chdir(cwd0)
        W.close()
        import shutil
        shutil.rmtree(exe, ignore_errors=True)
    todo = [(k, res) for k, res in enumerate(results) if "seed" in res]
    if have_model and todo:
        out = ctx.driver([f"wfseed2 100000 {cases[k]['intfs'][0]} {cases[k]['intfs'][-1]} {opt(cases[k]['cap'])} {frac_token(res['xi2'])} "
                          f"{lst(res['ops1'])}" for k, res in todo])
        model = {k: o for (k, _), o in zip(todo, out)}
    for k, res in enumerate(results):
        case = cases[k]
        ctx.count(1, branch="swap_then_wf:" + ("moved" if "seed" in res else "swap-" + str(res["swap"])))
        if "seed" not in res:
            continue
        rep = {"fn": "swap-then-wf", "case": case["c"], "intfs": list(case["intfs"]), "cap": case["cap"], "moves": list(case["moves"]),
               "xi2": str(res["xi2"])}
        want, n = want_seed(case["intfs"], case["cap"], res["ops1"], res["xi2"])
        if have_model:
            m = model[k]
            m_short = "none" if m == "none" else " | ".join(m.split(" | ")[:3])
            if res["seed"] != m_short:
                ctx.disagree(rep, res["seed"], m_short, note="wire_fencing in [0+] right after retis_swap_zero on the same ensemble dicts")
        if res["seed"] != want or res.get("draws") != (1 if n else 0):
            ctx.fail("C10:wf-after-zero-swap", f"after an accepted zero swap the new [0+] path {list(res['ops1'])} has weight vector {res['cv']} "
                     f"({n} frames on valid sub-paths of [λ0, cap)), but wire_fencing on the same ensemble settings seeds its jumps with "
                     f"{res['seed']} (expected {want}); settings changed by the swap: {res['settings_changed'] or 'none'}",
                     dict(rep, code=res["seed"], spec=want))
        elif res["settings_changed"]:
            ctx.fail("C10:zero-swap-rewrites-settings", f"retis_swap_zero changed the shared tis_set: {res['settings_changed']}", rep)
        if n:
            ctx.distinct(("swapwf", k, res["ops1"]))
        if k % 97 == 0:
            ctx.sample(dict(rep, code=res["seed"], cv=res["cv"]))


def replay_swap_then_wf(r, Path, System, tis):
    from infretis.classes import repex as R
    from props import c11

    def detuple(c):
        c = dict(c)
        for e in ("e0", "e1"):
            c[e] = dict(c[e], i=tuple(c[e]["i"]), sc=tuple(c[e]["sc"]))
        c["old0"] = [(o, tuple(cf), vr, vp) for (o, cf, vr, vp) in c["old0"]]
        c["old1"] = [(o, tuple(cf), vr, vp) for (o, cf, vr, vp) in c["old1"]]
        c["scripts"] = [(v0, [(o, tuple(cf), vp) for (o, cf, vp) in fr]) for (v0, fr) in c["scripts"]]
        c["xi"] = Fraction(c["xi"])
        return c
    case = {"c": detuple(r["case"]), "intfs": tuple(r["intfs"]), "cap": r["cap"], "moves": tuple(r["moves"])}
    W = c11.World()
    cwd0 = os.getcwd()
    exe = tempfile.mkdtemp(prefix="vp-c10s-", dir="/var/tmp")
    try:
        os.chdir(exe)
        res = run_swap_then_wf(W, R, tis, Path, System, case, lambda ops1: Fraction(r["xi2"]))
    finally:
        os.chdir(cwd0)
        W.close()
        import shutil
        shutil.rmtree(exe, ignore_errors=True)
    print("code:", res)
    if "seed" not in res:
        return 0
    want, n = want_seed(case["intfs"], case["cap"], res["ops1"], Fraction(r["xi2"]))
    print("spec:", want)
    return 1 if (res["seed"] != want or res.get("draws") != (1 if n else 0) or res["settings_changed"]) else 0


def run_ext(ctx, Path, System, tis, have_model, code_move_seed):
    trace_part(ctx, Path, System, tis, have_model)
    segment_part(ctx, Path, System, tis, have_model)
    cwm_part(ctx, Path, System, tis, have_model)
    cvfull_part(ctx, Path, System, tis, have_model)
    has_part(ctx, Path, System, tis, have_model)
    callsite_part(ctx, Path, System, tis, have_model)
    seed2_part(ctx, Path, System, tis, have_model, code_move_seed)
    float_part(ctx, Path, System, tis, have_model)
    swap_then_wf_part(ctx, Path, System, tis, have_model)
    for a in [
        "scan trace: the per-iteration state of the real function is read from its frame locals key_l/key_r/isave/path_arr "
        "(sys.settrace); if those names disappear the state comparison is skipped (count in scan_trace_untraced_cases)",
        "high_acc_swap: ξ is kept ≥ 3·2⁻²⁰ away from the ratio unless the ratio is dyadic, so the float quotient and the "
        "rational one compare alike",
        "call sites: state, loaded weights and md_items come from ONE call of the real setup_internal (setup_logger, "
        "load_paths_from_disk, def_globals and REPEX_state.add_traj replaced: the state matrix is C05's); run_md runs on that "
        "md_items with select_shoot replaced by a stub that returns the trial path(s) — one trial, or two as after a zero swap; "
        "when setup_internal raises (fewer paths than ensembles) run_md gets a hand-built md_items (branch ...:hand-built-md_items)",
        "float class: order values, interfaces and caps that are arbitrary doubles (interface ± k ulp, ± k·2⁻²⁴ relative, near-tie "
        "runs) reach the Lean model multiplied by their common power-of-two denominator (exact integers)",
        "two-move sequence: retis_swap_zero through C11's World on the ensemble dicts of REPEX_state.initiate_ensembles (one shared "
        "tis_set), then wire_fencing up to its first shoot in [0+] on the same dicts",
        "Path.maxlen smaller than a segment (frames refused by Path.append) is compared model-vs-code only: Path.append keeps "
        "length ≤ maxlen for every path the library builds",
    ]:
        if a not in ctx.assumptions:
            ctx.assumptions.append(a)
