"""C11 — zero swaps exchange the crossing frames and are reversible.

Tie: the real `retis_swap_zero` / `quantis_swap_zero` (with the real `EngineBase.propagate`,
`add_to_path`, `Path.append/+=/copy/reverse`, `paste_paths`, `check_interfaces`, `compute_weight`,
`high_acc_swap`) driven by a ScriptedEngine against the Lean model
`Infretis.ZeroSwap.retisSwapZero / quantisSwapZero`, plus the property predicates evaluated
directly on the real outputs:
  junction identity, ensemble membership, swap-twice identity (ReversibleEngine: exact integer
  leap-frog in a double well), the QuanTIS threshold, no engine request on the λ₋₁ early reject.

Frames are tokens `op,x,v,vr,vpot`: (x, v) is the *content* of the configuration file the
frame points to, resolved through the engine's (in-memory) file table after the move.
"""
from __future__ import annotations

import itertools
import math
import os
import shutil
import tempfile
from fractions import Fraction

from common import err_kind, frac_token, lst

# predicates that the UNCHANGED /repo fails and that are reported but not yet in known_findings.json (turned into notes)
PENDING_FINDINGS = set()

NEG = -10**6     # stands for -inf on the model side (below every order value used here)
PAD = 9            # length of the padding that keeps a scripted MD program "running"


def _imports():
    import numpy as np
    from infretis.classes.engines.enginebase import EngineBase
    from infretis.classes.path import Path
    from infretis.classes.system import System
    from infretis.core import tis
    return np, EngineBase, Path, System, tis


# --------------------------------------------------------------------------- engines
_ENGINE_CLASSES = {}


def engine_classes():
    if _ENGINE_CLASSES:
        return _ENGINE_CLASSES
    np, EngineBase, Path, System, tis = _imports()

    class ScriptedEngine(EngineBase):
        """plays scripted frames through the REAL add_to_path; files live in the table `fs`"""

        def __init__(self, eid, fs, log, scripts, exe_dir, beta=1.0):
            super().__init__("scripted", 1.0, 1)
            self.ext = "sc"
            self.eid = eid
            self.fs = fs
            self.log = log
            self.scripts = list(scripts)
            self._exe_dir = exe_dir
            self._beta = beta
            self.old_ids = set()     # id() of every frame object of the two old paths

        def fresh(self, system):
            return "OLD" if id(system) in self.old_ids else "copy"

        # -- the abstract interface of EngineBase
        def _extract_frame(self, traj_file, idx, out_file):
            self.fs[out_file] = [self.fs[traj_file][idx]]

        def _reverse_velocities(self, filename, outfile):
            self.fs[outfile] = [(x, -v) for (x, v) in self.fs[filename]]

        def _read_configuration(self, filename):
            x, v = self.fs[filename][0]
            return np.array([[float(x)]]), np.array([[float(v)]]), None, None

        def modify_velocities(self, system, vel_settings):
            return 0.0, 0.0

        def set_mdrun(self, md_items):
            self.exe_dir = md_items["exe_dir"]

        def clean_up(self):
            pass

        def dump_phasepoint(self, phasepoint, deffnm="conf"):
            c = self.fs[phasepoint.config[0]][phasepoint.config[1]]
            tag = {"second": 1, "second_last": 0}.get(deffnm, 9)
            self.log.append(f"D:{self.eid}:{tag}:{c[0]}:{c[1]}:{self.fresh(phasepoint)}")
            super().dump_phasepoint(phasepoint, deffnm)

        def next_script(self, init, reverse, maxlen):
            return self.scripts.pop(0)

        def _propagate_from(self, name, path, system, ens_set, msg_file, reverse=False):
            left, _, right = ens_set["interfaces"]
            init = self.fs[system.config[0]][system.config[1]]
            op0 = system.order[0]
            self.log.append(f"P:{self.eid}:{1 if reverse else 0}:{tok_num(op0)}:{init[0]}:{init[1]}:"
                            f"{max(0, path.maxlen)}:{tok_num(left)}:{tok_num(right)}:{self.fresh(system)}")
            v0, rest = self.next_script(init, reverse, path.maxlen)
            traj_file = os.path.join(self.exe_dir, f"{name}.{self.ext}")
            frames = [(op0, init, v0)] + list(rest)
            contents = []
            success, status = False, "program ended"
            for i, (op, c, vp) in enumerate(frames):
                contents.append(c)
                snap = {"order": [float(op), 7.5], "config": (traj_file, i), "vel_rev": reverse,
                        "vpot": None if vp is None else float(vp), "ekin": 0.0}
                pp = self.snapshot_to_system(system, snap)
                status, success, stop, _ = self.add_to_path(path, pp, left, right)
                if stop:
                    break
            self.fs[traj_file] = contents
            return success, status

    class ReversibleEngine(ScriptedEngine):
        """exact integer position-Verlet in a double well (force -x(x²-a)/k truncated, clamped to ±8):
        x½ = x+v; v' = v+F(x½); x' = x½+v'  — time-reversible on ℤ² without rounding"""

        def __init__(self, eid, fs, log, exe_dir, a, k, nsteps):
            super().__init__(eid, fs, log, [], exe_dir)
            self.a = a
            self.k = k
            self.nsteps = nsteps

        def step(self, c):
            return dw_step(self.a, self.k, c)

        def next_script(self, init, reverse, maxlen):
            rest = []
            c = init
            for _ in range(self.nsteps):
                c = self.step(c)
                rest.append((c[0], c, 0))
            return 0, rest

    from infretis.classes.orderparameter import OrderParameter

    class VelOP(OrderParameter):
        """velocity-dependent order parameter  λ = 2·x + v  (second component v), integer valued"""

        def __init__(self):
            super().__init__(description="2x+v", velocity=True)

        def calculate(self, system):
            x = system.pos[0][0]
            v = system.vel[0][0]
            return [float(2 * x + v), float(v)]

    class VelOrderEngine(ReversibleEngine):
        """the integer leap-frog engine with every frame's order parameter computed by the REAL
        `EngineBase.calculate_order(system, xyz=, vel=, box=)` (as all engines do while propagating): the stored
        velocities are handed over and calculate_order must negate them for vel_rev frames."""

        def __init__(self, eid, fs, log, exe_dir, a, k, nsteps):
            super().__init__(eid, fs, log, exe_dir, a, k, nsteps)
            self.order_function = VelOP()
            self.played = []          # the frame stream of every call, as a Script of the model

        def _propagate_from(self, name, path, system, ens_set, msg_file, reverse=False):
            left, _, right = ens_set["interfaces"]
            init = self.fs[system.config[0]][system.config[1]]
            given = system.order[0]
            conts = [init]
            for _ in range(self.nsteps):
                conts.append(self.step(conts[-1]))
            orders = [self.calculate_order(system, xyz=np.array([[float(c[0])]]), vel=np.array([[float(c[1])]]),
                                           box=np.zeros(3)) for c in conts]
            # the request as the model sees it: frame 0 carries the order value the engine computed for it
            self.log.append(f"P:{self.eid}:{1 if reverse else 0}:{tok_num(orders[0][0])}:{init[0]}:{init[1]}:"
                            f"{max(0, path.maxlen)}:{tok_num(left)}:{tok_num(right)}:{self.fresh(system)}")
            self.played.append((0, [(int(o[0]), c, 0) for o, c in zip(orders[1:], conts[1:])]))
            self.first_orders = getattr(self, "first_orders", []) + [(given, orders[0][0])]
            traj_file = os.path.join(self.exe_dir, f"{name}.{self.ext}")
            success, status = False, "program ended"
            for i, (o, c) in enumerate(zip(orders, conts)):
                snap = {"order": list(o), "config": (traj_file, i), "vel_rev": reverse, "vpot": 0, "ekin": 0.0}
                pp = self.snapshot_to_system(system, snap)
                status, success, stop, _ = self.add_to_path(path, pp, left, right)
                if stop:
                    break
            self.fs[traj_file] = conts
            return success, status

    _ENGINE_CLASSES.update(S=ScriptedEngine, R=ReversibleEngine, V=VelOrderEngine)
    return _ENGINE_CLASSES


def dw_force(a, k, x):
    q = x * (x * x - a)
    t = abs(q) // k
    f = -t if q > 0 else t
    return max(-8, min(8, f))


def dw_step(a, k, c):
    x, v = c
    xh = x + v
    v2 = v + dw_force(a, k, xh)
    return (xh + v2, v2)


def tok_num(x):
    try:
        if x == float("-inf"):
            return str(NEG)
        if float(x) == int(x):
            return str(int(x))
    except Exception:  # noqa: BLE001  (changed code may hand over anything: never crash the harness)
        pass
    return "?" + repr(x).replace(" ", "")


class OneDraw:
    def __init__(self, xi, log=None):
        self.xi = xi
        self.calls = 0
        self.log = log
        self.at = []          # number of engine requests made before each draw

    def random(self):
        self.calls += 1
        self.at.append(len(self.log) if self.log is not None else -1)
        return self.xi

    def __getattr__(self, name):
        raise AssertionError(f"unexpected draw request {name}")


class NpProxy:
    """stands in for `tis.np`: logs the argument and the value of np.exp"""

    def __init__(self, real):
        self._real = real
        self.exp_log = []

    def __getattr__(self, n):
        return getattr(self._real, n)

    def exp(self, x):
        y = self._real.exp(x)
        self.exp_log.append((x, y))
        return y


# --------------------------------------------------------------------------- cases
# a case is a dict:
#  kind: retis | quantis
#  e0, e1: dict(i=(i0,i1,i2) ints (NEG = -inf), maxlen, sc=(L,R), wf, cap)
#  old0, old1: list of frames (op, (x,v), vr, vpot)
#  scripts: list of (v0, [(op,(x,v),vpot), ...])   retis: [bw, fw]; quantis: [A, B, C, D]
#  xi: Fraction;  quantis extras: aa, beta0, beta1

def frame_tok(f):
    op, c, vr, vp = f
    return f"{op},{c[0]},{c[1]},{1 if vr else 0},{'-' if vp is None else vp}"


def gen_tok(g):
    op, c, vp = g
    return f"{op},{c[0]},{c[1]},{'-' if vp is None else vp}"


def ens_tok(e):
    i = e["i"]
    return (f"{i[0]} {i[1]} {i[2]} {e['maxlen']} {int(e['sc'][0])} {int(e['sc'][1])} {int(e['wf'])} "
            f"{'-' if e['cap'] is None else e['cap']}")


def script_tok(s):
    v0, rest = s
    return f"{'-' if v0 is None else v0} {lst(rest, gen_tok)}"


def case_line(c, p=Fraction(1)):
    head = f"{c['kind']} {ens_tok(c['e0'])} {ens_tok(c['e1'])} {lst(c['old0'], frame_tok)} {lst(c['old1'], frame_tok)}"
    if c["kind"] == "retis":
        return f"{head} {script_tok(c['scripts'][0])} {script_tok(c['scripts'][1])} {frac_token(c['xi'])}"
    if c["kind"] == "retisdet":
        return (f"retisdet {c['a']} {c['k']} {c['n']} {ens_tok(c['e0'])} {ens_tok(c['e1'])} {lst(c['old0'], frame_tok)} "
                f"{lst(c['old1'], frame_tok)} {frac_token(c['xi'])}")
    return (f"{head} {' '.join(script_tok(s) for s in c['scripts'])} {int(c['aa'])} "
            f"{frac_token(c['beta0'])} {frac_token(c['beta1'])} {frac_token(c['xi'])} {frac_token(p)}")


def fl(x):
    return float("-inf") if x == NEG else float(x)


def start_cond(sc, form=0):
    """the same set of allowed start sides in the representations configs / tests use"""
    L, R = sc
    if L and R:
        return (["L", "R"], ("R", "L"), "LR", ["R", "L"])[form % 4]
    if R:
        return ("R", ("R",), ["R"], "R")[form % 4]
    if L:
        return ("L", ("L",), ["L"], "L")[form % 4]
    return ((), [], "", ())[form % 4]


def ens_state(picked):
    """everything in `picked` a zero swap must not change: the ens_set dicts (deep, without the generator object),
    which objects sit where"""
    import copy
    out = {}
    for key in (-1, 0):
        ent = picked[key]
        out[f"{key}.keys"] = sorted(ent.keys())
        out[f"{key}.traj"] = id(ent["traj"])
        out[f"{key}.rgen"] = id(ent["ens"].get("rgen"))
        for kk, v in ent["ens"].items():
            if kk != "rgen":
                out[f"{key}.ens.{kk}"] = copy.deepcopy(v)
    return out


def aliasing(new_paths, old_paths):
    """the new paths must be built from copies: no frame object (and no frame LIST) shared with an old path or with
    each other, so that a later move that edits one cannot corrupt the other"""
    seen = {}
    for nm, p in (("old[0-]", old_paths[0]), ("old[0+]", old_paths[1])):
        seen[id(p.phasepoints)] = nm + " frame list"
        for i, fr in enumerate(p.phasepoints):
            seen[id(fr)] = f"{nm}.phasepoints[{i}]"
    if new_paths[0] is new_paths[1]:
        return None          # quantis returns [tmp_path1, tmp_path1] on QEA (a rejection; mirrored in the model)
    for nm, p in (("new[0-]", new_paths[0]), ("new[0+]", new_paths[1])):
        if id(p.phasepoints) in seen:
            return f"{nm} shares its frame list with {seen[id(p.phasepoints)]}"
        for i, fr in enumerate(p.phasepoints):
            if id(fr) in seen:
                return f"{nm}.phasepoints[{i}] is the same object as {seen[id(fr)]}"
            seen[id(fr)] = f"{nm}.phasepoints[{i}]"
    return None


def played_scripts(c, eng0, eng1):
    """for the velocity-order engine: the frame streams it produced, in the model's script order"""
    if c.get("engine") != "vel":
        return None
    empty = (None, [])
    if eng0 is eng1:         # one engine object serves both ensembles: streams in call order = script order
        pl = list(eng0.played)
        n = 2 if c["kind"] == "retis" else 4
        return (pl + [empty] * n)[:n]
    p0, p1 = list(eng0.played), list(eng1.played)
    if c["kind"] == "retis":
        return [p0[0] if p0 else empty, p1[0] if p1 else empty]
    return [p0[0] if p0 else empty, p1[0] if p1 else empty, p0[1] if len(p0) > 1 else empty, p1[1] if len(p1) > 1 else empty]


def snapshot(p):
    """deep snapshot of an old path: what C09 calls "the old path's frames and files" plus the path-level fields"""
    frames = []
    for fr in p.phasepoints:
        frames.append((id(fr), id(fr.order), tuple(fr.order), tuple(fr.config), fr.vel_rev, fr.vpot, fr.ekin))
    return {"frames": frames, "list_id": id(p.phasepoints), "status": p.status, "generated": p.generated,
            "weights": p.weights, "weight": p.weight, "maxlen": p.maxlen, "path_number": p.path_number,
            "time_origin": p.time_origin}


def snapshot_diff(before, after, fs_before, fs_now, name):
    """first difference between two snapshots (or in the files the frames point to), else None"""
    for k in before:
        if k != "frames" and before[k] != after[k]:
            return f"{name}.{k}: {before[k]!r} -> {after[k]!r}"
    if len(before["frames"]) != len(after["frames"]):
        return f"{name}: {len(before['frames'])} frames -> {len(after['frames'])}"
    labels = ("object identity", "order list identity", "order", "config", "vel_rev", "vpot", "ekin")
    for i, (b, a) in enumerate(zip(before["frames"], after["frames"])):
        for lab, x, y in zip(labels, b, a):
            if x != y:
                return f"{name}.phasepoints[{i}].{lab}: {x!r} -> {y!r}"
    for fname, content in fs_before.items():
        if fs_now.get(fname) != content:
            return f"file {fname} of {name}: {content!r} -> {fs_now.get(fname)!r}"
    return None


class World:
    """one exe_dir pair + file table; builds the real objects of a case and runs the real move"""

    def __init__(self):
        self.np, self.EngineBase, self.Path, self.System, self.tis = _imports()
        self.root = tempfile.mkdtemp(prefix="c11_", dir="/dev/shm" if os.path.isdir("/dev/shm") else None)
        self.dirs = []
        for k in range(3):
            d = os.path.join(self.root, f"d{k}")
            os.mkdir(d)
            self.dirs.append(d)
        self.ncalls = 0
        self.proxy = NpProxy(self.np)

    def close(self):
        shutil.rmtree(self.root, ignore_errors=True)

    def sweep(self):
        self.ncalls += 1
        if self.ncalls % 400 == 0:
            for d in self.dirs:
                for it in os.scandir(d):
                    os.unlink(it.path)

    def mk_path(self, fs, name, frames, maxlen=100000, int_orders=False):
        p = self.Path(maxlen=maxlen)
        p.path_number = 0 if name == "old0" else 1       # path number 0 is a valid path
        p.generated = ("ld", float("nan"), 0, 0)
        cont = []
        for k, (op, c, vr, vp) in enumerate(frames):
            s = self.System()
            # a second, unrelated collective variable rides along (multi-column order parameter)
            s.order = [int(op), 7] if int_orders else [float(op), 7.5]
            s.config = (name, k)
            s.vel_rev = bool(vr)
            s.vpot = None if vp is None else float(vp)   # engines report floats; 0.0 is a valid energy
            s.ekin = 0.0
            p.phasepoints.append(s)
            cont.append(tuple(c))
        fs[name] = cont
        return p

    def read_path(self, fs, p):
        out = []
        for s in p.phasepoints:
            try:
                c = tuple(fs[s.config[0]][s.config[1]])
            except Exception:  # noqa: BLE001
                c = ("missing-file", 0)
            try:
                op = int(s.order[0]) if float(s.order[0]) == int(s.order[0]) else s.order[0]
            except Exception:  # noqa: BLE001
                op = "?" + repr(s.order).replace(" ", "")
            vp = s.vpot
            try:
                if vp is not None and float(vp) == int(vp):
                    vp = int(vp)
            except Exception:  # noqa: BLE001
                vp = "?" + repr(vp).replace(" ", "")
            out.append((op, c, bool(s.vel_rev), vp))
        return out

    def picked(self, c, old0, old1, rgen):
        def ens(e, name, aa):
            ts = {"maxlength": e["maxlen"], "accept_all": aa}
            if e["cap"] is not None:
                ts["interface_cap"] = float(e["cap"])
            return {"interfaces": tuple(fl(x) for x in e["i"]), "tis_set": ts,
                    "mc_move": "wf" if e["wf"] else "sh", "start_cond": start_cond(e["sc"], c.get("sc_form", 0)),
                    "rgen": rgen, "ens_name": name}
        aa = bool(c.get("aa", False))
        return {-1: {"ens": ens(c["e0"], "000", aa), "traj": old0}, 0: {"ens": ens(c["e1"], "001", aa), "traj": old1}}

    def run(self, c, fs=None, old_paths=None, dirk=0, live=None):
        """returns dict(err=..) or dict(accept,status,st0,st1,w0,w1,draws,ea,p,path0,path1,reqs,same).
        `live`: dict kept by the caller over a SEQUENCE of calls: the engine objects (and, if the settings do not
        change, the ens_set dicts) of the first call are reused instead of fresh ones."""
        try:
            return self._run(c, fs, old_paths, dirk, live)
        except Exception as e:  # noqa: BLE001  a harness exception must not hide a violation (exit 2): report the input
            import traceback
            return {"err": "harness:" + type(e).__name__, "reqs": [], "mutated": None, "olds": (None, None), "played": None,
                    "harness_exc": traceback.format_exc()[-600:]}

    def _run(self, c, fs, old_paths, dirk, live):
        E = engine_classes()
        self.sweep()
        fs = {} if fs is None else fs
        log = []
        d = self.dirs[dirk]
        if live is not None and "eng" in live:
            eng0, eng1 = live["eng"]
            fs = eng0.fs
            log = eng0.log
            del log[:]
            for e_ in {id(eng0): eng0, id(eng1): eng1}.values():
                e_._exe_dir = d
                if hasattr(e_, "played"):
                    e_.played = []
            if c["kind"] in ("retis", "quantis") and c.get("engine") != "vel":
                if eng0 is eng1:
                    eng0.scripts = list(c["scripts"])            # popped in call order
                    if c["kind"] == "quantis":
                        eng0._beta = float(c["beta0"])
                elif c["kind"] == "retis":
                    eng0.scripts, eng1.scripts = [c["scripts"][0]], [c["scripts"][1]]
                else:
                    eng0.scripts, eng1.scripts = [c["scripts"][0], c["scripts"][2]], [c["scripts"][1], c["scripts"][3]]
                    eng0._beta, eng1._beta = float(c["beta0"]), float(c["beta1"])
        elif c.get("engine") == "vel":
            eng0 = E["V"](0, fs, log, d, c["a"], c["k"], c["n"])
            eng1 = E["V"](1, fs, log, d, c["a"], c["k"], c["n"])
        elif c["kind"] == "retisdet":
            eng0 = E["R"](0, fs, log, d, c["a"], c["k"], c["n"])
            eng1 = E["R"](1, fs, log, d, c["a"], c["k"], c["n"])
        elif c["kind"] == "retis":
            eng0 = E["S"](0, fs, log, [c["scripts"][0]], d)
            eng1 = E["S"](1, fs, log, [c["scripts"][1]], d)
        else:
            eng0 = E["S"](0, fs, log, [c["scripts"][0], c["scripts"][2]], d, beta=float(c["beta0"]))
            eng1 = E["S"](1, fs, log, [c["scripts"][1], c["scripts"][3]], d, beta=float(c["beta1"]))
        if live is not None and "eng" not in live:
            if live.get("shared"):
                eng1 = eng0
                eng0.eid = 0
                if c["kind"] in ("retis", "quantis") and c.get("engine") != "vel":
                    eng0.scripts = list(c["scripts"])
            live["eng"] = (eng0, eng1)
        if old_paths is None:
            old0 = self.mk_path(fs, "old0", c["old0"], maxlen=(None if c.get("old_maxlen_none") else 100000),
                                int_orders=bool(c.get("int_orders")))
            old1 = self.mk_path(fs, "old1", c["old1"], int_orders=bool(c.get("int_orders")))
        else:
            old0, old1 = old_paths
        rgen = OneDraw(float(c["xi"]), log)
        picked = self.picked(c, old0, old1, rgen)
        if live is not None:
            if "ens" in live:      # the very same ens_set dicts as in the previous calls of the sequence
                for key, ens_ in zip((-1, 0), live["ens"]):
                    ens_["rgen"] = rgen
                    ens_["tis_set"]["accept_all"] = picked[key]["ens"]["tis_set"]["accept_all"]
                    picked[key]["ens"] = ens_
            elif live.get("keep_ens"):
                live["ens"] = (picked[-1]["ens"], picked[0]["ens"])
        engines = {-1: [eng0], 0: [eng1]}
        via_select = bool(c.get("via_select"))
        if via_select:
            # the move reached through the REAL select_shoot: engines looked up in tis.ENGINES by picked[..]["eng_idx"],
            # set_mdrun / rgen-eng / clean_up on each, routing on len(picked) == 2 and tis_set["quantis"]
            for key, name in ((-1, "engA"), (0, "engB")):
                picked[key]["eng_idx"] = {name: 0}
                picked[key]["exe_dir"] = d
                picked[key]["ens"]["tis_set"]["quantis"] = (c["kind"] == "quantis")
            if c.get("picked_order"):
                picked = {0: picked[0], -1: picked[-1]}
        ens_before = ens_state(picked)
        eng0.old_ids = eng1.old_ids = {id(fr) for fr in old0.phasepoints} | {id(fr) for fr in old1.phasepoints}
        snap = (snapshot(old0), snapshot(old1))
        old_files = {fr.config[0] for fr in old0.phasepoints} | {fr.config[0] for fr in old1.phasepoints}
        fs_before = {f: list(fs[f]) for f in old_files if f in fs}

        def mutated():
            after = ens_state(picked)
            if after != ens_before:
                keys = [k for k in ens_before if after.get(k) != ens_before[k]]
                return f"picked / ens_set changed: {keys[:3]} {[(ens_before[k], after.get(k)) for k in keys[:2]]}"
            return (snapshot_diff(snap[0], snapshot(old0), fs_before, fs, "old[0-]")
                    or snapshot_diff(snap[1], snapshot(old1), {}, fs, "old[0+]"))
        self.proxy.exp_log.clear()
        fn = self.tis.quantis_swap_zero if c["kind"] == "quantis" else self.tis.retis_swap_zero
        saved = self.tis.np
        self.tis.np = self.proxy
        pastes, revs = [], []
        real_paste, real_reverse = self.tis.paste_paths, self.Path.reverse

        def spy_paste(path_back, path_forw, overlap=True, maxlen=None):
            rec = [list(path_back.phasepoints), list(path_forw.phasepoints), overlap, maxlen, None]
            pastes.append(rec)
            rec[4] = real_paste(path_back, path_forw, overlap=overlap, maxlen=maxlen)
            return rec[4]

        def spy_reverse(self_, order_function, rev_v=True):
            revs.append((list(self_.phasepoints), order_function, rev_v))
            return real_reverse(self_, order_function, rev_v=rev_v)
        if c["kind"] == "quantis":
            self.tis.paste_paths = spy_paste
            self.Path.reverse = spy_reverse
        saved_engines = getattr(self.tis, "ENGINES", None)
        had_engines = hasattr(self.tis, "ENGINES")
        if via_select:
            self.tis.ENGINES = {"engA": [eng0], "engB": [eng1]}
        try:
            if via_select:
                accept, paths, status = self.tis.select_shoot(picked)
            else:
                accept, paths, status = fn(picked, engines)
        except Exception as e:  # noqa: BLE001
            return {"err": err_kind(e), "reqs": list(log), "mutated": mutated(), "olds": (old0, old1),
                    "played": played_scripts(c, eng0, eng1)}
        finally:
            self.tis.np = saved
            self.tis.paste_paths = real_paste
            self.Path.reverse = real_reverse
            if via_select:
                if had_engines:
                    self.tis.ENGINES = saved_engines
                else:
                    try:
                        del self.tis.ENGINES
                    except AttributeError:
                        pass
        paste_rec = None
        if pastes:
            rd = lambda frs: self.read_path(fs, type("P", (), {"phasepoints": frs}))  # noqa: E731
            try:
                paste_rec = {"calls": [(rd(b), rd(f), ov, ml, rd(res.phasepoints), res.time_origin, res.maxlen)
                                       for (b, f, ov, ml, res) in pastes],
                             "revs": [(rd(frs), of is None, rv) for (frs, of, rv) in revs]}
            except Exception as e:  # noqa: BLE001
                paste_rec = {"unreadable": repr(e)}
        ea = p = None
        if self.proxy.exp_log:
            ea, p = self.proxy.exp_log[-1]
        return {
            "accept": bool(accept), "status": status,
            "st0": paths[0].status or "-", "st1": paths[1].status or "-",
            "w0": paths[0].weight, "w1": paths[1].weight, "draws": rgen.calls,
            "ea": None if ea is None else float(ea), "p": None if p is None else float(p),
            "path0": self.read_path(fs, paths[0]), "path1": self.read_path(fs, paths[1]),
            "reqs": list(log), "same": paths[0] is old0 and paths[1] is old1, "objs": paths,
            "at": (rgen.at[0] if rgen.at else None), "ats": list(rgen.at), "pastes": paste_rec,
            "nexp": len(self.proxy.exp_log), "mutated": mutated(), "olds": (old0, old1),
            "played": played_scripts(c, eng0, eng1),
            "aliased": None if (paths[0] is old0 and paths[1] is old1) else aliasing(paths, (old0, old1)),
        }


def code_line(r):
    if "err" in r:
        return r["err"]
    def w(x):
        return str(int(x)) if float(x) == int(x) else repr(x)
    ea = "-" if r["ea"] is None else frac_token(r["ea"])
    return (f"{int(r['accept'])} {r['status']} {r['st0']} {r['st1']} {w(r['w0'])} {w(r['w1'])} {r['draws']} {ea} | "
            f"{lst(r['path0'], frame_tok)} | {lst(r['path1'], frame_tok)} | {lst(r['reqs'])} | "
            f"at={'-' if r.get('at') is None else r['at']}")


# --------------------------------------------------------------------------- property predicates
def phys(f):
    op, c, vr, vp = f
    return (c[0], -c[1]) if vr else (c[0], c[1])


def crosses(l, r, x):
    return x < l or x > r


def ordered(e):
    return e["i"][0] <= e["i"][1] <= e["i"][2]


def valid_minus(e0, p):
    """a [0-] path as the ensemble wants it: starts outside (right of λ0, or left of λ₋₁ when 'L' is an
    allowed start), interior not outside, ends at/right of λ0, length within the limit"""
    l, r = e0["i"][0], e0["i"][2]
    if len(p) < 3 or len(p) > e0["maxlen"]:
        return False
    f = p[0][0]
    if not (f > r or (e0["sc"][0] and f < l)):
        return False
    if not all(l <= g[0] <= r for g in p[1:-1]):
        return False
    return p[-1][0] >= r


def valid_plus(e1, p):
    l, r = e1["i"][0], e1["i"][2]
    if len(p) < 3 or len(p) > e1["maxlen"]:
        return False
    if not p[0][0] <= l:
        return False
    if not all(l <= g[0] <= r for g in p[1:-1]):
        return False
    return p[-1][0] < l or p[-1][0] > r


def junction_ok(c, r):
    """on ACC: new[0-] ends with frames 0,1 of old[0+]; new[0+] starts with the last two of old[0-]"""
    o0, o1, n0, n1 = c["old0"], c["old1"], r["path0"], r["path1"]
    if len(n0) < 2 or len(n1) < 2 or len(o0) < 2 or len(o1) < 2:
        return "new path shorter than two frames"
    a, b = n0[-2], n0[-1]
    if b[:3] != o1[1][:3]:
        return f"last frame of new [0-] {b} is not frame 1 of old [0+] {o1[1]}"
    if a[0] != o1[0][0] or phys(a) != phys(o1[0]):
        return f"second-last frame of new [0-] {a} is not the phase point of frame 0 of old [0+] {o1[0]}"
    if a[2] is not True:
        return f"second-last frame of new [0-] {a} not flagged vel_rev"
    s, t = n1[0], n1[1]
    if s[:3] != o0[-2][:3]:
        return f"first frame of new [0+] {s} is not the second-last frame of old [0-] {o0[-2]}"
    if t[0] != o0[-1][0] or phys(t) != phys(o0[-1]):
        return f"second frame of new [0+] {t} is not the phase point of the last frame of old [0-] {o0[-1]}"
    if t[2] is not False:
        return f"second frame of new [0+] {t} flagged vel_rev"
    return None


# --------------------------------------------------------------------------- generators
def mk_old0(prefix_ops, a, b, vr=False, vp=0):
    ops = list(prefix_ops) + [a, b]
    return [(o, (100 + k, 1 if k % 2 else -1), vr, vp) for k, o in enumerate(ops)]


def mk_old1(c, d, suffix_ops, vr=False, vp=0):
    ops = [c, d] + list(suffix_ops)
    return [(o, (200 + k, 1 if k % 3 else -2), vr, vp) for k, o in enumerate(ops)]


def mk_script(ops, base, pad_op=None, v0=0, vp=0):
    full = list(ops) + ([] if pad_op is None else [pad_op] * PAD)
    return (v0, [(o, (base + k, 3), vp) for k, o in enumerate(full)])


def seqs(levels, maxlen):
    for L in range(0, maxlen + 1):
        yield from itertools.product(levels, repeat=L)


def ens(i, maxlen, sc, wf=False, cap=None):
    return {"i": tuple(i), "maxlen": maxlen, "sc": tuple(sc), "wf": wf, "cap": cap}


def shift_case(c, d):
    """translate every order value and interface by d (λ₋₁ = -3 becomes 0.0: a falsy but valid interface)"""
    def sh_e(e):
        return dict(e, i=tuple(x if x == NEG else x + d for x in e["i"]), cap=None if e["cap"] is None else e["cap"] + d)
    c = dict(c)
    c["e0"], c["e1"] = sh_e(c["e0"]), sh_e(c["e1"])
    c["old0"] = [(f[0] + d,) + tuple(f[1:]) for f in c["old0"]]
    c["old1"] = [(f[0] + d,) + tuple(f[1:]) for f in c["old1"]]
    c["scripts"] = [(v0, [(g[0] + d,) + tuple(g[1:]) for g in rest]) for (v0, rest) in c["scripts"]]
    c["tag"] = c["tag"] + "+shift"
    return c


def decorate(rng, c):
    """configuration classes the repo's tests never use, spread over the seeded cases"""
    if rng.random() < 0.5:
        c["sc_form"] = rng.randint(0, 3)
    if rng.random() < 0.1:
        c["int_orders"] = True
    if rng.random() < 0.1:
        c["old_maxlen_none"] = True
    if c["e0"]["i"][0] == -3 and rng.random() < 0.3:
        c = shift_case(c, 3)
    return c


def retis_cases(ctx):
    rng = ctx.rng
    quick = ctx.quick
    cases = []
    variants = [("plain", (NEG, 0, 0), (False, True)), ("lm1", (-3, -2, 0), (True, True)),
                ("lm1-noL", (-3, -2, 0), (False, True))]
    i1 = (0, 1, 3)
    mls = [(m0, m1) for m0 in (2, 3, 4, 5, 6) for m1 in (2, 3, 4, 5, 6)]
    bw_lv = (-4, -3, -1, 0, 1)
    fw_lv = (-1, 0, 1, 3, 4)
    good_fw = mk_script([1, -1], 400, 1)
    long_fw = mk_script([], 400, 1)
    good_bw = mk_script([-1, 1], 300, -1)
    # side 0: everything the new [0-] path depends on
    for (vn, i0, sc) in variants:
        for b in (-4, -1, 0, 1):
            for c0 in (-1, 0, 1):
                for d in (0, 1, 4):
                    for bw in seqs(bw_lv, 2 if quick else 3):
                        for (m0, m1) in mls:
                            if quick and (m0, m1) not in ((3, 3), (4, 4), (5, 5), (6, 6), (4, 5), (5, 4), (6, 3), (2, 6)):
                                continue
                            for fw in ((good_fw,) if (len(bw) > 1 or quick) else (good_fw, long_fw)):
                                cases.append({"kind": "retis", "tag": "side0-" + vn,
                                              "e0": ens(i0, m0, sc), "e1": ens(i1, m1, (True, False)),
                                              "old0": mk_old0([1, -1], -1, b), "old1": mk_old1(c0, d, [1, 4]),
                                              "scripts": [mk_script(bw, 300, -1), fw], "xi": Fraction(1, 2)})
    # side 1: everything the new [0+] path depends on
    for (vn, i0, sc) in variants:
        for a in (-4, -1, 0, 1):
            for b in (-1, 0, 1, 4):
                for fw in seqs(fw_lv, 2 if quick else 3):
                    for (m0, m1) in mls:
                        if quick and m0 not in (3, 6):
                            continue
                        cases.append({"kind": "retis", "tag": "side1-" + vn,
                                      "e0": ens(i0, m0, sc), "e1": ens(i1, m1, (True, False)),
                                      "old0": mk_old0([1], a, b), "old1": mk_old1(-1, 1, [4]),
                                      "scripts": [good_bw, mk_script(fw, 400, 1)], "xi": Fraction(1, 2)})
    cases = [shift_case(c, 3) if (c["e0"]["i"][0] == -3 and k % 7 == 3) else c for k, c in enumerate(cases)]
    # the witness of Infretis.C11.swap_members_maxlen_counterexample (maxlen0 > maxlen1; cannot come from a
    # configuration file): accepted although the new [0-] path starts left of λ0
    z = lambda o, vr=False: (o, (0, 0), vr, None)  # noqa: E731
    cases.append({"kind": "retis", "tag": "witness-maxlen0>maxlen1",
                  "e0": ens((-9, 0, 0), 9, (False, True)), "e1": ens((0, 1, 3), 4, (True, False)),
                  "old0": [z(1), z(-1), z(1)], "old1": [z(-1), z(1), z(-1)],
                  "scripts": [(None, [(-1, (0, 0), None)] * 4), (None, [(-1, (0, 0), None), (1, (0, 0), None), (1, (0, 0), None)])],
                  "xi": Fraction(0)})
    # random: longer paths, wf moves, caps, vel_rev flags, unpadded (ending) programs, malformed input
    nrand = 15000 if quick else 150000
    for _ in range(nrand):
        vn, i0, sc = rng.choice(variants)
        if rng.random() < 0.1:
            sc = rng.choice([(False, True), (True, True), (True, False), (False, False)])
        m0 = rng.randint(0, 9)
        m1 = m0 if rng.random() < 0.6 else rng.randint(0, 9)
        wf0, wf1 = (rng.random() < 0.25), (rng.random() < 0.25)
        cap = rng.choice([None, None, 2, 3, -1]) if (wf0 or wf1) else None
        lv0 = (-4, -3, -2, -1, 0, 1)
        lv1 = (-1, 0, 1, 2, 3, 4)
        n0 = rng.choice([0, 1, 2, 3, 3, 4, 5, 6])
        n1 = rng.choice([0, 1, 2, 3, 3, 4, 5, 6])
        if rng.random() < 0.7 and n0 >= 3:   # a valid [0-] path
            o0 = [rng.choice((1, 2) if vn == "plain" else (1, -4))] + [rng.choice((-2, -1, 0)) for _ in range(n0 - 2)] + [rng.choice((0, 1, 1))]
        else:
            o0 = [rng.choice(lv0) for _ in range(n0)]
        if rng.random() < 0.7 and n1 >= 3:   # a valid [0+] path
            o1 = [rng.choice((-1, 0))] + [rng.choice((0, 1, 2, 3)) for _ in range(n1 - 2)] + [rng.choice((-1, 4))]
        else:
            o1 = [rng.choice(lv1) for _ in range(n1)]
        old0 = [(o, (100 + k, rng.choice((-2, 1, 0))), rng.random() < 0.3, rng.choice((0, None, 3))) for k, o in enumerate(o0)]
        old1 = [(o, (200 + k, rng.choice((-2, 1, 5))), rng.random() < 0.3, rng.choice((0, None, 3))) for k, o in enumerate(o1)]
        nb, nf = rng.randint(0, 7), rng.randint(0, 7)
        bw = [rng.choice((-1, -1, -2, 0, 1, -4, -3)) for _ in range(nb)]
        fw = [rng.choice((1, 1, 2, 0, 3, -1, 4)) for _ in range(nf)]
        padb = rng.choice((None, -1, -1, 1))
        padf = rng.choice((None, 1, 1, -1))
        e0 = ens(i0, m0, sc, wf0, cap)
        e1 = ens(i1, m1, (True, False), wf1, cap)
        if rng.random() < 0.03:
            e0["i"] = (1, 0, 0)    # interfaces[0] > interfaces[-1]: assertion in get_end_point
        cases.append(decorate(rng, {"kind": "retis", "tag": "random", "e0": e0, "e1": e1, "old0": old0, "old1": old1,
                      "scripts": [mk_script(bw, 300, padb, v0=rng.choice((0, None))), mk_script(fw, 400, padf)],
                      "xi": Fraction(rng.randint(0, 63), 64)}))
    return cases


def quantis_cases(ctx):
    rng = ctx.rng
    quick = ctx.quick
    cases = []
    variants = [("plain", (NEG, 0, 0), (False, True)), ("lm1", (-3, -2, 0), (True, True)),
                ("lm1-noL", (-3, -2, 0), (False, True))]
    i1 = (0, 1, 3)
    n = 5000 if quick else 60000
    for k in range(n):
        vn, i0, sc = rng.choice(variants)
        m0 = rng.choice((3, 4, 5, 6, 7, 8, 9, 2, 1))
        m1 = m0 if rng.random() < 0.7 else rng.randint(1, 9)
        structured = rng.random() < 0.75
        if structured:
            npre = rng.randint(1, 3)
            o0 = [1] + [rng.choice((-1, -2, 0)) for _ in range(npre - 1)] + [rng.choice((-1, -1, -2, 0))] + [rng.choice((1, 2, 0))]
            if vn != "plain" and rng.random() < 0.15:
                o0[-1] = rng.choice((-3, -4))      # a [0-] path that ENDED ON THE LEFT (λ₋₁ variant) handed to QuanTIS
            o1 = [rng.choice((-1, -1, -2, 0, -4))] + [rng.choice((1, 2, 0))] + [rng.choice((1, 2)) for _ in range(rng.randint(0, 2))] + [rng.choice((-1, 4))]
            A = [rng.choice((1, 1, 1, 2, 0, -1, -4))]
            B = [rng.choice((1, 1, 1, 2, 0, -1, -4, 4, 4))]
            C = [rng.choice((-1, -2, 0)) for _ in range(rng.randint(0, 4))] + [rng.choice((1, 1, 1, -4, -3))]
            D = [rng.choice((1, 2, 3, 0)) for _ in range(rng.randint(0, 4))] + [rng.choice((-1, 4, 4))]
            pads = (1, 1, -1, 1)
            vps = (0, 0, 0, 0)
        else:
            o0 = [rng.choice((-4, -1, 0, 1)) for _ in range(rng.randint(0, 4))]
            o1 = [rng.choice((-1, 0, 1, 4)) for _ in range(rng.randint(0, 4))]
            A = [rng.choice((-4, -1, 0, 1)) for _ in range(rng.randint(0, 2))]
            B = [rng.choice((-4, -1, 0, 1)) for _ in range(rng.randint(0, 2))]
            C = [rng.choice((-4, -1, 0, 1)) for _ in range(rng.randint(0, 4))]
            D = [rng.choice((-1, 0, 1, 4)) for _ in range(rng.randint(0, 4))]
            pads = tuple(rng.choice((None, 1, -1)) for _ in range(4))
            vps = tuple(rng.choice((0, 0, 0, None)) for _ in range(4))
        ev = lambda: rng.choice((0, 0, 1, 2, -1, -3, 5))  # noqa: E731
        none_e = (not structured) and rng.random() < 0.3
        old0 = [(o, (100 + j, 1), rng.random() < 0.2, (None if (none_e and rng.random() < 0.3) else ev())) for j, o in enumerate(o0)]
        old1 = [(o, (200 + j, -1), rng.random() < 0.2, (None if (none_e and rng.random() < 0.3) else ev())) for j, o in enumerate(o1)]
        scripts = [mk_script(A, 300, pads[0], v0=(None if vps[0] is None else ev())),
                   mk_script(B, 400, pads[1], v0=(None if vps[1] is None else ev())),
                   mk_script(C, 500, pads[2]), mk_script(D, 600, pads[3])]
        beta0 = rng.choice((Fraction(1), Fraction(1, 2), Fraction(2), Fraction(1, 4)))
        beta1 = rng.choice((Fraction(1), Fraction(1, 2), Fraction(2)))
        base = {"kind": "quantis", "tag": "quantis-" + ("structured" if structured else "malformed"),
                "e0": ens(i0, m0, sc, wf=(k % 11 == 3)), "e1": ens(i1, m1, (True, False), wf=(k % 13 == 5)),
                "old0": old0, "old1": old1,       # 'wf' in [0-]/[0+]: QuanTIS only warns and goes on (tis.py:1139-1141)
                "scripts": scripts, "beta0": beta0, "beta1": beta1, "aa": False, "xi": Fraction(1, 2)}
        cases.append(decorate(rng, base))
    return cases


def xi_grid(p):
    """ξ values around the threshold pacc = min(1, p) (floats, exact as Fractions)"""
    pacc = min(1.0, p)
    xs = {0.0, pacc, math.nextafter(pacc, -1.0), pacc / 2, 0.999999}
    if pacc < 1.0:
        xs.add(math.nextafter(pacc, 2.0))
        xs.add((1.0 + pacc) / 2)
    return sorted(x for x in xs if 0.0 <= x < 1.0)   # random() never returns 1.0


# --------------------------------------------------------------------------- reversible-engine cases
def traj_from(step, c0, n):
    out = [c0]
    for _ in range(n):
        c = step(out[-1])
        if abs(c[0]) > (45 if n <= 14 else 200) or abs(c[1]) > 45:
            break
        out.append(c)
    return out


def det_cases(ctx, mode="std"):
    """old path pairs that are trajectories of the integer leap-frog engine, found by seeded search.
    Extension pass, boundary classes: mode "min3" = both old paths of the minimal length 3; "tight" = the length limit
    is max(len)+1 or max(len)+2 (swaps decided AT maxlen: BTX/FTX next to ACC); "long" = wide soft well (a = 400/900,
    k ≥ 512, λ0 far from the minimum): old paths of 15 to 60 frames"""
    rng = ctx.rng
    cases = []
    want = {"std": 800 if ctx.quick else 8000, "min3": 60 if ctx.quick else 1500, "tight": 150 if ctx.quick else 3000,
            "long": 40 if ctx.quick else 800}[mode]
    nmax = 60 if mode == "long" else 14
    tries = 0
    while len(cases) < want and tries < 200 * want:
        tries += 1
        a = rng.choice((36, 64, 100)) if mode != "long" else rng.choice((400, 900))
        k = rng.choice((16, 32, 64, 128)) if mode != "long" else rng.choice((512, 2048, 4096))
        step = lambda c: dw_step(a, k, c)  # noqa: E731
        lam0 = -int(a ** 0.5) + (rng.randint(0, 4) if mode != "long" else rng.randint(8, 16))
        lamN = lam0 + rng.randint(1, 8)
        lm1 = rng.random() < 0.4
        lamm = lam0 - rng.randint(2, 6)
        lo = lamm if lm1 else -10**9
        # a [0-] trajectory: starts right of λ0 (or left of λ₋₁) and runs until it is right of λ0 again
        if lm1 and rng.random() < 0.4:
            c = (lamm - rng.randint(1, 2), rng.randint(0, 4))
        else:
            c = (lam0 + rng.randint(1, 3), -rng.randint(0, 4))
        tr0 = traj_from(step, c, nmax)
        k0 = next((j for j in range(1, len(tr0)) if tr0[j][0] > lam0 or tr0[j][0] < lo), None)
        if k0 is None or k0 < 2 or tr0[k0][0] <= lam0:
            continue
        tr0 = tr0[: k0 + 1]
        c = (lam0 - rng.randint(0, 3), rng.randint(0, 4))
        tr1 = traj_from(step, c, nmax)
        k1 = next((j for j in range(1, len(tr1)) if tr1[j][0] < lam0 or tr1[j][0] > lamN), None)
        if k1 is None or k1 < 2:
            continue
        tr1 = tr1[: k1 + 1]
        if mode == "min3" and (len(tr0) != 3 or len(tr1) != 3):
            continue
        if mode == "long" and max(len(tr0), len(tr1)) < 15:
            continue
        if mode == "tight":
            m = max(len(tr0), len(tr1)) + rng.choice((1, 2))
        elif mode == "long":
            m = max(len(tr0), len(tr1)) + rng.choice((2, 30))
        else:
            m = max(len(tr0), len(tr1)) + rng.choice((1, 1, 2, 5, 12))

        def store(tr):
            out = []
            for (x, v) in tr:
                vr = rng.random() < 0.4
                out.append((x, (x, -v if vr else v), vr, 0))
            return out
        i0 = (lamm, lamm + 1, lam0) if lm1 else (NEG, lam0, lam0)
        cases.append({"kind": "retisdet", "tag": "reversible-" + ("lm1" if lm1 else "plain") + ("" if mode == "std" else "-" + mode),
                      "a": a, "k": k, "n": m + 2,
                      "e0": ens(i0, m, (True, True) if lm1 else (False, True)),
                      "e1": ens((lam0, lam0, lamN), m, (True, False)),
                      "old0": store(tr0), "old1": store(tr1), "xi": Fraction(1, 2)})
    return cases


def vel_cases(ctx):
    """trajectory pairs of the integer leap-frog engine classified by the velocity-dependent order parameter
    λ = 2x + v (of the PHYSICAL velocity), stored with random vel_rev flags"""
    rng = ctx.rng
    cases = []
    want = 300 if ctx.quick else 4000
    tries = 0
    lam = lambda c: 2 * c[0] + c[1]  # noqa: E731
    while len(cases) < want and tries < 400 * want:
        tries += 1
        a = rng.choice((36, 64, 100))
        k = rng.choice((16, 32, 64, 128))
        step = lambda c: dw_step(a, k, c)  # noqa: E731
        lam0 = 2 * (-int(a ** 0.5) + rng.randint(0, 4)) + rng.randint(-1, 1)
        lamN = lam0 + rng.randint(2, 16)
        tr0 = traj_from(step, (rng.randint(-12, 0), -rng.randint(0, 4)), 14)
        if lam(tr0[0]) <= lam0:
            continue
        k0 = next((j for j in range(1, len(tr0)) if lam(tr0[j]) > lam0), None)
        if k0 is None or k0 < 2:
            continue
        tr0 = tr0[: k0 + 1]
        tr1 = traj_from(step, (rng.randint(-12, 0), rng.randint(0, 4)), 14)
        if lam(tr1[0]) >= lam0:     # the one-step crossing of QuanTIS wants it strictly left
            continue
        k1 = next((j for j in range(1, len(tr1)) if lam(tr1[j]) < lam0 or lam(tr1[j]) > lamN), None)
        if k1 is None or k1 < 2:
            continue
        tr1 = tr1[: k1 + 1]
        m = max(len(tr0), len(tr1)) + rng.choice((1, 2, 5, 12))

        def store(tr):
            out = []
            for c in tr:
                vr = rng.random() < 0.4
                out.append((lam(c), (c[0], -c[1] if vr else c[1]), vr, 0))
            return out
        base = {"engine": "vel", "a": a, "k": k, "n": m + 2,
                "e0": ens((NEG, lam0, lam0), m, (False, True)), "e1": ens((lam0, lam0, lamN), m, (True, False)),
                "old0": store(tr0), "old1": store(tr1), "xi": Fraction(1, 2)}
        cases.append(dict(base, kind="retis", tag="velocity-order-retis"))
        cases.append(dict(base, kind="quantis", tag="velocity-order-quantis", aa=False, beta0=Fraction(1), beta1=Fraction(1)))
    return cases


def full_orders(p):
    return [[float(x) for x in fr.order] for fr in p.phasepoints]


def vel_block(ctx, W, have_model):
    """zero swaps with the order parameter computed through the REAL EngineBase.calculate_order (velocity dependent):
    junction identity and swap-twice on the full order vectors, model comparison on the streams the engine produced"""
    lines, codes = [], []

    def one(c, fs, old_paths, dirk):
        r = W.run(c, fs=fs, old_paths=old_paths, dirk=dirk)
        cm = dict(c, scripts=r["played"])
        br = check_case(ctx, cm, r)
        ctx.count(1, branch=f"vel:{c['kind']}:{br}", gen=c["tag"])
        p = Fraction(r["p"]) if ("err" not in r and r.get("p") is not None) else Fraction(1)
        lines.append(case_line(cm, p))
        codes.append(code_line(r))
        if c["kind"] == "retis":
            # the same move through the model's OWN deterministic engine with the velocity-dependent order parameter
            # 2x+v of the physical phase point (Infretis.ZeroSwap.retisSwapZeroDetV), not through the played streams
            lines.append(f"retisdetv {c['a']} {c['k']} {c['n']} {ens_tok(c['e0'])} {ens_tok(c['e1'])} {lst(c['old0'], frame_tok)} "
                         f"{lst(c['old1'], frame_tok)} {frac_token(c['xi'])}")
            codes.append(code_line(r))
        return r, cm

    for c in vel_cases(ctx):
        rep = strip(c)
        fs = {}
        o0 = [[float(f[0]), float(phys(f)[1])] for f in c["old0"]]
        o1 = [[float(f[0]), float(phys(f)[1])] for f in c["old1"]]
        # the old paths carry the full order vector [2x+v, v] of their physical phase points
        old0 = W.mk_path(fs, "old0", c["old0"])
        old1 = W.mk_path(fs, "old1", c["old1"])
        for p_, oo in ((old0, o0), (old1, o1)):
            for fr, o in zip(p_.phasepoints, oo):
                fr.order = list(o)
        r1, cm = one(c, fs, (old0, old1), 1)
        ctx.distinct(lines[-1])
        if "err" in r1:
            continue
        if not r1["accept"]:
            continue
        n0, n1 = full_orders(r1["objs"][0]), full_orders(r1["objs"][1])
        if c["kind"] == "retis":
            if n0[-2:] != o1[:2] or n1[:2] != o0[-2:]:
                ctx.fail("C11:junction", f"order vectors at the junction: new[0-][-2:]={n0[-2:]} vs old[0+][:2]={o1[:2]}; "
                         f"new[0+][:2]={n1[:2]} vs old[0-][-2:]={o0[-2:]}", rep)
        else:
            if n0[-2] != o1[0] or n1[0] != o0[-2]:
                ctx.fail("C11:quantis-junction", f"order vectors at the junction: new[0-][-2]={n0[-2]} vs old[0+][0]={o1[0]}; "
                         f"new[0+][0]={n1[0]} vs old[0-][-2]={o0[-2]}", rep)
            continue
        # swap twice (retis): order vectors and phase points come back
        c2 = dict(c, old0=r1["path0"], old1=r1["path1"])
        r2, _ = one(c2, fs, tuple(r1["objs"]), 2)
        if "err" in r2 or not r2["accept"]:
            ctx.fail("C11:swap-twice-second-rejected", f"second swap of an accepted pair (velocity-dependent order parameter): "
                     f"{r2.get('status', r2.get('err'))}", rep)
            continue
        b0, b1 = full_orders(r2["objs"][0]), full_orders(r2["objs"][1])
        if b0 != o0 or b1 != o1:
            ctx.fail("C11:swap-twice-not-identity", f"velocity-dependent order parameter: after two swaps [0-] {[x[0] for x in b0]} vs "
                     f"{[x[0] for x in o0]}; [0+] {[x[0] for x in b1]} vs {[x[0] for x in o1]}", rep)
        if [phys(f) for f in r2["path0"]] != [phys(f) for f in c["old0"]] or [phys(f) for f in r2["path1"]] != [phys(f) for f in c["old1"]]:
            ctx.fail("C11:swap-twice-phase-points", "two swaps do not restore the phase points (velocity-dependent order parameter)", rep)
    if have_model and lines:
        out = ctx.driver(lines)
        for ln, cl, ml in zip(lines, codes, out):
            if cl != ml:
                ctx.disagree({"line": ln}, cl, ml)
    if lines:
        ctx.sample({"case": lines[0], "code": codes[0]})


# --------------------------------------------------------------------------- extension pass: tables, pastes, balance
Q_STATUSES = ["-", "ACC", "BTX", "BTS", "0-L", "FTX", "FTS", "HAS", "QNE", "QLL", "QS0", "QS1", "QEA", "QR*", "QLR", "0+R"]
R_COMBOS = [(a, b, w, h) for a in ("BTX", "BTS", "0-L", "ACC") for b in ("FTX", "FTS", "ACC") for w in (0, 1) for h in (0, 1)]


def spec_tables(ctx):
    """the Lean SPEC functions `quantisFields`, `retisTable`, `retisField1` (right-hand sides of
    quantis_status_table / retis_status_table) evaluated once through the driver"""
    lines = [f"qfields {s_}" for s_ in Q_STATUSES] + [f"rtable {a} {b} {w} {h}" for (a, b, w, h) in R_COMBOS]
    out = ctx.driver(lines)
    qf = {s_: tuple(o.split()) for s_, o in zip(Q_STATUSES, out[:len(Q_STATUSES)])}
    rt = {k: tuple(o.split()) for k, o in zip(R_COMBOS, out[len(Q_STATUSES):])}
    return qf, rt


def py_status0(e0, p):
    """tis.py:915-925 stated directly on the returned [0-] path"""
    lo = min(e0["i"])
    if len(p) == e0["maxlen"]:
        return "BTX"
    if len(p) < 3:
        return "BTS"
    if not e0["sc"][0] and (p[0][0] <= lo or p[-1][0] <= lo):
        return "0-L"
    return "ACC"


def py_status1(e1, p):
    if len(p) >= e1["maxlen"]:
        return "FTX"
    if len(p) < 3:
        return "FTS"
    return "ACC"


def check_tables(ctx, T, c, r):
    """status tables and draw position, judged on the real outputs with the Lean spec tables"""
    if "err" in r:
        return
    rep = strip(c)
    pre4 = ("QNE", "QLL", "QS0", "QS1")
    if c["kind"] == "quantis":
        if T is not None:
            want = T[0].get(r["status"])
            if want is None or r["status"] in ("-", "HAS"):
                ctx.fail("C11:quantis-status-not-in-table", f"quantis_swap_zero returned status {r['status']!r}", rep)
            elif (r["st0"], r["st1"]) != want:
                ctx.fail("C11:quantis-status-fields", f"status {r['status']}: the returned paths carry status ({r['st0']}, {r['st1']}), "
                         f"table (Infretis.ZeroSwap.quantisFields) says {want}", rep)
        exp_draws = 0 if r["status"] in pre4 else 1
        if r["draws"] != exp_draws or (exp_draws == 1 and r.get("at") != 2):
            ctx.fail("C11:quantis-draw-position", f"status {r['status']}: {r['draws']} draws, the first after {r.get('at')} engine requests "
                     f"(ξ belongs after exactly the two one-step propagations, and only when the pre-checks passed)", rep)
        return
    if r.get("same"):
        return          # λ₋₁ early return: judged by C11:lm1-left-not-rejected-early
    try:
        s0, s1 = py_status0(c["e0"], r["path0"]), py_status1(c["e1"], r["path1"])
    except Exception:  # noqa: BLE001
        return
    wf = int(bool(c["e0"]["wf"] or c["e1"]["wf"]))
    if T is not None:
        want = T[1].get((s0, s1, wf, int(r["accept"])))
        if want is not None and ((r["status"], r["st1"]) != want or r["st0"] != r["status"]):
            ctx.fail("C11:retis-status-table", f"new paths have statuses ({s0}, {s1}), wf={wf}, accept={r['accept']}: returned {r['status']} with "
                     f"path fields ({r['st0']}, {r['st1']}); table (Infretis.ZeroSwap.retisTable/retisField1) says {want}", rep)
    exp_draws = 1 if (s0 == "ACC" and s1 == "ACC" and wf) else 0
    if r["draws"] != exp_draws or (exp_draws == 1 and r.get("at") != len(r["reqs"])):
        ctx.fail("C11:retis-draw-position", f"{r['draws']} draws (expected {exp_draws}), the first after {r.get('at')} of {len(r['reqs'])} requests", rep)


def paste_lines(ctx, c, r):
    """the paste_paths / reverse calls the real quantis_swap_zero made → (driver line, what the real calls returned, ncalls)"""
    pr = r.get("pastes") if "err" not in r else None
    if not pr:
        return None
    rep = strip(c)
    if "unreadable" in pr:
        ctx.fail("C11:output-not-interpretable", "paste_paths arguments not readable: " + pr["unreadable"], rep)
        return None
    calls, revs = pr["calls"], pr["revs"]
    if len(calls) > 2 or len(revs) > 1 or (len(calls) == 2) != (len(revs) == 1):
        ctx.fail("C11:quantis-paste-calls", f"{len(calls)} paste_paths calls and {len(revs)} reverse calls", rep)
        return None
    back, tmp0, ov0, m0, res0, t0, _ = calls[0]
    if r["path0"] != res0 and r["status"] != "QR*":
        ctx.fail("C11:quantis-path0-not-the-pasted-path", f"returned [0-] path {[f[0] for f in r['path0']]} is not what paste_paths returned "
                 f"{[f[0] for f in res0]}", rep)
    tmp1, forw, m1, res1, t1 = [], [], 0, [], None
    if len(calls) == 2:
        revd, forw, ov1, m1, res1, t1, _ = calls[1]
        tmp1, of_none, rv = revs[0]
        if not ov0 or not ov1 or not of_none or rv:
            ctx.fail("C11:quantis-paste-calls", f"overlap={ov0},{ov1} order_function None={of_none} rev_v={rv}", rep)
        if revd != list(reversed(tmp1)):
            ctx.fail("C11:quantis-paste-calls", "tmp_path1.reverse(None, rev_v=False) did not hand the reversed frames (values unchanged) to paste_paths", rep)
        if r["path1"] != res1:
            ctx.fail("C11:quantis-path1-not-the-pasted-path", "returned [0+] path is not what paste_paths returned", rep)
    try:
        line = (f"qpaste {lst(back, frame_tok)} {lst(tmp0, frame_tok)} {lst(tmp1, frame_tok)} {lst(forw, frame_tok)} "
                f"{int(m0)} {int(m1)}")
        real = f"{lst(res0, frame_tok)} {t0}" + (f" | {lst(res1, frame_tok)} {t1}" if len(calls) == 2 else "")
    except Exception:  # noqa: BLE001
        return None
    return line, real, len(calls)


def bal_v0(x):
    return (x % 7) - 3


def bal_v1(x):
    return 2 * (x % 5) - 4


def bal_script(eng_v, start_x, ops, base):
    """what an engine with energy function eng_v answers: energy of the start configuration, then frames with their energies"""
    xs = [base + k for k in range(len(ops) + PAD)]
    full = list(ops) + [ops[-1]] * PAD
    return (eng_v(start_x), [(o, (x, 3), eng_v(x)) for o, x in zip(full, xs)])


def balance_second(c, r1, pick):
    """the swap back of the accepted pair `r1`: engines answer with the same energy functions"""
    n0, n1 = r1["path0"], r1["path1"]
    A2 = bal_script(bal_v0, n1[0][1][0], [pick((1, 2))], 700)
    B2 = bal_script(bal_v1, n0[-2][1][0], [pick((1, 2))], 800)
    C2 = bal_script(bal_v0, n1[0][1][0], [-1, 1], 900)
    D2 = bal_script(bal_v1, 800, [1, 4], 1000)
    return dict(c, old0=n0, old1=n1, scripts=[A2, B2, C2, D2], aa=True, tag="quantis-balance-back")


def balance_cases(ctx):
    """QuanTIS with engines whose energies are FUNCTIONS of the configuration (V0, V1 of the position), old paths carrying
    those energies: accepted swap, then the swap back — hypotheses of Infretis.C11.quantis_detailed_balance"""
    rng = ctx.rng
    out = []
    for _ in range(150 if ctx.quick else 3000):
        vn, i0, sc = rng.choice([("plain", (NEG, 0, 0), (False, True)), ("lm1", (-3, -2, 0), (True, True))])
        m = rng.choice((7, 8, 9, 12))
        o0 = [1] + [rng.choice((-1, -2)) for _ in range(rng.randint(0, 2))] + [rng.choice((-1, -2)), 1]
        o1 = [rng.choice((-1, -2))] + [rng.choice((1, 2)) for _ in range(rng.randint(1, 2))] + [rng.choice((-1, 4))]
        x0 = [rng.randint(100, 199) for _ in o0]
        x1 = [rng.randint(200, 299) for _ in o1]
        old0 = [(o, (x, rng.choice((-2, 1))), rng.random() < 0.3, bal_v0(x)) for o, x in zip(o0, x0)]
        old1 = [(o, (x, rng.choice((-2, 1))), rng.random() < 0.3, bal_v1(x)) for o, x in zip(o1, x1)]

        scr = bal_script
        xa, xb = rng.randint(300, 349), rng.randint(400, 449)
        A = scr(bal_v0, old1[0][1][0], [rng.choice((1, 2))], xa)
        B = scr(bal_v1, old0[-2][1][0], [rng.choice((1, 2))], xb)
        C = scr(bal_v0, old1[0][1][0], [rng.choice((-1, -2)) for _ in range(rng.randint(0, 2))] + [1], 500)
        D = scr(bal_v1, xb, [rng.choice((1, 2)) for _ in range(rng.randint(0, 2))] + [rng.choice((-1, 4))], 600)
        c = {"kind": "quantis", "tag": "quantis-balance", "e0": ens(i0, m, sc), "e1": ens((0, 1, 3), m, (True, False)),
             "old0": old0, "old1": old1, "scripts": [A, B, C, D], "aa": False, "xi": Fraction(0),
             "beta0": rng.choice((Fraction(1), Fraction(1, 2), Fraction(2))), "beta1": rng.choice((Fraction(1), Fraction(1, 2), Fraction(2)))}
        out.append((c, scr))
    return out


def balance_block(ctx, W, have_model):
    lines, codes = [], []
    for c, scr in balance_cases(ctx):
        fs = {}
        r1 = W.run(c, fs=fs, dirk=1)
        br = check_case(ctx, c, r1)
        ctx.count(1, branch=f"balance:first:{br}", gen=c["tag"])
        p1 = Fraction(r1["p"]) if ("err" not in r1 and r1.get("p") is not None) else Fraction(1)
        lines.append(case_line(c, p1))
        codes.append(code_line(r1))
        ctx.distinct(lines[-1])
        if "err" in r1 or not r1["accept"]:
            continue
        c2 = balance_second(c, r1, ctx.rng.choice)
        r2 = W.run(c2, fs=fs, old_paths=tuple(r1["objs"]), dirk=2)
        br2 = check_case(ctx, c2, r2)
        ctx.count(1, branch=f"balance:back:{br2}", gen=c2["tag"])
        p2 = Fraction(r2["p"]) if ("err" not in r2 and r2.get("p") is not None) else Fraction(1)
        lines.append(case_line(c2, p2))
        codes.append(code_line(r2))
        if "err" in r2 or r2.get("ea") is None:
            ctx.fail("C11:quantis-not-reversible", f"the swap back of an accepted QuanTIS pair did not reach the energy rule: "
                     f"{r2.get('status', r2.get('err'))}", strip(c))
            continue
        if r2["ea"] != -r1["ea"]:
            ctx.fail("C11:quantis-not-reversible", f"exponent of the swap {r1['ea']!r}, of the swap back {r2['ea']!r} (must be its negative: "
                     f"detailed balance of min(1, exp(β0ΔV0 − β1ΔV1)))", strip(c))
    if have_model and lines:
        out = ctx.driver(lines)
        for ln, cl, ml in zip(lines, codes, out):
            if cl != ml:
                ctx.disagree({"line": ln}, cl, ml)
    if lines:
        ctx.sample({"case": lines[-1], "code": codes[-1]})


# --------------------------------------------------------------------------- the run
_TABLES = [None]


def _quantis_lm1_config(quantis, lm1):
    ts = {"maxlength": 100, "allowmaxlength": False, "zero_momentum": False, "n_jumps": 2}
    if quantis is not None:
        ts["quantis"] = quantis
    if lm1 is not None:
        ts["lambda_minus_one"] = lm1
    eng = {"class": "turtlemd", "engine": "turtlemd", "timestep": 0.002, "temperature": 0.1, "subcycles": 1}
    return {"runner": {"workers": 1, "wmdrun": ["x"]},
            "simulation": {"interfaces": [0.5, 0.7, 0.9], "steps": 10, "seed": 0, "load_dir": "load",
                           "shooting_moves": ["sh", "sh", "sh"], "tis_set": ts},
            "engine": dict(eng), "engine0": dict(eng), "orderparameter": {"class": "Distance", "index": [0, 1]},
            "output": {"data_dir": "./", "screen": 1, "pattern": False, "delete_old": False}}


def run_quantis_lm1_config(quantis, lm1):
    """the REAL setup_config (which calls check_config) on a written infretis.toml, then the real REPEX_state.initiate_ensembles:
    'reject' | 'pass <L in start_cond of [0-]> <R in …>' | 'error:<kind>'"""
    import importlib.util  # noqa: F401
    import tomli_w
    from infretis.classes.repex import REPEX_state
    from infretis.setup import TOMLConfigError, setup_config
    d = tempfile.mkdtemp(prefix="c11_cfg_", dir="/dev/shm" if os.path.isdir("/dev/shm") else None)
    cwd = os.getcwd()
    os.chdir(d)
    try:
        with open("infretis.toml", "wb") as fh:
            fh.write(tomli_w.dumps(_quantis_lm1_config(quantis, lm1)).encode())
        try:
            cfg = setup_config("infretis.toml")
        except TOMLConfigError as e:
            return "reject" if "quantis" in str(e) else "error:other-config-error:" + str(e)[:60]
        st = REPEX_state(cfg, minus=True)
        st.initiate_ensembles()
        sc = set(st.ensembles[0]["start_cond"])
        return f"pass {int('L' in sc)} {int('R' in sc)}"
    except Exception as e:  # noqa: BLE001
        return "error:" + err_kind(e)
    finally:
        os.chdir(cwd)
        shutil.rmtree(d, ignore_errors=True)


def config_block(ctx, have_model, only=None):
    """the precondition of the QuanTIS clauses, end to end (Infretis.C11.quantis_runs_without_lm1): no configuration with QuanTIS
    AND a λ₋₁ — 0.0 included (fix b3eda5b) — gets past the real setup_config / check_config"""
    combos = [(q, l) for q in (True, False, None) for l in (None, 0.0, -0.5, -0.0, -3.0)]
    lines, codes = [], []
    for (q, l) in combos:
        if only is not None and [q, l] != list(only):
            continue
        got = run_quantis_lm1_config(q, l)
        ctx.count(1, branch=f"config:quantis={q}:lm1={'absent' if l is None else l}:{got.split(':')[0].split(' ')[0]}")
        if q and l is not None and got != "reject":
            ctx.fail("C11:quantis-lm1-left-not-rejected-early",
                     f"a configuration with quantis = true and lambda_minus_one = {l!r} is not rejected by setup_config / check_config "
                     f"({got}): quantis_swap_zero has no λ₋₁ early reject — a [0-] path that ended on the left would be propagated "
                     f"and can be accepted (Infretis.C11.quantis_lm1_left_not_rejected_counterexample)",
                     {"config": {"quantis": q, "lambda_minus_one": l}})
        if got.startswith("error"):
            ctx.fail("C11:config-probe-error", f"quantis={q} lambda_minus_one={l}: {got}", {"config": {"quantis": q, "lambda_minus_one": l}})
        lines.append(f"qlm1cfg {int(bool(q))} {'-' if l is None else frac_token(l)}")
        codes.append(got)
    if have_model and lines:
        for ln, cl, ml in zip(lines, codes, ctx.driver(lines)):
            if cl != ml:
                ctx.disagree({"line": ln}, cl, ml)


def check_case(ctx, c, r):
    """property predicates on the real output `r` of case `c` (incl. the status tables / draw position); returns branch label"""
    br = _check_case(ctx, c, r)
    try:
        check_tables(ctx, _TABLES[0], c, r)
    except Exception as e:  # noqa: BLE001
        ctx.fail("C11:output-not-interpretable", f"status table predicate could not read the result: {e!r}", strip(c))
    return br


def _check_case(ctx, c, r):
    """property predicates on the real output `r` of case `c`; returns branch label"""
    rep = {k: c[k] for k in c if k != "tag"}
    # C09 clause for the zero swaps: whatever the outcome, the old paths (frame objects, order, config, vel_rev,
    # energies, the files they point to, status/generated/weights/maxlen) are exactly as before the call
    if r.get("mutated"):
        ctx.fail("C11:old-path-mutated-by-zero-swap",
                 f"zero swap ({c['kind']}, outcome {r.get('status', r.get('err'))}) changed the OLD path it was given — "
                 f"{r['mutated']}; violates C09 'a rejected move leaves the old path's frames and files untouched' "
                 f"(and on ACC run_md only replaces references)", rep)
    if c.get("engine") == "vel" and "err" not in r:
        # every frame must carry the order parameter of its PHYSICAL phase point (velocity-dependent λ = 2x+v)
        for pth in (r["path0"], r["path1"]):
            bad = [f for f in pth if f[1][0] != "missing-file" and f[0] != 2 * phys(f)[0] + phys(f)[1]]
            if bad:
                f = bad[0]
                ctx.fail("C11:order-value-not-of-the-phase-point",
                         f"frame {f}: order value {f[0]} but its physical phase point {phys(f)} has 2x+v = "
                         f"{2 * phys(f)[0] + phys(f)[1]} (calculate_order must use -v for vel_rev frames, cf. C20/C12)", rep)
                break
    if r.get("harness_exc"):
        ctx.fail("C11:output-not-interpretable", "the harness could not interpret what the zero swap returned for this input "
                 "(changed code?): " + r["harness_exc"], rep)
        return "harness-exception"
    if r.get("aliased"):
        ctx.fail("C11:new-path-aliases-old-frame", f"{r['aliased']} — the new paths must be built from copies (C09: a later "
                 f"move on one path must not corrupt the other)", rep)
    if c["kind"] == "quantis" and "err" not in r and r["status"] == "QNE" and len(c["old0"]) >= 2 and c["old1"] \
            and c["old0"][-2][3] is not None and c["old1"][0][3] is not None:
        ctx.fail("C11:quantis-energies-present-but-QNE", f"both shooting points carry energies ({c['old0'][-2][3]}, {c['old1'][0][3]}; "
                 f"0.0 is an energy) but the swap was rejected as 'QNE'", rep)
    stale = [q for q in r.get("reqs", []) if q.endswith(":OLD")]
    if stale:
        ctx.fail("C11:old-frame-handed-to-engine",
                 f"a frame object of an old path (not a copy) was handed to the engine, which mutates it: {stale} (C09: old path untouched)", rep)
    if "err" in r:
        return "error:" + r["err"]
    e0, e1 = c["e0"], c["e1"]
    kind = c["kind"]
    # λ₋₁ early reject: a [0-] path that ended on the left is rejected, nothing is asked of the engines
    if kind in ("retis", "retisdet") and e0["sc"] == (True, True) and ordered(e0) and c["old0"] and c["old0"][-1][0] <= e0["i"][0]:
        if r["accept"] or r["status"] != "0-L" or r["reqs"] or not r["same"]:
            ctx.fail("C11:lm1-left-not-rejected-early",
                     f"[0-] path ending left of λ₋₁: accept={r['accept']} status={r['status']} engine requests={r['reqs']}", rep)
        return "early-0-L"
    if kind == "quantis" and e0["sc"] == (True, True) and ordered(e0) and len(c["old0"]) >= 2 and c["old1"] \
            and c["old0"][-1][0] <= e0["i"][0] and (r["reqs"] or r["accept"]):
        # quantis_swap_zero has no λ₋₁ early reject (Infretis.C11.quantis_lm1_left_not_rejected_counterexample); a direct call on
        # a [0-] ensemble WITH λ₋₁ is a state no accepted configuration produces (check_config, fix b3eda5b; judged end to end
        # by config_block below): model-vs-code comparison only, not a property failure
        ctx.hit("quantis:direct call with λ₋₁, path ended on the left (unreachable configuration; model comparison only)"
                + (":accepted" if r["accept"] else ""))
    if r["accept"] != (r["status"] == "ACC"):
        ctx.fail("C11:accept-status-mismatch", f"accept={r['accept']} with status {r['status']}", rep)
    if not r["accept"]:
        return "rej:" + r["status"]
    if kind in ("retis", "retisdet"):
        why = junction_ok(c, r)
        if why:
            ctx.fail("C11:junction", why, rep)
        nondry = kind == "retisdet" or c.get("engine") == "vel" or all(len(s[1]) + 2 >= e1["maxlen"] for s in c["scripts"])
        if e0["maxlen"] <= e1["maxlen"] and nondry and ordered(e0) and ordered(e1) and e0["i"][2] == e1["i"][0] \
                and valid_minus(e0, c["old0"]) and valid_plus(e1, c["old1"]):
            if not valid_minus(e0, r["path0"]) or len(r["path0"]) >= e0["maxlen"]:
                ctx.fail("C11:new-minus-path-not-member", f"accepted new [0-] path {[f[0] for f in r['path0']]} "
                         f"for interfaces {e0['i']} maxlen {e0['maxlen']}", rep)
            if not valid_plus(e1, r["path1"]) or len(r["path1"]) >= e1["maxlen"]:
                ctx.fail("C11:new-plus-path-not-member", f"accepted new [0+] path {[f[0] for f in r['path1']]} "
                         f"for interfaces {e1['i']} maxlen {e1['maxlen']}", rep)
            return "ACC-valid-olds"
        if e0["maxlen"] > e1["maxlen"] and ordered(e0) and valid_minus(e0, c["old0"]) and valid_plus(e1, c["old1"]) \
                and nondry and not valid_minus(e0, r["path0"]):
            ctx.hit("quirk:maxlen0>maxlen1 accepts a [0-] path that never crossed (unreachable from a config file)")
        return "ACC"
    # QuanTIS (Infretis.C11.quantis_swap_members): an accepted swap yields members of both ensembles, whatever the old paths
    # were, for MD programs that do not end before the length limit (both limits are read from the [0-] settings)
    nondry = c.get("engine") == "vel" or all(len(s_[1]) + 2 >= e0["maxlen"] for s_ in c["scripts"][2:4])
    if nondry and ordered(e0) and e0["i"][2] == e1["i"][0] and e0["maxlen"] <= e1["maxlen"]:
        if not valid_minus(e0, r["path0"]):
            ctx.fail("C11:new-minus-path-not-member", f"QuanTIS accepted new [0-] path {[f[0] for f in r['path0']]} "
                     f"for interfaces {e0['i']} maxlen {e0['maxlen']}", rep)
        if not valid_plus(e1, r["path1"]):
            ctx.fail("C11:new-plus-path-not-member", f"QuanTIS accepted new [0+] path {[f[0] for f in r['path1']]} "
                     f"for interfaces {e1['i']} maxlen {e1['maxlen']}", rep)
        return "ACC-members"
    return "ACC"


def has_weights(W, c, r):
    """what C10 says the high-acceptance swap must use: compute_weight of the new/old [0+] path with the right
    boundary at tis_set['interface_cap'] if set (as calc_cv_vector / wire_fencing do), else the last interface.
    Returns (ratio with the cap, ratio ignoring the cap, expected weight of new path0, of new path1)."""
    tis = W.tis
    e0, e1 = c["e0"], c["e1"]
    mv = lambda e: "wf" if e["wf"] else "sh"  # noqa: E731

    def iw(e, use_cap=True):
        i = [fl(x) for x in e["i"]]
        if use_cap and e["cap"] is not None:
            i[2] = float(e["cap"])
        return i

    def ratio(use_cap):
        path1, old1 = r["objs"][1], r["olds"][1]
        c1o = tis.compute_weight(path1, iw(e0, use_cap), mv(e0))
        c2o = tis.compute_weight(old1, iw(e1, use_cap), mv(e1))
        c1n = tis.compute_weight(old1, iw(e0, use_cap), mv(e0))
        c2n = tis.compute_weight(path1, iw(e1, use_cap), mv(e1))
        return 1.0 if (c1o == 0 or c2o == 0) else c1n * c2n / (c1o * c2o)
    w0 = tis.compute_weight(r["objs"][0], iw(e0), mv(e0)) if e0["wf"] else 1
    w1 = tis.compute_weight(r["objs"][1], iw(e1), mv(e1)) if e1["wf"] else 1
    return ratio(True), ratio(False), w0, w1


def check_high_acc(ctx, W, c, r):
    """direct predicate for the swaps that went through high_acc_swap (one draw): accepted iff ξ < ratio of the
    C10 weights AT THE CAP; status ACC/HAS accordingly; the weights put on the new paths are those weights"""
    if "err" in r or c["kind"] != "retis" or r["draws"] != 1:
        return None
    try:
        p_cap, p_last, w0, w1 = has_weights(W, c, r)
    except Exception:  # noqa: BLE001  (cap left of λ0 etc.: compute_weight itself refuses)
        return None
    x = float(c["xi"])
    want = x < p_cap
    bad = []
    if r["accept"] != want or r["status"] != ("ACC" if want else "HAS"):
        bad.append(f"ξ={x!r}: accept={r['accept']} status={r['status']}, but the weight ratio at the cap is {p_cap!r} "
                   f"(ignoring the cap it would be {p_last!r})")
    if float(r["w0"]) != float(w0) or float(r["w1"]) != float(w1):
        bad.append(f"weights set on the new paths ({r['w0']}, {r['w1']}) ≠ compute_weight at the cap ({w0}, {w1})")
    if bad:
        ctx.fail("C11:high-acc-swap-weights-ignore-cap",
                 "high_acc_swap does not use the wire-fencing weights counted up to interface_cap (C10: 'high_acc_swap ratio "
                 "uses these weights'): " + "; ".join(bad), {k: c[k] for k in c if k != "tag"})
    return p_cap, p_last


def has_cases(ctx, W):
    """[0+] (sometimes also [0-]) is a wire-fencing ensemble, interface_cap strictly inside (1 < 3 < 5), old and new
    [0+] paths with frames between the cap and the last interface; ξ on both sides of the ratio at the cap and of
    the ratio that ignores the cap"""
    rng = ctx.rng
    out = []
    n = 700 if ctx.quick else 12000
    for _ in range(n):
        cap = rng.choice((3, 3, 3, 2, 4, None, 0, 1, 5))   # incl. cap == λ0 (0.0!), == middle, == λN
        wf0 = rng.random() < 0.2
        e0 = ens((NEG, 0, 0), 30, (False, True), wf0, cap)
        e1 = ens((0, 1, 5), 30, (True, False), True, cap)
        inner = lambda k: [rng.choice((1, 2, 2, 3, 4, 4)) for _ in range(k)]  # noqa: E731
        o1 = [rng.choice((-1, 0))] + inner(rng.randint(2, 8)) + [rng.choice((-1, -1, 6))]
        o0 = [1] + [rng.choice((-1, -2)) for _ in range(rng.randint(1, 3))] + [1]
        fw = inner(rng.randint(1, 8)) + [rng.choice((-1, -1, 6))]
        bw = [rng.choice((-1, -2)) for _ in range(rng.randint(0, 3))] + [1]
        base = {"kind": "retis", "tag": "high-acc-cap", "e0": e0, "e1": e1,
                "old0": [(o, (100 + k, 1), False, 0) for k, o in enumerate(o0)],
                "old1": [(o, (200 + k, 1), False, 0) for k, o in enumerate(o1)],
                "scripts": [mk_script(bw, 300, -1), mk_script(fw, 400, 1)], "xi": Fraction(0)}
        r = W.run(base)
        out.append((base, r))
        if "err" in r or r["draws"] != 1:
            continue
        try:
            p_cap, p_last, _, _ = has_weights(W, base, r)
        except Exception:  # noqa: BLE001
            continue
        xs = set()
        for p in (p_cap, p_last):
            for d in (-3, 3):
                x = Fraction(round(Fraction(p) * (1 << 30)) + d, 1 << 30)
                if 0 <= x < 1:
                    xs.add(x)
            fp = Fraction(p).limit_denominator(10 ** 6)   # the rational ratio of the (small integer) weights
            if float(fp) == p and fp.denominator & (fp.denominator - 1) == 0 and 0 <= fp < 1:
                xs.add(fp)      # ξ = ratio exactly, only where the float ratio is exact (strict <: rejected)
        xs.add(Fraction(0))     # random() can return exactly 0.0
        if p_cap != p_last:
            xs.add((Fraction(p_cap) + Fraction(p_last)) / 2 if 0 <= (Fraction(p_cap) + Fraction(p_last)) / 2 < 1 else Fraction(1, 2))
        for x in sorted(xs):
            # keep ξ a float-exact dyadic
            xf = Fraction(float(x))
            cx = dict(base, xi=xf)
            out.append((cx, W.run(cx)))
    return out


def second_case(c):
    """the follow-up move on the same old paths: longer limits (so that it usually gets further), accept_all"""
    c2 = dict(c)
    c2["e0"] = dict(c["e0"], maxlen=c["e0"]["maxlen"] + 3)
    c2["e1"] = dict(c["e1"], maxlen=c["e1"]["maxlen"] + 3)
    if "n" in c:
        c2["n"] = c["n"] + 3
    if c["kind"] == "quantis":
        c2["aa"] = True
    return c2


def after_rejection(ctx, W, c, r, fs):
    """C09 for zero swaps as a two-move sequence: a swap rejected AFTER propagation, the engines' scratch files
    cleaned (as the worker's clean_up does), then another move on the SAME old path objects: it must behave exactly
    as on fresh copies of the old paths.  Returns True if the sequence was run."""
    if "err" in r or r["accept"] or not any(q.startswith("P:") for q in r["reqs"]):
        return False
    for k in [k for k in fs if k.startswith(W.root)]:
        del fs[k]
    c2 = second_case(c)
    ra = W.run(c2, fs=fs, old_paths=r["olds"], dirk=1)
    rb = W.run(c2)
    la, lb = code_line(ra), code_line(rb)
    if la != lb:
        ctx.fail("C11:second-move-differs-after-rejected-swap",
                 f"after a zero swap rejected with {r['status']} (and clean_up) the next move on the same old paths gives "
                 f"[{la[:120]}] but on fresh copies [{lb[:120]}] — the rejected move did not leave the old paths untouched (C09)",
                 {k: c[k] for k in c if k != "tag"})
    check_case(ctx, c2, ra)
    return True


def norm_eid(line):
    """request lines with the engine number blanked (one shared engine object serves both ensembles)"""
    import re
    return re.sub(r"\b([PD]):[01]:", r"\1:*:", line)


class LongLived:
    """(a) object state / call history: ONE pair of engine objects — distinct, and one object shared by [0-] and
    [0+] — reused over a sequence of unrelated cases in the same exe_dir (scratch file names such as second.sc are
    rewritten with different content every time); each result must equal the fresh-object result"""

    def __init__(self):
        self.lives = [{"shared": False}, {"shared": True}]
        self.n = 0

    def check(self, ctx, W, c, r_fresh):
        if c.get("engine") == "vel" or c["kind"] not in ("retis", "quantis"):
            return
        live = self.lives[self.n % 2]
        if live["shared"] and c["kind"] == "quantis" and c["beta0"] != c["beta1"]:
            live = self.lives[0]     # one engine object has one temperature
        self.n += 1
        if "eng" in live and type(live["eng"][0]).__name__ != "ScriptedEngine":
            return
        r = W.run(c, live=live)
        a, b = code_line(r), code_line(r_fresh)
        if live["shared"]:
            a, b = norm_eid(a), norm_eid(b)
        ctx.count(1, branch="long-lived-engine:" + ("shared" if live["shared"] else "distinct"))
        if a != b:
            ctx.fail("C11:result-depends-on-engine-history",
                     f"with engine objects that already served {self.n - 1} other swaps ({'one object for both ensembles' if live['shared'] else 'two objects'}) "
                     f"the swap gives [{a[:150]}], with fresh engines [{b[:150]}]", {k: c[k] for k in c if k != "tag"})
        check_case(ctx, c, r)


def sequence_block(ctx, W):
    """(a)+(b) the same engine objects AND the same ens_set dicts over: swap, swap back, swap again, then a QuanTIS swap;
    engines distinct / one shared object; every step compared with fresh engines + fresh dicts on the same input;
    finally mutate the results and look at the sources"""
    cases = [c for c in det_cases(ctx)][: (120 if ctx.quick else 1500)]
    vel = [c for c in vel_cases(ctx) if c["kind"] == "retis"][: (60 if ctx.quick else 600)]
    for k, c in enumerate(cases + vel):
        rep = strip(c)
        live = {"shared": k % 2 == 1, "keep_ens": True}
        fs = {}
        olds = None
        cur = dict(c)
        hist = []
        for stepno, kind in enumerate(("retis", "retis", "retis", "quantis")):
            cc = dict(cur, kind=("retisdet" if (kind == "retis" and c.get("engine") != "vel") else kind))
            if kind == "quantis":
                cc.update(kind="quantis", aa=False, beta0=Fraction(1), beta1=Fraction(1), xi=Fraction(0))
                if c.get("engine") != "vel":
                    cc["engine"] = "det-as-quantis"
            if olds is None:
                olds = (W.mk_path(fs, "old0", c["old0"]), W.mk_path(fs, "old1", c["old1"]))
            # accepted paths are moved to storage between moves in a real run; here: the move's scratch directory
            # alternates, so that a move never overwrites the files its input paths point to
            r_f = W.run(cc, fs=fs, old_paths=olds, dirk=0) if cc.get("engine") != "det-as-quantis" else None
            if cc.get("engine") == "det-as-quantis":
                break       # the plain reversible engine has no quantis wiring; the vel engine covers the 4th step
            r_l = W.run(cc, fs=fs, old_paths=olds, dirk=1 + stepno % 2, live=live)
            a, b = code_line(r_l), code_line(r_f)
            if live["shared"]:
                a, b = norm_eid(a), norm_eid(b)
            ctx.count(1, branch=f"sequence:step{stepno}:{r_l.get('status', r_l.get('err'))}")
            if a != b:
                ctx.fail("C11:result-depends-on-engine-history",
                         f"step {stepno} ({kind}) of swap/swap-back/swap-again/quantis with long-lived engines and ens_set dicts gives "
                         f"[{a[:150]}], fresh objects give [{b[:150]}]", rep)
            for r_ in (r_l, r_f):
                if r_.get("mutated"):
                    ctx.fail("C11:old-path-mutated-by-zero-swap", f"step {stepno}: {r_['mutated']} (C09: old path untouched)", rep)
            hist.append(r_l)
            if "err" in r_l or (kind == "retis" and not r_l["accept"]):
                break
            if kind == "retis":
                olds = tuple(r_l["objs"])
                cur = dict(cur, old0=r_l["path0"], old1=r_l["path1"])
        # swap again == first swap (order values), for the steps that ran
        if len(hist) >= 3 and all("err" not in h and h["accept"] for h in hist[:3]):
            o = lambda p_: [f[0] for f in p_]  # noqa: E731
            if o(hist[2]["path0"]) != o(hist[0]["path0"]) or o(hist[2]["path1"]) != o(hist[0]["path1"]):
                ctx.fail("C11:swap-twice-not-identity", "the third swap does not reproduce the first one", rep)
        # (b) mutate the result, look at the source: the accepted new paths of the last retis step vs its input paths
        acc = [h for h in hist if "err" not in h and h.get("objs") and not h["same"]]
        if acc:
            h = acc[-1]
            src = [p_ for p_ in h["olds"] if p_ is not None]
            before = [snapshot(p_) for p_ in src]
            for p_ in h["objs"]:
                for fr in p_.phasepoints:
                    fr.config = ("clobbered", 99)
                    fr.vel_rev = not fr.vel_rev
                    fr.vpot = -1.0
                    fr.order = [1e9]
                p_.status = "XXX"
                del p_.phasepoints[:]
            for p_, b4 in zip(src, before):
                d = snapshot_diff(b4, snapshot(p_), {}, {}, "source path")
                if d:
                    ctx.fail("C11:new-path-aliases-old-frame", f"editing the paths a zero swap returned changed the path it was "
                             f"given: {d} (C09)", rep)


def strip(c):
    return {k: v for k, v in c.items() if k != "tag"}


def select_block(ctx, W, cases, results, label):
    """tie tightness: a sample of the cases again, this time through the REAL `select_shoot(picked)` (engine look-up in
    tis.ENGINES via eng_idx, the set-up loop, the routing len(picked) == 2 → quantis / retis by tis_set["quantis"]),
    with picked in either key order: the outcome must be the outcome of the direct call (which is what is compared
    with the Lean model)"""
    n = 0
    step = max(1, len(cases) // (400 if ctx.quick else 4000))
    for k in range(0, len(cases), step):
        c, r = cases[k], results[k]
        if c.get("engine") == "vel" or c["kind"] not in ("retis", "quantis"):
            continue
        cs = dict(c, via_select=True, picked_order=n % 2)
        rs = W.run(cs)
        n += 1
        a, b = code_line(rs), code_line(r)
        ctx.count(1, branch=f"select_shoot:{label}:{rs.get('status', rs.get('err'))}")
        if a != b:
            ctx.fail("C11:select-shoot-routes-differently",
                     f"through select_shoot (picked keys in order {list((0, -1) if cs['picked_order'] else (-1, 0))}) the zero swap gives "
                     f"[{a[:160]}], called directly [{b[:160]}]", strip(cs))
        if rs.get("mutated"):
            ctx.fail("C11:old-path-mutated-by-zero-swap", f"via select_shoot: {rs['mutated']}", strip(cs))


def run(ctx):
    W = World()
    try:
        _run(ctx, W)
    finally:
        W.close()


def _run(ctx, W):
    ctx.rule = ("[high-acceptance swap: seeded wf-[0+] cases with interface_cap strictly inside and frames between cap and last "
                "interface × ξ on both sides of the weight ratio at the cap and of the ratio ignoring the cap] "
                "retis_swap_zero: exhaustive over the frames either new path depends on (last two frames of old [0-], "
                "first two of old [0+], scripted MD streams up to a length over a level alphabet below/at/inside/at/above "
                "each interface, all (maxlen0,maxlen1) in 2..6 incl. limits hit exactly, plain and λ₋₁ variant), one side at a "
                "time with the other side fixed; then seeded random cases (longer paths, wf moves, caps, vel_rev flags, ending "
                "MD programs, malformed input). quantis_swap_zero: seeded structured + malformed cases × a ξ grid around "
                "pacc (pacc, its two float neighbours, midpoints) × accept_all. Reversible engine: trajectory pairs of the "
                "integer leap-frog double well found by seeded search, swapped twice. Non-trivial = the move reached a "
                "propagate call; distinct by the full case.")
    have_model = ctx._driver_ok
    _TABLES[0] = spec_tables(ctx) if have_model else None
    if _TABLES[0] is None:
        ctx.hit("note: status-table predicates run without the Lean spec tables (driver unavailable): draw positions only")
    config_block(ctx, have_model)
    # ------------------------------------------------------------------ retis
    cases = retis_cases(ctx)
    results = []
    ll = LongLived()
    for k, c in enumerate(cases):
        fs = {}
        r = W.run(c, fs=fs)
        results.append(r)
        if k % (9 if ctx.quick else 8) == 0:
            ll.check(ctx, W, c, r)
        if after_rejection(ctx, W, c, r, fs):
            ctx.count(1, branch="retis:second-move-after-rejection")
    if have_model:
        out = ctx.driver([case_line(c) for c in cases])
    for k, (c, r) in enumerate(zip(cases, results)):
        br = check_case(ctx, c, r)
        check_high_acc(ctx, W, c, r)
        ctx.count(1, branch=f"retis:{br}", gen=c["tag"])
        if r.get("reqs"):
            ctx.distinct(case_line(c))
        cl = code_line(r)
        if have_model and cl != out[k]:
            ctx.disagree(strip(c), cl, out[k])
        if k % 15013 == 7:
            ctx.sample({"case": case_line(c), "code": cl})
    select_block(ctx, W, cases, results, "retis")
    # ------------------------------------------------------------------ high-acceptance swap with an interface cap
    hc = has_cases(ctx, W)
    if have_model:
        out = ctx.driver([case_line(c) for c, _ in hc])
    for k, (c, r) in enumerate(hc):
        br = check_case(ctx, c, r)
        ctx.count(1, branch=f"has:{br}", gen=c["tag"])
        pr = check_high_acc(ctx, W, c, r)
        if pr is not None:
            ctx.distinct(case_line(c))
            x = float(c["xi"])
            if pr[0] != pr[1] and (x < pr[0]) != (x < pr[1]):
                ctx.hit("has:ξ between the ratio at the cap and the ratio ignoring the cap")
        cl = code_line(r)
        if have_model and cl != out[k]:
            ctx.disagree(strip(c), cl, out[k])
        if k == 11:
            ctx.sample({"case": case_line(c), "code": cl})
    # ------------------------------------------------------------------ velocity-dependent order parameter
    vel_block(ctx, W, have_model)
    # ------------------------------------------------------------------ long-lived objects over sequences of swaps
    sequence_block(ctx, W)
    # ------------------------------------------------------------------ quantis
    qbase = quantis_cases(ctx)
    qcases, qres = [], []
    for c in qbase:
        ca = dict(c, aa=True)
        fs = {}
        ra = W.run(ca, fs=fs)
        qcases.append(ca)
        qres.append(ra)
        if after_rejection(ctx, W, ca, ra, fs):
            ctx.count(1, branch="quantis:second-move-after-rejection")
        if len(qcases) % 3 == 0:
            ll.check(ctx, W, ca, ra)
        reached = "err" not in ra and ra["p"] is not None
        if not reached:
            cb = dict(c, aa=False)
            qcases.append(cb)
            qres.append(W.run(cb))
            continue
        p = ra["p"]
        # the value handed to min(1, ·) is exp of the energy expression of the property
        sp1, sp0 = c["old0"][-2], c["old1"][0]
        four = (sp1[3], c["scripts"][0][0], c["scripts"][1][0], sp0[3])
        if any(v is None for v in four):
            # the energy rule was evaluated although one of the four energies it is defined by does not exist
            # (V0(r0), V0(r1) = engine 0's energy of frame 0 of its one-step path, V1(r0) likewise, V1(r1)): whatever
            # number was used, it is not the prescribed one (the unchanged code raises TypeError here)
            ctx.fail("C11:quantis-wrong-exponent", f"np.exp called with {ra['ea']} although the energies (V0r0, V0r1, V1r0, V1r1) = {four} "
                     f"are not all present", strip(ca))
            continue
        want = (sp1[3] - c["scripts"][0][0]) * float(c["beta0"]) - (c["scripts"][1][0] - sp0[3]) * float(c["beta1"])
        if ra["ea"] != want or not math.isclose(p, math.exp(want), rel_tol=1e-14):
            ctx.fail("C11:quantis-wrong-exponent", f"np.exp called with {ra['ea']} → {p}; β0·ΔV0 − β1·ΔV1 = {want}", strip(ca))
        for x in xi_grid(p):
            cx = dict(c, aa=False, xi=Fraction(x))
            fs = {}
            rx = W.run(cx, fs=fs)
            qcases.append(cx)
            qres.append(rx)
            if "err" not in rx and rx["status"] == "QEA" and after_rejection(ctx, W, cx, rx, fs):
                ctx.count(1, branch="quantis:second-move-after-QEA")
            if "err" in rx:
                continue
            exp_acc = ra["accept"] and x <= min(1.0, p)
            if rx["accept"] != exp_acc or (rx["status"] == "QEA") != (not x <= min(1.0, p)):
                ctx.fail("C11:quantis-threshold", f"ξ={x!r} pacc=min(1,{p!r}): accept={rx['accept']} status={rx['status']} "
                         f"(with accept_all: {ra['status']})", strip(cx))
            if rx["draws"] != 1:
                ctx.fail("C11:quantis-draw-count", f"{rx['draws']} draws", strip(cx))
    if have_model:
        lines = []
        for c, r in zip(qcases, qres):
            p = Fraction(r["p"]) if ("err" not in r and r["p"] is not None) else Fraction(1)
            lines.append(case_line(c, p))
        out = ctx.driver(lines)
    for k, (c, r) in enumerate(zip(qcases, qres)):
        br = check_case(ctx, c, r)
        ctx.count(1, branch=f"quantis:{br}", gen=c["tag"])
        if r.get("reqs"):
            ctx.distinct(lines[k] if have_model else repr(strip(c)))
        cl = code_line(r)
        if have_model and cl != out[k]:
            ctx.disagree(strip(c), cl, out[k])
        if "err" not in r and r["accept"]:
            # QuanTIS junction: the one-step frames sit at the junctions
            n0, n1 = r["path0"], r["path1"]
            if n0[-2][0] != c["old1"][0][0] or phys(n0[-2]) != phys(c["old1"][0]) or \
               n1[0][0] != c["old0"][-2][0] or phys(n1[0]) != phys(c["old0"][-2]):
                ctx.fail("C11:quantis-junction", "junction frames are not the shooting points", strip(c))
        if k % 4001 == 5:
            ctx.sample({"case": lines[k] if have_model else "-", "code": cl})
    select_block(ctx, W, qcases, qres, "quantis")
    # the paste_paths / reverse calls of the real move against C15's path algebra (PathAlg.paste / Path.reverse)
    pl = []
    for c, r in zip(qcases, qres):
        t = paste_lines(ctx, c, r)
        if t is not None:
            pl.append((c, t))
            ctx.count(1, branch=f"quantis:paste-calls:{t[2]}")
    if have_model and pl:
        out = ctx.driver([t[0] for _, t in pl])
        for (c, (ln, real, ncalls)), ml in zip(pl, out):
            got = ml if ncalls == 2 else ml.split(" | ")[0]
            if got != real:
                ctx.disagree({"line": ln}, real, ml)
        ctx.sample({"case": pl[0][1][0], "code": pl[0][1][1]})
    # ------------------------------------------------------------------ quantis: detailed balance (swap and swap back)
    balance_block(ctx, W, have_model)
    # ------------------------------------------------------------------ reversible engine, swap twice
    dcases = det_cases(ctx) + det_cases(ctx, "min3") + det_cases(ctx, "tight") + det_cases(ctx, "long")
    dlines, dcode = [], []
    for c in dcases:
        fs = {}
        r1 = W.run(c, fs=fs, dirk=1)
        dlines.append(case_line(c))
        dcode.append(code_line(r1))
        br = check_case(ctx, c, r1)
        ctx.count(1, branch=f"det:{br}", gen=c["tag"])
        ctx.distinct(dlines[-1])
        if "err" in r1 or not r1["accept"]:
            if after_rejection(ctx, W, c, r1, fs):
                ctx.count(1, branch="det:second-move-after-rejection")
            continue
        c2 = dict(c, old0=r1["path0"], old1=r1["path1"])
        r2 = W.run(c2, fs=fs, old_paths=tuple(r1["objs"]), dirk=2)
        dlines.append(case_line(c2))
        dcode.append(code_line(r2))
        br2 = check_case(ctx, c2, r2)
        ctx.count(1, branch=f"det2:{br2}", gen=c["tag"])
        if "err" in r2 or not r2["accept"]:
            ctx.fail("C11:swap-twice-second-rejected", f"second swap of an accepted pair: {r2.get('status', r2.get('err'))}", strip(c))
            continue
        ops = lambda p: [f[0] for f in p]  # noqa: E731
        if ops(r2["path0"]) != ops(c["old0"]) or ops(r2["path1"]) != ops(c["old1"]):
            ctx.fail("C11:swap-twice-not-identity",
                     f"after two swaps [0-]: {ops(r2['path0'])} vs {ops(c['old0'])}; [0+]: {ops(r2['path1'])} vs {ops(c['old1'])}", strip(c))
        if [phys(f) for f in r2["path0"]] != [phys(f) for f in c["old0"]] or \
           [phys(f) for f in r2["path1"]] != [phys(f) for f in c["old1"]]:
            ctx.fail("C11:swap-twice-phase-points", "two swaps restore the order values but not the phase points", strip(c))
    if have_model and dlines:
        out = ctx.driver(dlines)
        for ln, cl, ml in zip(dlines, dcode, out):
            if cl != ml:
                ctx.disagree({"line": ln}, cl, ml)
    if dcases:
        ctx.sample({"case": dlines[0], "code": dcode[0]})
    ctx.extra["reversible_pairs"] = len(dcases)
    # ------------------------------------------------------------------ real TurtleMD engines, 2 particles (run-time part)
    from props import c11_turtle
    c11_turtle.run(ctx)
    # ------------------------------------------------------------------ real in-process engines at the length limit, loaded paths
    from props import c11_real
    c11_real.run(ctx)
    ctx.exhaustive = False
    ctx.assumptions += [
        "order values, interfaces, energies are small integers (exact as floats); -inf is sent to the model as an integer below all values",
        "ScriptedEngine: frame 0 of a generated trajectory is the configuration handed to _propagate_from with the order value of the "
        "shooting point (velocity-independent order parameter); generated frames are flagged vel_rev = reverse (as every engine does)",
        "exp is outside the model: the model gets the float value np.exp returned; the harness checks the exponent exactly and the value against math.exp (rel 1e-14)",
        "membership / swap-twice predicates are evaluated for maxlen0 ≤ maxlen1 (both come from the same tis_set dict in every configuration) and MD programs that do not end before maxlen "
        "(scripted engines: by construction of the script; the real in-process engines TurtleMD / ASE: Infretis.C11.inproc_offers_maxlen + the frame count and "
        "the length-limit sweep of harness/props/c11_real.py; external engines (GROMACS, LAMMPS, CP2K): C12's loop models)",
        "QuanTIS runs without λ₋₁ (Infretis.C11.quantis_runs_without_lm1): judged end to end on the real setup_config/check_config + "
        "initiate_ensembles for quantis × λ₋₁ ∈ {absent, 0.0, −0.0, −0.5, −3.0}; direct calls of quantis_swap_zero on a λ₋₁ ensemble are "
        "compared with the model only (no early reject there: quantis_lm1_left_not_rejected_counterexample)",
        "`generated`, `time_origin`, `path_number` of the new paths are not compared",
        "object state / call history is a tie-only statement (the model is a pure function): long-lived engine objects (two objects, "
        "or one object serving both ensembles), long-lived ens_set dicts and reused scratch-file names are compared with fresh objects "
        "on the same input; each fresh result is what is compared with the model",
        "order values are opaque data produced by the engine in the model (ZeroSwap frames); that the order value of a vel_rev frame is the "
        "order parameter of its physical phase point (EngineBase.calculate_order uses -v for vel_rev frames: C20's theorem on the sign, C12) "
        "is checked here at run time with a VelOrderEngine that routes every frame through the REAL calculate_order with the "
        "velocity-dependent order parameter [2x+v, v]; swap_twice_identity is proved for an order function even in v, "
        "swap_twice_identity_veldep for any order function of the physical phase point (model engine orbitV)",
        "old-path snapshot (C09 clause for zero swaps): per frame object identity, order list identity+contents, config, vel_rev, vpot, ekin, "
        "the content of the files the frames point to; per path status/generated/weights/weight/maxlen/path_number/time_origin — compared "
        "around EVERY call; plus the sequence rejected-swap → clean_up → second move vs the same second move on fresh copies",
    ]


def replay(ctx, obj):
    import ast
    r = obj.get("replay", {})
    if "real" in r:
        from props import c11_real
        return c11_real.replay(ctx, r["real"])
    if "config" in r:
        before = len(ctx.fails)
        config_block(ctx, False, only=(r["config"]["quantis"], r["config"]["lambda_minus_one"]))
        return 1 if len(ctx.fails) > before else 0
    if "turtle" in r:
        # the real-engine block is regenerated from a fixed seed (its inputs are trajectories the engines produce)
        import random
        from props import c11_turtle
        before = len(ctx.fails)
        saved = ctx.rng
        ctx.rng = random.Random(0)
        try:
            c11_turtle.run(ctx)
        finally:
            ctx.rng = saved
        return 1 if len(ctx.fails) > before else 0
    W = World()
    try:
        c = _revive(r)
        fs = {}
        res = W.run(c, fs=fs, dirk=1)
        print("code:", code_line(res))
        before = len(ctx.fails)
        if getattr(ctx, "_driver_ok", False):
            try:
                _TABLES[0] = spec_tables(ctx)
            except Exception:  # noqa: BLE001
                _TABLES[0] = None
        check_case(ctx, c, res)
        sig = obj.get("signature", "")
        if "paste" in sig:
            paste_lines(ctx, c, res)
        if sig.startswith("C11:select-shoot"):
            direct = W.run({k: v for k, v in c.items() if k not in ("via_select", "picked_order")})
            print("direct:", code_line(direct))
            if code_line(direct) != code_line(res):
                return 1
        if sig.startswith("C11:quantis-not-reversible") and "err" not in res and res["accept"]:
            c2 = balance_second(c, res, lambda opts: opts[0])
            r2 = W.run(c2, fs=fs, old_paths=tuple(res["objs"]), dirk=2)
            print("back:", code_line(r2))
            if "err" in r2 or r2.get("ea") is None or r2["ea"] != -res["ea"]:
                return 1
        if sig.startswith("C11:high-acc"):
            check_high_acc(ctx, W, c, res)
        if sig.startswith("C11:second-move"):
            after_rejection(ctx, W, c, res, fs)
        if sig.startswith("C11:swap-twice") and "err" not in res and res["accept"]:
            c2 = dict(c, old0=res["path0"], old1=res["path1"])
            r2 = W.run(c2, fs=fs, old_paths=tuple(res["objs"]), dirk=2)
            print("second:", code_line(r2))
            ops = lambda p: [f[0] for f in p]  # noqa: E731
            if "err" in r2 or not r2["accept"] or ops(r2["path0"]) != ops(c["old0"]) or ops(r2["path1"]) != ops(c["old1"]):
                return 1
            if [phys(f) for f in r2["path0"]] != [phys(f) for f in c["old0"]]:
                return 1
        if sig.startswith("C11:quantis-threshold") or sig.startswith("C11:quantis-wrong"):
            ra = W.run(dict(c, aa=True))
            if "err" not in ra and ra["p"] is not None and "err" not in res:
                x = float(c["xi"])
                pa = min(1.0, ra["p"])
                if c.get("aa"):
                    sp1, sp0 = c["old0"][-2], c["old1"][0]
                    if any(v is None for v in (sp1[3], c["scripts"][0][0], c["scripts"][1][0], sp0[3])):
                        return 1
                    want = (sp1[3] - c["scripts"][0][0]) * float(c["beta0"]) - (c["scripts"][1][0] - sp0[3]) * float(c["beta1"])
                    return 1 if (ra["ea"] != want or not math.isclose(ra["p"], math.exp(want), rel_tol=1e-14)) else 0
                if res["accept"] != (ra["accept"] and x <= pa) or (res["status"] == "QEA") != (not x <= pa):
                    return 1
        return 1 if len(ctx.fails) > before else 0
    finally:
        W.close()
    _ = ast


def _revive(r):
    """JSON round trip turns tuples into lists and Fractions into strings"""
    def fr(f):
        return (f[0], tuple(f[1]), bool(f[2]), f[3])
    def en(e):
        return {"i": tuple(e["i"]), "maxlen": e["maxlen"], "sc": tuple(bool(x) for x in e["sc"]), "wf": e["wf"], "cap": e["cap"]}
    c = dict(r)
    c["e0"], c["e1"] = en(r["e0"]), en(r["e1"])
    c["old0"] = [fr(f) for f in r["old0"]]
    c["old1"] = [fr(f) for f in r["old1"]]
    if "scripts" in r:
        c["scripts"] = [(s[0], [(g[0], tuple(g[1]), g[2]) for g in s[1]]) for s in r["scripts"]]
    for k in ("xi", "beta0", "beta1"):
        if k in r:
            c[k] = Fraction(r[k])
    return c
