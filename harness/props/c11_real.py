"""C11, run-time part with the REAL in-process engines at the places the scripted tie cannot reach (audit 2026-09-30):

  * `retis_swap_zero` AND `quantis_swap_zero` between two real engines of every in-process kind (TurtleMDEngine,
    ASEEngine with a double-well pair calculator): the swaps detect a truncated piece only by `length == maxlen`, so
    the membership theorems (`Infretis.C11.swap_members`, `quantis_swap_members`) carry the hypothesis "the MD program
    does not end before the length limit" (`maxlen1 ≤ rest.length + 2`) — which the in-process engines meet with
    ZERO slack (they offer exactly `path.maxlen` frames, `Infretis.C11.inproc_offers_maxlen`).  Here the engines decide
    themselves how many frames they offer: the length limit is swept through the natural lengths of the two new paths
    (every limit from min(L0, L1) − 1 to max(L0, L1) + 2) and the returned status must be the one the status tables
    give for the UNTRUNCATED lengths (BTX iff m ≤ L0, else FTX iff m ≤ L1, else ACC with the frames of the unlimited
    run); every accepted path must be a member of its ensemble; the frames an engine offers when nothing stops it are
    counted and compared with the Lean count (`inprocframes`).
  * the same swaps on paths that were STORED with the real `PathStorage.output` and LOADED with the real
    `load_path` / `_load_energies_for_path` (numpy order rows, numpy energies with 6 decimals, `vel_rev` from
    traj.txt): same status, lengths, frames as for the in-memory pair, and the QuanTIS exponent must be
    β0·ΔV0 − β1·ΔV1 of the potential energies recomputed from the configurations in the frames' files.
  * junction identity on the CONTENT of the configuration files (positions, physical velocities) and swap-twice ≈
    identity for the real (float) reversible dynamics.

Nothing here depends on `ctx.rng` except which optional variants are added; every scenario is a pure function of its
parameter dict, which is the replay.
"""
from __future__ import annotations

import contextlib
import io
import logging
import math
import os
import shutil
import tempfile

LAM0 = 0.55
LAMN = 0.90
BOX = 3.0
RZERO = 0.5
WIDTH = 0.25
BIG = 500

# statuses the tables give for a limit m and untruncated lengths (L0, L1) — retis and QuanTIS alike
#   retis:   path0 = min(L0, m) frames, 'BTX' iff == m;  path1 = min(L1, m), 'FTX' iff >= m
#   quantis: new_path0 = min(L0, m), 'BTX' iff >= m;     new_path1 = min(L1, m), 'FTX' iff == m
def expected_status(m, L0, L1):
    if m <= L0:
        return "BTX"
    if m <= L1:
        return "FTX"
    return "ACC"


ASE_CALC = '''
import numpy as np
from ase.calculators.calculator import Calculator, all_changes


class DWPair(Calculator):
    """double-well pair potential h (1 - (r - r0 - w)^2 / w^2)^2 between atoms 0 and 1 (minimum image, cubic cell)"""
    implemented_properties = ["energy", "forces"]

    def __init__(self, height=6.0, rzero=0.5, width=0.25, **kw):
        super().__init__(**kw)
        self.h = height
        self.rw = rzero + width
        self.w2 = width * width

    def calculate(self, atoms=None, properties=("energy",), system_changes=all_changes):
        super().calculate(atoms, properties, system_changes)
        L = atoms.cell.diagonal()
        d = atoms.positions[0] - atoms.positions[1]
        d = d - L * np.rint(d / L)
        r = float(np.sqrt(np.dot(d, d)))
        diff = r - self.rw
        f = np.zeros((len(atoms), 3))
        fij = 4.0 * self.h * (1.0 - diff * diff / self.w2) * (diff / self.w2) * d / r
        f[0] += fij
        f[1] -= fij
        self.results = {"energy": self.h * (1.0 - diff * diff / self.w2) ** 2, "forces": f}
'''


def vdw(height, r):
    return height * (1.0 - ((r - RZERO - WIDTH) ** 2) / (WIDTH * WIDTH)) ** 2


class _Rng:
    def __init__(self, value):
        self.value = value
        self.ncalls = 0

    def random(self):
        self.ncalls += 1
        return self.value


class _NpProxy:
    def __init__(self, real):
        self._real = real
        self.exp_log = []

    def __getattr__(self, n):
        return getattr(self._real, n)

    def exp(self, x):
        y = self._real.exp(x)
        self.exp_log.append((float(x), float(y)))
        return y


def _mods():
    import importlib.util  # noqa: F401
    import numpy as np
    from infretis.classes import path as pathmod
    from infretis.classes.formatter import PathStorage
    from infretis.classes.path import Path
    from infretis.classes.system import System
    from infretis.core import tis
    return np, pathmod, PathStorage, Path, System, tis


class Kind:
    """what differs between the in-process engines: construction, start file, reading a frame's file"""

    def __init__(self, name, work, integrator="vv"):
        self.name = name
        self.work = work
        self.integrator = integrator     # TurtleMD only: "vv" = plain velocity Verlet (time-reversible), "langevin"
        self.n = 0

    # -- engines
    def engine(self, height, temperature, sub):
        import numpy as np
        from infretis.classes.orderparameter import create_orderparameters
        self.n += 1
        if self.name == "turtle":
            from infretis.classes.engines.factory import create_engine
            st = {"class": "turtlemd", "engine": "turtlemd", "timestep": 0.002, "temperature": temperature, "boltzmann": 1.0,
                  "subcycles": sub, "integrator": {"class": "LangevinInertia", "settings": {"gamma": 1e-5, "beta": 1e12}},
                  "potential": {"class": "DoubleWellPair",
                                "settings": {"parameters": {"rzero": RZERO, "height": height, "width": WIDTH}}},
                  "particles": {"mass": [1.0, 1.0], "name": ["H", "H"], "pos": [[1.0, 1.5, 1.5], [1.5, 1.5, 1.5]]},
                  "box": {"periodic": [True, True, True], "low": [0, 0, 0], "high": [BOX, BOX, BOX]}}
            with contextlib.redirect_stdout(io.StringIO()):
                e = create_engine({"engine": st})
            if self.integrator == "vv":
                from turtlemd.integrators import VelocityVerlet

                class SeedlessVV(VelocityVerlet):
                    """TurtleMDEngine always passes seed=; plain velocity Verlet does not take one"""

                    def __init__(self, timestep, seed=None):
                        super().__init__(timestep)
                e.integrator = SeedlessVV
                e.integrator_settings = {}
        else:
            from ase import units
            from infretis.classes.engines.ase_engine import ASEEngine
            mod = os.path.join(self.work, "dwpair_calc.py")
            if not os.path.exists(mod):
                with open(mod, "w") as fh:
                    fh.write(ASE_CALC)
            # same numbers as the TurtleMD system: mass 1, time step 0.002 in ase's internal time unit
            e = ASEEngine(0.002 / units.fs, temperature / 8.61733326e-5, sub, self.work, "velocityverlet",
                          {"module": mod, "class": "DWPair", "height": height, "rzero": RZERO, "width": WIDTH},
                          exe_path=self.work)
        e.rgen = np.random.default_rng(7)
        create_orderparameters({"engine": [e]}, {"orderparameter": {"class": "Distance", "index": [0, 1], "periodic": True}})
        e.c11_height = height
        return e

    def reseed(self, *engines):
        import numpy as np
        for k, e in enumerate(engines):
            e.rgen = np.random.default_rng(100 + k)

    def start_file(self, wd, vx):
        import numpy as np
        pos = np.array([[1.0, 1.5, 1.5], [1.5, 1.5, 1.5]])
        vel = np.array([[-vx, 0.0, 0.0], [vx, 0.0, 0.0]])
        if self.name == "turtle":
            from infretis.classes.engines.engineparts import write_xyz_trajectory
            conf = os.path.join(wd, "initial.xyz")
            write_xyz_trajectory(conf, pos, vel, ["H", "H"], np.array([BOX] * 3), append=False)
        else:
            import ase
            at = ase.atoms.Atoms("H2", cell=[BOX, BOX, BOX], pbc=True)
            at.set_masses([1.0, 1.0])
            at.set_positions(pos)
            at.set_velocities(vel)
            conf = os.path.join(wd, "initial.traj")
            at.write(conf)
        return conf

    def read_frame(self, config):
        """(positions, stored velocities) of the frame `config = (file, idx)` points to"""
        fname, idx = config
        if self.name == "turtle":
            from infretis.classes.engines.engineparts import convert_snapshot, read_xyz_file
            for k, snap in enumerate(read_xyz_file(fname)):
                if k == (idx or 0):
                    _, xyz, vel, _ = convert_snapshot(snap)
                    return xyz, vel
            raise ValueError(f"frame {idx} not in {fname}")
        from ase.io.trajectory import Trajectory
        tr = Trajectory(fname)
        try:
            at = tr[idx or 0]
            return at.positions.copy(), at.get_velocities().copy()
        finally:
            tr.close()


def dist(xyz):
    d = xyz[0] - xyz[1]
    d = d - BOX * (d / BOX).round()
    return float((d * d).sum() ** 0.5)


def phys_point(K, pp):
    """distance and relative physical velocity along the bond of a frame, from its configuration file"""
    xyz, vel = K.read_frame(pp.config)
    v = vel[1] - vel[0]
    if pp.vel_rev:
        v = -v
    return dist(xyz), [float(x) for x in v]


def orders(p):
    return [float(pp.order[0]) for pp in p.phasepoints]


def valid_minus(o, m):
    return 3 <= len(o) <= m and o[0] > LAM0 and all(x <= LAM0 for x in o[1:-1]) and o[-1] >= LAM0


def valid_plus(o, m):
    return 3 <= len(o) <= m and o[0] <= LAM0 and all(LAM0 <= x <= LAMN for x in o[1:-1]) and (o[-1] < LAM0 or o[-1] > LAMN)


def close_lists(a, b, tol):
    return len(a) == len(b) and all(abs(x - y) <= tol for x, y in zip(a, b))


def raw_path(K, engine, wd, nframes, vx, Path, System, np):
    os.makedirs(wd, exist_ok=True)
    st = System()
    st.config = (K.start_file(wd, vx), 0)
    st.vel_rev = False
    p = Path(maxlen=nframes)
    engine.exe_dir = wd
    engine.propagate(p, {"interfaces": (-np.inf, LAM0, np.inf), "ens_name": "raw"}, st, reverse=False)
    return p


def cut(rawp, minus, Path):
    o = orders(rawp)
    segs, i = [], 0
    while i < len(o) - 1:
        enter = (o[i] > LAM0 > o[i + 1]) if minus else (o[i] < LAM0 < o[i + 1])
        if enter:
            j = i + 1
            while j < len(o) and ((o[j] < LAM0) if minus else (LAM0 < o[j] < LAMN)):
                j += 1
            if j < len(o) and j - i >= 2:
                seg = Path(maxlen=1000)
                for pp in rawp.phasepoints[i: j + 1]:
                    seg.append(pp.copy())
                seg.status = "ACC"
                seg.generated = ("ld", 0, 0, 0)
                segs.append(seg)
            i = j - 1 if j - 1 > i else i + 1
        else:
            i += 1
    return segs


def store_and_load(p, num, d, pathmod, PathStorage):
    """the path as a restarted / load_dir run sees it: written by PathStorage.output, read back by load_path"""
    q = p.copy()
    q.path_number = num
    for pp in q.phasepoints:       # the archive MOVES the trajectory files: give it copies
        src = pp.config[0]
        dst = os.path.join(d, "src_" + os.path.basename(src))
        if not os.path.exists(dst):
            shutil.copy(src, dst)
        pp.config = (dst, pp.config[1])
    PathStorage().output(0, {"path": q, "dir": os.path.join(d, "load")})
    lp = pathmod.load_path(os.path.join(d, "load", str(num)))
    lp.maxlen = 1000
    lp.generated = ("ld", float("nan"), 0, 0)
    lp.path_number = num
    return lp


def picked(np, p0, p1, m, quantis, xi):
    ts = {"maxlength": m, "accept_all": False, "quantis": quantis}
    r = _Rng(xi)
    return r, {-1: {"ens": {"interfaces": (-np.inf, LAM0, LAM0), "tis_set": ts, "mc_move": "sh", "ens_name": "000",
                            "start_cond": "R", "rgen": r}, "traj": p0},
               0: {"ens": {"interfaces": (LAM0, LAM0, LAMN), "tis_set": ts, "mc_move": "sh", "ens_name": "001",
                           "start_cond": "L", "rgen": _Rng(0.5)}, "traj": p1}}


def frames_at_limit(ctx, K, engine, sp, root, Path, System, np, lines):
    """an engine that nothing stops offers exactly `path.maxlen` frames (both directions)"""
    ase = 1 if K.name == "ase" else 0
    for n in (1, 2, 3, 6):
        for rev in (False, True):
            wd = os.path.join(root, f"lim{n}{int(rev)}")
            os.makedirs(wd, exist_ok=True)
            st = System()
            st.config = (K.start_file(wd, sp["vx"]), 0)
            st.vel_rev = False
            p = Path(maxlen=n)
            engine.exe_dir = wd
            try:
                ok, _ = engine.propagate(p, {"interfaces": (-np.inf, LAM0, np.inf), "ens_name": "lim"}, st, reverse=rev)
                got = f"{p.length} {int(bool(ok))}"
            except Exception as e:  # noqa: BLE001
                got = "err:" + type(e).__name__
            ctx.count(1, branch=f"real:{K.name}:frames-at-limit")
            lines.append((f"inprocframes {sp['sub']} {n} {ase}", got, dict(sp, what="frames-at-limit", n=n, rev=rev)))
            if got != f"{n} 0":
                ctx.fail("C11:real:engine-ends-before-length-limit",
                         f"{K.name} engine, nothing to cross, path of maxlen {n}, reverse={rev}: (frames, success) = {got}, "
                         f"expected {n} frames (the zero swaps recognise a truncated piece only by length == maxlen)",
                         {"real": dict(sp, what="frames-at-limit")})


def scenario(ctx, sp, lines=None):
    """one engine kind, one pair of old paths cut from trajectories of the engines themselves; sp = parameter dict"""
    np, pathmod, PathStorage, Path, System, tis = _mods()
    lines = [] if lines is None else lines
    lvl = logging.root.manager.disable
    logging.disable(logging.CRITICAL)
    root = tempfile.mkdtemp(prefix="c11_real_", dir="/dev/shm" if os.path.isdir("/dev/shm") else None)
    proxy = _NpProxy(np)
    saved_np = tis.np
    rep = {"real": dict(sp)}
    K = Kind(sp["engine"], root, sp.get("integrator", "vv"))
    reversible = K.name == "ase" or K.integrator == "vv"
    tag = f"real:{K.name}"
    try:
        try:
            eA = K.engine(sp["h0"], sp["t0"], sp["sub"])
            eA2 = K.engine(sp["h0"], sp["t0"], sp["sub"])
            eB = K.engine(sp["h1"], sp["t1"], sp["sub"])
            rawA = raw_path(K, eA, os.path.join(root, "rawA"), sp["nraw"], sp["vx"], Path, System, np)
            rawB = raw_path(K, eB, os.path.join(root, "rawB"), sp["nraw"], sp["vx"], Path, System, np)
        except Exception as exc:  # noqa: BLE001
            ctx.fail("C11:real:setup", f"{K.name}: engines / raw trajectories could not be produced: {exc!r}", rep)
            return
        frames_at_limit(ctx, K, eA, sp, root, Path, System, np, lines)
        minusA, plusA, plusB = cut(rawA, True, Path), cut(rawA, False, Path), cut(rawB, False, Path)
        if not minusA or not plusA or not plusB:
            ctx.hit(f"{tag}: no valid path pair in the raw trajectories")
            return
        k = 0
        for quantis in (False, True):
            move = "quantis" if quantis else "retis"
            fn = tis.quantis_swap_zero if quantis else tis.retis_swap_zero
            e0, e1 = (eA, eB) if quantis else (eA, eA2)
            p0 = minusA[sp["pair"] % len(minusA)]
            plus = plusB if quantis else plusA
            p1 = plus[sp["pair"] % len(plus)]
            ref = None
            for loaded in (False, True):
                k += 1
                d = os.path.join(root, f"{move}{int(loaded)}")
                os.makedirs(d)
                try:
                    a, b = (store_and_load(p0, 0, d, pathmod, PathStorage), store_and_load(p1, 1, d, pathmod, PathStorage)) \
                        if loaded else (p0, p1)
                except Exception as exc:  # noqa: BLE001
                    ctx.fail("C11:real:loaded-path-differs", f"{K.name}: store + load_path of a valid path raised {exc!r}", rep)
                    continue
                what = f"{K.name} engines, {move}, old paths {'loaded with load_path' if loaded else 'in memory'}"

                def call(m, xi=0.0, olds=None, sub=""):
                    x, y = olds or (a, b)
                    wd = os.path.join(d, f"m{m}{sub}")
                    os.makedirs(wd, exist_ok=True)
                    e0.exe_dir = e1.exe_dir = wd
                    K.reseed(e0, e1)
                    proxy.exp_log.clear()
                    tis.np = proxy
                    try:
                        r, pk = picked(np, x, y, m, quantis, xi)
                        acc, paths, st = fn(pk, {-1: [e0], 0: [e1]})
                        return {"acc": bool(acc), "st": st, "paths": paths, "o0": orders(paths[0]), "o1": orders(paths[1]),
                                "ea": proxy.exp_log[-1][0] if proxy.exp_log else None, "draws": r.ncalls}
                    except Exception as exc:  # noqa: BLE001
                        return {"err": f"{type(exc).__name__}: {exc}"}
                    finally:
                        tis.np = saved_np
                base = call(BIG)
                ctx.count(1, branch=f"{tag}:{move}:{'loaded' if loaded else 'memory'}:{base.get('st', 'error')}")
                ctx.distinct(f"{sp} {move} {loaded}")
                if "err" in base:
                    ctx.fail("C11:real:swap-raised", f"{what}: {base['err']}", rep)
                    continue
                if not base["acc"]:
                    ctx.hit(f"{tag}:{move}: unlimited swap not accepted ({base['st']})")
                    continue
                L0, L1 = len(base["o0"]), len(base["o1"])
                # ---- membership and junction of the unlimited swap
                if not valid_minus(base["o0"], BIG) or not valid_plus(base["o1"], BIG):
                    ctx.fail("C11:real:accepted-path-not-member", f"{what}: accepted new [0-] {base['o0']} / new [0+] {base['o1']} "
                             f"(λ0 = {LAM0}, λN = {LAMN})", rep)
                try:
                    n0, n1 = base["paths"]
                    j = []
                    if quantis:
                        j = [(n0.phasepoints[-2], b.phasepoints[0], True), (n1.phasepoints[0], a.phasepoints[-2], False)]
                    else:
                        j = [(n0.phasepoints[-1], b.phasepoints[1], None), (n0.phasepoints[-2], b.phasepoints[0], True),
                             (n1.phasepoints[0], a.phasepoints[-2], None), (n1.phasepoints[1], a.phasepoints[-1], False)]
                    for new, old, flag in j:
                        (dn, vn), (do, vo) = phys_point(K, new), phys_point(K, old)
                        if abs(dn - do) > 1e-5 or not close_lists(vn, vo, 1e-4) or (flag is not None and bool(new.vel_rev) != flag):
                            ctx.fail("C11:real:junction", f"{what}: junction frame has distance {dn}, physical relative velocity {vn}, "
                                     f"vel_rev {new.vel_rev}; the old frame it must be: {do}, {vo} (expected vel_rev {flag})", rep)
                            break
                except Exception as exc:  # noqa: BLE001
                    ctx.fail("C11:real:junction", f"{what}: junction frames unreadable: {exc!r}", rep)
                # ---- QuanTIS exponent from the potentials at the configurations in the files
                if quantis:
                    try:
                        r0 = dist(K.read_frame(a.phasepoints[-2].config)[0])
                        r1 = dist(K.read_frame(b.phasepoints[0].config)[0])
                        expo = e0.beta * (vdw(sp["h0"], r0) - vdw(sp["h0"], r1)) - e1.beta * (vdw(sp["h1"], r0) - vdw(sp["h1"], r1))
                        # energy.txt keeps 6 decimals (four energies: ≤ 2e-6·(β0+β1)), the xyz files 9 digits of the positions
                        tol = 1e-5 * (abs(e0.beta) + abs(e1.beta)) + 1e-6 * abs(expo)
                        if base["ea"] is None or abs(base["ea"] - expo) > tol:
                            ctx.fail("C11:real:quantis-exponent", f"{what}: np.exp was called with {base['ea']!r}; β0·ΔV0 − β1·ΔV1 with "
                                     f"the potential energies at the stored configurations (r0 = {r0}, r1 = {r1}) is {expo!r} "
                                     f"(tolerance {tol:.2e})", rep)
                        else:
                            pacc = min(1.0, math.exp(expo))
                            for u in ([0.5 * pacc] + ([min(0.999, 0.5 * (1.0 + pacc))] if pacc < 0.98 else [])):
                                rr = call(BIG, xi=u, sub=f"u{u:.3f}")
                                ctx.count(1, branch=f"{tag}:quantis:threshold:{rr.get('st', 'error')}")
                                if "err" in rr or (rr["st"] != "QEA") != (u <= pacc):
                                    ctx.fail("C11:real:quantis-threshold", f"{what}: ξ = {u}, min(1, exp) = {pacc}: "
                                             f"{rr.get('st', rr.get('err'))}", rep)
                    except Exception as exc:  # noqa: BLE001
                        ctx.fail("C11:real:quantis-exponent", f"{what}: reference exponent not computable: {exc!r}", rep)
                # ---- loaded pair behaves as the in-memory pair
                if not loaded:
                    ref = base
                elif ref is not None:
                    if (base["st"], L0, L1) != (ref["st"], len(ref["o0"]), len(ref["o1"])) or \
                            not close_lists(base["o0"], ref["o0"], 5e-6) or not close_lists(base["o1"], ref["o1"], 5e-6) or \
                            (quantis and (base["ea"] is None or abs(base["ea"] - ref["ea"]) > 1e-4 + 1e-6 * abs(ref["ea"]))):
                        ctx.fail("C11:real:loaded-path-differs",
                                 f"{what}: {base['st']} lengths {L0},{L1} exponent {base['ea']} — the same pair in memory: {ref['st']} "
                                 f"lengths {len(ref['o0'])},{len(ref['o1'])} exponent {ref['ea']}", rep)
                # ---- the length limit swept through the natural lengths
                for m in range(max(2, min(L0, L1) - 1), max(L0, L1) + 3):
                    rr = call(m)
                    want = expected_status(m, L0, L1)
                    ctx.count(1, branch=f"{tag}:{move}:limit:{rr.get('st', 'error')}")
                    if "err" in rr:
                        ctx.fail("C11:real:swap-raised", f"{what}, maxlength {m}: {rr['err']}", rep)
                        continue
                    if rr["acc"] and (not valid_minus(rr["o0"], m - 1) or not valid_plus(rr["o1"], m - 1)):
                        ctx.fail("C11:real:accepted-path-not-member",
                                 f"{what}, maxlength {m} (untruncated lengths {L0}, {L1}): ACCEPTED new [0-] {rr['o0']} / new [0+] "
                                 f"{rr['o1']} — not valid members of their ensembles (λ0 = {LAM0}, λN = {LAMN}); a piece truncated at "
                                 f"the limit was taken for a complete one", rep)
                    elif rr["st"] != want or rr["acc"] != (want == "ACC") or \
                            (rr["acc"] and not (close_lists(rr["o0"], base["o0"], 1e-6) and close_lists(rr["o1"], base["o1"], 1e-6))):
                        ctx.fail("C11:real:status-at-length-limit",
                                 f"{what}, maxlength {m}, untruncated lengths {L0} / {L1}: status {rr['st']} accept {rr['acc']} lengths "
                                 f"{len(rr['o0'])},{len(rr['o1'])}; the status table gives {want}", rep)
                # ---- swap twice (one reversible dynamics in both ensembles)
                if not quantis and reversible:
                    r2 = call(BIG, olds=tuple(base["paths"]), sub="back")
                    ctx.count(1, branch=f"{tag}:retis:swap-twice:{r2.get('st', 'error')}")
                    if "err" in r2 or not r2["acc"]:
                        ctx.fail("C11:real:swap-twice", f"{what}: second swap of the accepted pair: {r2.get('st', r2.get('err'))}", rep)
                    elif not close_lists(r2["o0"], orders(a), sp["tol2"]) or not close_lists(r2["o1"], orders(b), sp["tol2"]):
                        ctx.fail("C11:real:swap-twice", f"{what}: after two swaps [0-] {r2['o0']} vs {orders(a)}; [0+] {r2['o1']} vs "
                                 f"{orders(b)} (tolerance {sp['tol2']})", rep)
                    # ---- … and through the disk: the NEW pair (vel_rev frames, several trajectory files per path) stored,
                    #      loaded with load_path and swapped back
                    if not loaded:
                        try:
                            dd = os.path.join(d, "disk")
                            os.makedirs(dd)
                            na = store_and_load(base["paths"][0], 0, dd, pathmod, PathStorage)
                            nb = store_and_load(base["paths"][1], 1, dd, pathmod, PathStorage)
                            flags = [bool(pp.vel_rev) for pp in na.phasepoints]
                            if flags != [bool(pp.vel_rev) for pp in base["paths"][0].phasepoints]:
                                ctx.fail("C11:real:loaded-path-differs", f"{what}: vel_rev flags of the new [0-] path after "
                                         f"store + load_path: {flags}", rep)
                            r3 = call(BIG, olds=(na, nb), sub="disk")
                            ctx.count(1, branch=f"{tag}:retis:swap-twice-through-disk:{r3.get('st', 'error')}")
                            if "err" in r3 or not r3["acc"]:
                                ctx.fail("C11:real:swap-twice", f"{what}: second swap of the accepted pair after store + load_path: "
                                         f"{r3.get('st', r3.get('err'))}", rep)
                            elif not close_lists(r3["o0"], orders(a), 10 * sp["tol2"]) or not close_lists(r3["o1"], orders(b), 10 * sp["tol2"]):
                                ctx.fail("C11:real:swap-twice", f"{what}: new pair stored, loaded with load_path and swapped back: [0-] "
                                         f"{r3['o0']} vs {orders(a)}; [0+] {r3['o1']} vs {orders(b)} (tolerance {10 * sp['tol2']})", rep)
                        except Exception as exc:  # noqa: BLE001
                            ctx.fail("C11:real:loaded-path-differs", f"{what}: store + load_path of the NEW pair raised {exc!r}", rep)
    finally:
        tis.np = saved_np
        logging.disable(lvl)
        shutil.rmtree(root, ignore_errors=True)


def scenarios(ctx):
    base = {"h0": 6.0, "h1": 4.0, "t0": 0.1, "t1": 0.05, "sub": 5, "vx": 1.41, "nraw": 260, "pair": 0, "tol2": 2e-5,
            "integrator": "vv"}
    out = [dict(base, engine="turtle"), dict(base, engine="ase", sub=4, pair=1)]
    if not ctx.quick:
        for eng in ("turtle", "ase"):
            for h0, h1, sub, vx in ((5.0, 3.0, 4, 1.3), (7.0, 4.5, 3, 1.5), (6.0, 6.0, 6, 1.45)):
                for pair in (0, 1, 2, 3):
                    out.append(dict(base, engine=eng, h0=h0, h1=h1, sub=sub, vx=vx, pair=pair, nraw=400,
                                    integrator=("langevin" if pair % 2 else "vv")))
    else:
        out.append(dict(base, engine=ctx.rng.choice(("turtle", "ase")), h0=ctx.rng.choice((5.0, 7.0)), h1=ctx.rng.choice((3.0, 4.5)),
                        sub=ctx.rng.choice((3, 4, 6)), vx=ctx.rng.choice((1.3, 1.45, 1.5)), pair=ctx.rng.randint(0, 5),
                        integrator=ctx.rng.choice(("vv", "langevin"))))
    return out


def run(ctx):
    lines = []
    for sp in scenarios(ctx):
        scenario(ctx, sp, lines)
    if getattr(ctx, "_driver_ok", False) and lines:
        out = ctx.driver([ln for ln, _, _ in lines])
        for (ln, got, sp), ml in zip(lines, out):
            if got != ml:
                ctx.disagree({"line": ln, "real": sp}, got, ml)
        ctx.sample({"case": lines[0][0], "code": lines[0][1]})
    ctx.assumptions += [
        "run-time part with the real in-process engines (TurtleMD with plain velocity Verlet or LangevinInertia γ=1e-5, ASE VelocityVerlet with a double-well "
        "pair calculator; 2 particles, Distance order parameter): retis_swap_zero and quantis_swap_zero on path pairs cut from the "
        "engines' own trajectories, in memory and after PathStorage.output + load_path; the length limit swept through the "
        "untruncated lengths of both new paths (status must be the table's for the untruncated lengths, accepted paths must be "
        "members); junction on file contents (1e-5 / 1e-4); loaded vs in-memory (orders 5e-6, exponent 1e-4); QuanTIS exponent "
        "vs potentials recomputed at the stored configurations; swap twice within 2e-5 (velocity Verlet only); frames offered at the limit = Lean count",
    ]


def replay(ctx, r):
    before = len(ctx.fails)
    sp = {k: v for k, v in r.items() if k not in ("what", "n", "rev")}
    scenario(ctx, sp, [])
    return 1 if len(ctx.fails) > before else 0
