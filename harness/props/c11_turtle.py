"""C11, run-time part with REAL engines: `quantis_swap_zero` between two TurtleMD engines with different
DoubleWellPair potentials on a two-atom molecule (N = 2 particles: the energies the rule needs are energies of the
SYSTEM, not per particle).  Valid [0-] / [0+] paths are cut out of raw trajectories the engines produced themselves;
the four energies of the rule are recomputed independently, straight from the turtlemd potential objects at the
configurations stored in the frames' files, and compared with the exponent the code hands to `np.exp` and with the
accept / 'QEA' decision for draws on both sides of the threshold.

Floats: the stored energies come from in-memory positions, the reference from the xyz files (written with finite
precision) — tolerance 1e-6 (abs + rel) on the exponent; draws closer than 1e-6 (relative) to the threshold are not
judged.  Nothing here is compared with the Lean model (integers there); seeded after C11-r4-mut1.
"""
from __future__ import annotations

import logging
import os
import shutil
import tempfile

LAMBDA0 = 0.55
LAMBDA_N = 0.90
BOX = 3.0


class _Rng:
    def __init__(self, value):
        self.value = value
        self.ncalls = 0

    def random(self):
        self.ncalls += 1
        return self.value


class _NpProxy:
    def __init__(self, real):
        self._real = real
        self.exp_log = []

    def __getattr__(self, n):
        return getattr(self._real, n)

    def exp(self, x):
        y = self._real.exp(x)
        self.exp_log.append((float(x), float(y)))
        return y


def _settings(height, temperature, subcycles):
    return {
        "class": "turtlemd", "engine": "turtlemd", "timestep": 0.002, "temperature": temperature, "boltzmann": 1.0,
        "subcycles": subcycles,
        "integrator": {"class": "LangevinInertia", "settings": {"gamma": 1e-5, "beta": 1e12}},
        "potential": {"class": "DoubleWellPair", "settings": {"parameters": {"rzero": 0.5, "height": height, "width": 0.25}}},
        "particles": {"mass": [1.0, 1.0], "name": ["H", "H"], "pos": [[1.0, 1.5, 1.5], [1.5, 1.5, 1.5]]},
        "box": {"periodic": [True, True, True], "low": [0, 0, 0], "high": [BOX, BOX, BOX]},
    }


def run(ctx):
    import importlib.util  # noqa: F401
    import numpy as np
    from infretis.classes.engines.engineparts import convert_snapshot, read_xyz_file, write_xyz_trajectory
    from infretis.classes.engines.factory import create_engine
    from infretis.classes.orderparameter import create_orderparameters
    from infretis.classes.path import Path
    from infretis.classes.system import System
    from infretis.core import tis

    rng = ctx.rng
    lvl = logging.root.manager.disable
    logging.disable(logging.CRITICAL)
    work = tempfile.mkdtemp(prefix="c11_turtle_", dir="/dev/shm" if os.path.isdir("/dev/shm") else None)
    proxy = _NpProxy(np)
    saved_np = tis.np
    try:
        nsys = 2 if ctx.quick else 12
        for isys in range(nsys):
            h0 = rng.choice((6.0, 5.0, 7.0))
            h1 = rng.choice((4.0, 3.0, 4.5))
            temp0 = rng.choice((0.1, 0.2))          # β0 = 10 or 5
            temp1 = rng.choice((0.1, 0.05))         # β1 = 10 or 20
            sub = rng.choice((5, 4))
            vx = rng.choice((1.41, 1.3, 1.5))
            d0, d1 = os.path.join(work, f"s{isys}raw0"), os.path.join(work, f"s{isys}raw1")
            os.makedirs(d0)
            os.makedirs(d1)
            import contextlib
            import io
            with contextlib.redirect_stdout(io.StringIO()):     # the engine prints a developer note when it is built
                e0 = create_engine({"engine": _settings(h0, temp0, sub)})
                e1 = create_engine({"engine": _settings(h1, temp1, sub)})
            e0.rgen, e1.rgen = np.random.default_rng(11 + isys), np.random.default_rng(12 + isys)
            create_orderparameters({"engine0": [e0], "engine": [e1]},
                                   {"orderparameter": {"class": "Distance", "index": [0, 1], "periodic": True}})

            def raw(engine, wd, nframes):
                pos = np.array([[1.0, 1.5, 1.5], [1.5, 1.5, 1.5]])
                vel = np.array([[-vx, 0.0, 0.0], [vx, 0.0, 0.0]])
                conf = os.path.join(wd, "initial.xyz")
                write_xyz_trajectory(conf, pos, vel, ["H", "H"], np.array([BOX] * 3), append=False)
                st = System()
                st.config = (conf, 0)
                st.vel_rev = False
                p = Path(maxlen=nframes)
                engine.exe_dir = wd
                engine.propagate(p, {"interfaces": (-np.inf, LAMBDA0, np.inf), "ens_name": "raw"}, st, reverse=False)
                return p

            def cut(rawp, minus):
                order = [pp.order[0] for pp in rawp.phasepoints]
                segs, i = [], 0
                while i < len(order) - 1:
                    enter = (order[i] > LAMBDA0 > order[i + 1]) if minus else (order[i] < LAMBDA0 < order[i + 1])
                    if enter:
                        j = i + 1
                        while j < len(order) and ((order[j] < LAMBDA0) if minus else (order[j] > LAMBDA0)):
                            j += 1
                        if j < len(order):
                            seg = Path(maxlen=1000)
                            for pp in rawp.phasepoints[i: j + 1]:
                                seg.append(pp.copy())
                            seg.status = "ACC"
                            seg.generated = ("ld", 0, 0, 0)
                            segs.append(seg)
                        i = j - 1 if j - 1 > i else i + 1
                    else:
                        i += 1
                return segs

            def positions(pp):
                fname, idx = pp.config
                for k, snap in enumerate(read_xyz_file(fname)):
                    if k == idx:
                        return convert_snapshot(snap)[1]
                raise ValueError("frame not found")

            def vsys(engine, xyz):
                """total potential energy of the SYSTEM at xyz, straight from turtlemd"""
                engine.system.particles.pos[:] = xyz[:, : engine.dim]
                return float(engine.potential[0].potential(engine.system))

            try:
                minus_paths = cut(raw(e0, d0, 160), True)
                plus_paths = cut(raw(e1, d1, 160), False)
            except Exception as exc:  # noqa: BLE001
                ctx.fail("C11:turtle:setup", f"raw TurtleMD trajectories could not be produced: {exc!r}", {"turtle": isys})
                continue
            pairs = []
            for p0 in minus_paths:
                for p1 in plus_paths:
                    if p0.length < 3 or p1.length < 3:
                        continue
                    r0, r1 = positions(p0.phasepoints[-2]), positions(p1.phasepoints[0])
                    dv0 = vsys(e0, r0) - vsys(e0, r1)
                    dv1 = vsys(e1, r0) - vsys(e1, r1)
                    expo = e0.beta * dv0 - e1.beta * dv1
                    pairs.append((p0, p1, expo))
            # pairs with a non-trivial threshold first, then anything
            pairs.sort(key=lambda t: (not (-6.0 < t[2] < -0.2), abs(t[2] + 1.0)))
            if not pairs:
                ctx.hit("turtle: no path pair in this system")
                continue
            for ip, (p0, p1, expo) in enumerate(pairs[: (3 if ctx.quick else 8)]):
                pacc = min(1.0, float(np.exp(expo)))
                draws = [0.0, 0.5 * pacc, min(0.999, 0.5 * (1.0 + pacc)), 0.999]
                if pacc < 1.0:
                    draws += [0.98 * pacc, min(0.999, 1.02 * pacc)]
                for idr, u in enumerate(sorted(set(draws))):
                    exe = os.path.join(work, f"s{isys}p{ip}d{idr}")
                    os.makedirs(exe)
                    e0.exe_dir = e1.exe_dir = exe
                    r = _Rng(float(u))
                    tis_set = {"maxlength": 400, "accept_all": False, "quantis": True}
                    picked = {
                        -1: {"ens": {"interfaces": (-np.inf, LAMBDA0, LAMBDA0), "tis_set": tis_set, "mc_move": "sh",
                                     "ens_name": "000", "start_cond": "R", "rgen": r}, "traj": p0},
                        0: {"ens": {"interfaces": (LAMBDA0, LAMBDA0, LAMBDA_N), "tis_set": tis_set, "mc_move": "sh",
                                    "ens_name": "001", "start_cond": "L", "rgen": _Rng(0.5)}, "traj": p1},
                    }
                    proxy.exp_log.clear()
                    tis.np = proxy
                    try:
                        _, _, status = tis.quantis_swap_zero(picked, {-1: [e0], 0: [e1]})
                    except Exception as exc:  # noqa: BLE001
                        ctx.count(1, branch="turtle:error:" + type(exc).__name__)
                        continue
                    finally:
                        tis.np = saved_np
                    rep = {"turtle": {"system": isys, "heights": [h0, h1], "temperatures": [temp0, temp1], "subcycles": sub,
                                      "vx": vx, "pair": ip, "draw": float(u), "reference_exponent": expo,
                                      "particles": 2}}
                    if r.ncalls != 1 or not proxy.exp_log:
                        ctx.count(1, branch=f"turtle:rule-not-reached:{status}")
                        continue
                    ea = proxy.exp_log[-1][0]
                    ctx.count(1, branch=f"turtle:{status}")
                    ctx.distinct(f"turtle {isys} {ip} {u!r}")
                    if abs(ea - expo) > 1e-6 + 1e-6 * abs(expo):
                        ctx.fail("C11:quantis-wrong-exponent",
                                 f"two real TurtleMD engines, 2 particles: np.exp was called with {ea!r}; β0·ΔV0 − β1·ΔV1 with the "
                                 f"potential energies of the SYSTEM recomputed from the turtlemd potentials at the stored "
                                 f"configurations is {expo!r}", rep)
                        continue
                    near = abs(u - pacc) <= 1e-6 * max(pacc, 1e-12)
                    if not near and (status != "QEA") != (u <= pacc):
                        ctx.fail("C11:quantis-threshold", f"real TurtleMD engines: ξ={u!r}, min(1, exp(β0ΔV0 − β1ΔV1)) = {pacc!r}, "
                                 f"status {status}", rep)
    finally:
        tis.np = saved_np
        logging.disable(lvl)
        shutil.rmtree(work, ignore_errors=True)
    ctx.assumptions += [
        "run-time part with real engines: quantis_swap_zero between two TurtleMD engines (DoubleWellPair potentials of different "
        "height, 2 particles, Distance order parameter): the exponent handed to np.exp is compared (1e-6 abs+rel) with "
        "β0·ΔV0 − β1·ΔV1 of SYSTEM energies recomputed from the turtlemd potential objects at the configurations stored in the "
        "frames' files; accept/QEA judged for draws not within 1e-6 of the threshold; not compared with the Lean model",
    ]
