"""C12 — every engine returns the trajectory it actually ran.

Tie (DESIGN §6 C12): the REAL engine classes run
  * LAMMPSEngine / CP2KEngine against fake programs (harness/fake_md) whose output schedule is
    imposed from inside the engines' own sleep()/poll() calls (no timing),
  * TurtleMDEngine / ASEEngine natively (free flight: exact dyadic arithmetic; ASE also harmonic),
  * a minimal plug-in EngineBase subclass (exhaustive add_to_path / propagate check),
(audit pass: exceptions raised inside the LAMMPS/CP2K loop body or in sleep() — props/c12_fault.py, Model/EngineFault.lean, op extf)
(extension pass: also EngineBase.propagate's wrapper, execute_command, calculate_order, snapshot_to_system and the
whole-propagate compositions of Model/EnginePropagate.lean — ops propsetup, exec, calcorder, snap, propinproc, propgmx, cp2ktraj)
and the recorded path (order values, (file, index), vel_rev), the order parameter recomputed
HERE from the referenced file's own frame (own coordinates, own box, own velocity sign), the
child process after return and the raised exception class are compared with
  (1) the Lean loop models through the driver (variant asIs or repaired, consistently), and
  (2) the property predicate itself, independent of the model.
"""
from __future__ import annotations

import itertools
import json
import math
import os
import shutil
import sys
import tempfile
import traceback

from common import err_kind

S = 4                     # order values are multiples of 1/4; the model gets 4·value as Int
BASE = "/var/tmp"
SIG_BOX = "C12:lammps:box-paired-with-last"
SIGNALS = (-9, -11, -15)      # SIGKILL, SIGSEGV, SIGTERM delivered by someone else than infretis


# ----------------------------------------------------------------------------- geometry (own formulas)
def pbc(d, L):
    """minimum-image distance along x (the harness's own statement of it)"""
    if abs(d) > 0.5 * L:
        d = d - round(d / L) * L
    return abs(d)


def sc(x):
    v = x * S
    assert v == int(v), x
    return int(v)


def scs(x, scale=S):
    """scale a value that comes from the CODE UNDER TEST: never raises (changed code may return anything)"""
    try:
        v = x * scale
        return int(v) if v == int(v) else x
    except Exception:  # noqa: BLE001
        return repr(x)


def _mk_ens(left, right):
    """ens_set handed to propagate: mutable containers on purpose, so that any in-place change shows"""
    return {"interfaces": [left, (left + right) / 2, right], "ens_name": "001",
            "tis_set": {"maxlength": 7, "allowmaxlength": False, "nested": [1, 2, {"k": 0.0}]}}


def _purity(obs, ens, ens_before, path, start_order):
    """(b) inputs unchanged / no aliasing between returned frames, the start point and each other"""
    import copy  # noqa: F401
    obs["ens_changed"] = None if ens == ens_before else repr(ens)
    ids = [id(pp.order) for pp in path.phasepoints]
    obs["order_alias"] = len(set(ids)) != len(ids) or (start_order is not None and id(start_order) in ids)


def _snap_path(path):
    return [(tuple(pp.config), [float(x) for x in pp.order], bool(pp.vel_rev)) for pp in path.phasepoints]


_LAST = {}


def guarded(ctx, eng, case, fn, *a):
    """(g) a predicate must never crash the harness on unexpected output of changed code: that output is the finding"""
    try:
        return fn(*a)
    except Exception:  # noqa: BLE001
        ctx.fail(f"C12:{eng}:unexpected-output", "the property predicate could not be evaluated on the engine's output: "
                 + traceback.format_exc()[-600:], {"case": case})
        return 1


# ----------------------------------------------------------------------------- file formats (own writers/parsers)
def lmp_frame(step, d, L, vx, lo=0.0, trailing_id=True, shuffled=False):
    s = f"ITEM: TIMESTEP\n{step}\nITEM: NUMBER OF ATOMS\n2\nITEM: BOX BOUNDS pp pp pp\n"
    for _ in range(3):
        s += f"{lo!r} {lo + L!r}\n"
    s += "ITEM: ATOMS id type x y z vx vy vz" + (" id\n" if trailing_id else "\n")
    rows = list(enumerate(((lo, 0.0), (lo + d, vx)), start=1))
    if shuffled:
        rows.reverse()           # LAMMPS does not write atoms in id order
    for i, (x, v) in rows:
        s += f"{i} 1 {x!r} {lo!r} {lo!r} {v!r} 0.0 0.0" + (f" {i}\n" if trailing_id else "\n")
    return s


def parse_lammpstrj(path):
    """-> list of (d, L, vx) per frame, by the harness's own parser"""
    out = []
    with open(path) as fh:
        lines = fh.read().split("\n")
    i = 0
    while i + 9 <= len(lines) and lines[i].startswith("ITEM: TIMESTEP"):
        n = int(lines[i + 3])
        lo, hi = (float(x) for x in lines[i + 5].split()[:2])
        atoms = {}
        for ln in lines[i + 9:i + 9 + n]:
            t = ln.split()
            atoms[int(t[0])] = (float(t[2]), float(t[5]))
        out.append((atoms[2][0] - atoms[1][0], hi - lo, atoms[2][1]))
        i += 9 + n
    return out


def xyz_frame(d, vx=None, comment="i = 0"):
    """CP2K -pos-1.xyz / -vel-1.xyz frame (4 columns)"""
    if vx is None:
        rows = [(0.0, 0.0, 0.0), (d, 0.0, 0.0)]
    else:
        rows = [(0.0, 0.0, 0.0), (vx, 0.0, 0.0)]
    return f"2\n {comment}\n" + "".join(f"  H {a:20.10f} {b:20.10f} {c:20.10f}\n" for a, b, c in rows)


def parse_xyz7(path):
    """infretis xyz trajectory (name x y z vx vy vz, 'Box:' in the comment) -> [(d, L, vx)]"""
    out = []
    with open(path) as fh:
        lines = fh.read().split("\n")
    i = 0
    while i < len(lines) and lines[i].strip():
        n = int(lines[i])
        head = lines[i + 1]
        L = None
        if "Box:" in head:
            L = float(head.split("Box:")[1].split()[0])
        rows = [ln.split() for ln in lines[i + 2:i + 2 + n]]
        d = float(rows[1][1]) - float(rows[0][1])
        vx = float(rows[1][4]) if len(rows[1]) > 4 else 0.0
        out.append((d, L, vx))
        i += 2 + n
    return out


# ----------------------------------------------------------------------------- engines (per process, lazily)
_CACHE = {}


_TOP = {"dir": None, "pid": None}


def _top():
    """one directory per check run (created by the parent, shared by forked workers)"""
    if _TOP["dir"] is None:
        _TOP["dir"] = tempfile.mkdtemp(prefix=f"verif-c12-{os.getpid()}-", dir=BASE)
        _TOP["pid"] = os.getpid()
    return _TOP["dir"]


def _workroot():
    r = _CACHE.get("root")
    if r is None or _CACHE.get("pid") != os.getpid():
        _CACHE.clear()
        r = os.path.join(_top(), f"w{os.getpid()}")
        os.makedirs(r, exist_ok=True)
        _CACHE["root"] = r
        _CACHE["pid"] = os.getpid()
        _CACHE["n"] = 0
    return r


def _cleanup_root():
    if _TOP["dir"] and _TOP["pid"] == os.getpid():
        shutil.rmtree(_TOP["dir"], ignore_errors=True)
        _TOP["dir"] = None
        _CACHE.clear()


def _newdir():
    root = _workroot()
    _CACHE["n"] += 1
    d = os.path.join(root, f"c{_CACHE['n']}")
    os.mkdir(d)
    return d


def _probe_order():
    import importlib.util  # noqa: F401
    from infretis.classes.orderparameter import Distance

    class ProbeOrder(Distance):
        """order[0] = the repo's periodic Distance(0,1); order[1] = vx of atom 1 as handed over"""

        def calculate(self, system):
            d = super().calculate(system)
            return [float(d[0]), float(system.vel[1][0])]

    return ProbeOrder((0, 1), periodic=True)


def _lammps_engine(sub):
    import importlib.util  # noqa: F401
    import numpy as np
    from fake_md import ctl
    key = ("lmp", sub)
    if key in _CACHE:
        return _CACHE[key]
    from infretis.classes.engines import lammps as lm
    inp = os.path.join(_workroot(), "lammps_input")
    if not os.path.isdir(inp):
        os.mkdir(inp)
        shutil.copy("/repo/examples/lammps/H2/lammps_input/lammps.input", inp)
        shutil.copy("/repo/examples/lammps/H2/lammps_input/lammps.data", inp)
    eng = lm.LAMMPSEngine(ctl.fake_cmd("fake_lmp.py"), inp, 0.5, sub, 300, sleep=0.001)
    eng.order_function = _probe_order()
    eng.rgen = np.random.default_rng(0)
    _CACHE[key] = eng
    return eng


def _cp2k_engine(sub):
    import importlib.util  # noqa: F401
    import numpy as np
    from fake_md import ctl
    key = ("cp2k", sub)
    if key in _CACHE:
        return _CACHE[key]
    from infretis.classes.engines import cp2k as cp
    inp = os.path.join(_workroot(), "cp2k_input")
    if not os.path.isdir(inp):
        os.mkdir(inp)
        shutil.copy("/repo/examples/cp2k/H2/cp2k_input/cp2k.inp", inp)
        # a template that was produced from a restart (root section &EXT_RESTART): write_for_run_vel must remove it,
        # otherwise CP2K would start from that restart file instead of the phase point
        with open(os.path.join(inp, "cp2k.inp"), "a") as fh:
            fh.write("\n&EXT_RESTART\n  RESTART_FILE_NAME old-1.restart\n&END EXT_RESTART\n")
        with open(os.path.join(inp, "initial.xyz"), "w") as fh:
            fh.write("2\n# Box: 30.0 30.0 30.0\nH 0.0 0.0 0.0 0.0 0.0 0.0\nH 1.0 0.0 0.0 0.0 0.0 0.0\n")
    eng = cp.CP2KEngine(ctl.fake_cmd("fake_cp2k.py"), inp, 0.5, sub, 300, sleep=0.001)
    eng.order_function = _probe_order()
    eng.rgen = np.random.default_rng(0)
    _CACHE[key] = eng
    return eng


STATUS = {
    "Running propagate...": "running", "Crossed left interface!": "left", "Crossed right interface!": "right",
    "Max. path length exceeded": "maxlen-noadd", "Max. path length exceeded!": "maxlen",
}


def _status(s):
    if s.startswith("propagating with"):
        return "init"
    return STATUS.get(s, "other:" + s)


# ----------------------------------------------------------------------------- one external-engine run
def run_ext(case):
    """case: dict(engine='lammps'|'cp2k', frames=[(d, L, vx)], sched=[(file, vis, vis2, alive)] (tick level) or
    coarse=[...] (one entry per sleep), code, maxlen, left, right, rev, vel_rev0, sub, lo, box0)
    -> observation dict (picklable)."""
    import importlib.util  # noqa: F401
    from fake_md import ctl
    from infretis.classes.path import Path
    from infretis.classes.system import System
    ctl.install()
    work = _newdir()
    try:
        if case.get("prelude"):
            pre = _run_ext_in(case["prelude"], work)
            if "harness_error" in pre:
                return pre
            first_path = _LAST.get("path")
            first_snap = _snap_path(first_path)
        obs = _run_ext_in(case, work)
        if case.get("prelude"):
            # (b) frames returned earlier must not change when the engine is used again (no aliasing of engine buffers)
            obs["earlier_path_changed"] = _snap_path(first_path) != first_snap
            obs["prelude_obs"] = {k: pre.get(k) for k in ("raised", "success", "status", "path", "proc")}
        return obs
    finally:
        shutil.rmtree(work, ignore_errors=True)


def _run_ext_in(case, work):
    import importlib.util  # noqa: F401
    from fake_md import ctl
    from infretis.classes.path import Path
    from infretis.classes.system import System
    eng_name = case["engine"]
    frames = case["frames"]
    sub = case.get("sub", 1)
    lo = case.get("lo", 0.0)
    obs = {"raised": "ok"}
    try:
        if eng_name == "lammps":
            from infretis.classes.engines import lammps as mod
            eng = _lammps_engine(sub)
            texts = [lmp_frame(k * sub, d, L, vx, lo, shuffled=bool(case.get("shuffled")) and k % 2 == 1)
                     for k, (d, L, vx) in enumerate(frames)]
            files = {"traj": "".join(texts)}
            cuts = {"traj": list(itertools.accumulate([0] + [len(t) for t in texts]))}
            pre = {"log.lammps": "Step KinEng PotEng TotEng Temp\n" + "".join(
                f"{k} 0.0 0.0 0.0 0.0\n" for k in range(len(frames) * sub + 1)) + "Loop time of 1\n"}
            init = os.path.join(work, "start.lammpstrj")
            d0, L0, v0 = case.get("start", frames[0] if frames else (1.0, 16.0, 0.0))
            with open(init, "w") as fh:
                fh.write(lmp_frame(0, d0, L0, v0, lo, trailing_id=False, shuffled=bool(case.get("shuffled"))))
        else:
            from infretis.classes.engines import cp2k as mod
            eng = _cp2k_engine(sub)
            ptexts = [xyz_frame(d, None, f"i = {k}") for k, (d, L, vx) in enumerate(frames)]
            vtexts = [xyz_frame(d, vx, f"i = {k}") for k, (d, L, vx) in enumerate(frames)]
            files = {"pos": "".join(ptexts), "vel": "".join(vtexts)}
            cuts = {"pos": list(itertools.accumulate([0] + [len(t) for t in ptexts])),
                    "vel": list(itertools.accumulate([0] + [len(t) for t in vtexts]))}
            pre = {"ENER": "#  Step Nr. Time[fs] Kin.[a.u.] Temp[K] Pot.[a.u.] Cons Qty[a.u.] UsedTime[s]\n" + "".join(
                f"{k} {k * 0.5} 0.0 0.0 0.0 0.0 0.0\n" for k in range(len(frames) * sub + 1))}
            init = os.path.join(work, "start.xyz")
            d0, L0, v0 = case.get("start", frames[0] if frames else (1.0, 16.0, 0.0))
            with open(init, "w") as fh:
                fh.write(f"2\n# Box: {L0:9.4f} {L0:9.4f} {L0:9.4f}\n"
                         f"H 0.0 0.0 0.0 0.0 0.0 0.0\nH {d0!r} 0.0 0.0 {v0!r} 0.0 0.0\n")
        nfr = len(frames)

        torn = int(case.get("torn", 0))

        def cut(key, v):
            """bytes visible when v complete frames are: with `torn`, the flush ended in the middle of a LINE of frame
            v (≥ 1 complete frame before it) — the model and the predicates still count complete frames only"""
            v = min(v, nfr)
            b = cuts[key][v]
            if torn and 0 < v < nfr:
                b += max(1, min(torn, cuts[key][v + 1] - cuts[key][v] - 2))
            return b

        def bytes_of(w):
            if eng_name == "lammps":
                return {"traj": cut("traj", w["vis"])}
            return {"pos": cut("pos", w["vis"]), "vel": cut("vel", w["vis2"])}

        def conv(lst):
            return [dict(file=bool(f), bytes=bytes_of(dict(vis=int(v), vis2=int(v2))), alive=bool(a),
                         src=[int(bool(f)), int(v), int(v2), int(bool(a))]) for (f, v, v2, a) in lst]

        if case.get("coarse") is not None:
            c = ctl.FakeCtl(work, files, pre, None, case["code"], coarse=conv(case["coarse"]))
        else:
            c = ctl.FakeCtl(work, files, pre, conv(case["sched"]), case["code"])
        eng.exe_dir = work
        eng.subcycles = sub
        system = System()
        system.config = (init, 0)
        system.vel_rev = bool(case.get("vel_rev0", False))
        system.order = [d0, v0]
        path = Path(maxlen=case["maxlen"])
        import copy
        ens = _mk_ens(case["left"], case["right"])
        ens_before = copy.deepcopy(ens)
        start_order = system.order
        old_sleep = mod.sleep
        mod.sleep = c.sleep
        ctl.FakeCtl.active = c
        from props import c12_fault
        try:
            # audit pass: case["fault"] makes the loop body (or a sleep) of THIS propagate raise (props/c12_fault.py)
            with c12_fault.inject(case, eng, mod, c):
                ok, status = eng.propagate(path, ens, system, reverse=bool(case["rev"]))
            obs["success"] = bool(ok)
            obs["status"] = _status(status)
        except ctl.HarnessHang:
            raise
        except BaseException as e:  # noqa: BLE001
            fk = c12_fault.classify(e) if case.get("fault") else None
            if fk is None and not isinstance(e, Exception):
                raise
            obs["raised"] = fk or err_kind(e)
            obs["exc"] = f"{type(e).__name__}: {str(e)[:200]}"
        finally:
            ctl.FakeCtl.active = None
            mod.sleep = old_sleep
        _purity(obs, ens, ens_before, path, start_order)
        _LAST["path"] = path
        obs["proc"] = c.finish()
        obs["ticks"] = c.t
        obs["realised"] = [r if r is not None else [0, 0, 0, 1] for r in c.realised]
        obs["returncode"] = None if c.popen is None else c.popen.returncode
        obs["tick_kinds"] = "".join(k[0] for k in c.log)
        # ------- what the engine recorded
        traj_name = None
        ents = []
        for pp in path.phasepoints:
            fn, idx = pp.config
            traj_name = fn
            ents.append({"file": os.path.basename(fn), "idx": idx, "order": [float(x) for x in pp.order],
                         "vel_rev": bool(pp.vel_rev)})
        obs["path"] = ents
        # ------- recompute from the referenced file, by the harness's own parser and formulas
        rec = []
        if traj_name and os.path.exists(traj_name):
            fr = parse_lammpstrj(traj_name) if eng_name == "lammps" else parse_xyz7(traj_name)
            for e in ents:
                if 0 <= e["idx"] < len(fr):
                    d, L, vx = fr[e["idx"]]
                    rec.append({"d": d, "L": L, "vx": vx, "order0": pbc(d, L)})
                else:
                    rec.append(None)
        obs["recomputed"] = rec
        obs["traj_exists"] = bool(traj_name and os.path.exists(traj_name))
        if eng_name == "cp2k":
            # the WHOLE file the engine wrote itself (cp2k.py:935), not only the frames the path refers to
            obs["trajfile"] = [list(x) for x in parse_xyz7(traj_name)] if obs["traj_exists"] else []
        # ------- what the program was started with
        seen = os.path.join(work, "fake_seen.txt")
        obs["seen"] = open(seen).read().strip() if os.path.exists(seen) else ""
        startfile = None
        for tok in obs["seen"].split():
            if tok.startswith("initconf="):
                startfile = tok.split("=", 1)[1]
        if eng_name == "cp2k":
            cand = [f for f in os.listdir(work) if f.endswith("_conf.xyz")]
            # COORD_FILE_NAME is the basename of the (possibly r_-prefixed) initial configuration
            r = [f for f in cand if f.startswith("r_")]
            want_rev = bool(case["rev"]) != bool(case.get("vel_rev0", False))
            pick = r if want_rev else [f for f in cand if not f.startswith("r_")]
            pick.sort(key=lambda f: os.path.getmtime(os.path.join(work, f)), reverse=True)   # newest: this propagation's
            startfile = os.path.join(work, pick[0]) if pick else None
            # what the PROGRAM was told (run.inp as read by fake cp2k): COORD_FILE_NAME, and a surviving &EXT_RESTART
            for tok in obs["seen"].split():
                if tok.startswith("coord=") and tok != "coord=None":
                    startfile = os.path.join(work, tok.split("=", 1)[1])
                if tok == "ext_restart=1":
                    obs["ext_restart"] = True
        if startfile and os.path.exists(startfile):
            try:
                st = parse_lammpstrj(startfile) if eng_name == "lammps" else parse_xyz7(startfile)
                obs["start_seen"] = list(st[0])
            except Exception as e:  # noqa: BLE001
                obs["start_seen"] = f"unreadable: {e}"
        else:
            obs["start_seen"] = None
    except ctl.HarnessHang as e:
        obs["harness_error"] = str(e)
    except Exception:  # noqa: BLE001
        obs["harness_error"] = traceback.format_exc()[-1500:]
    return obs


# ----------------------------------------------------------------------------- in-process engines
def _turtle_engine(sub, L):
    import importlib.util  # noqa: F401
    import contextlib
    import io
    import numpy as np
    key = ("turtle", sub, L)
    if key in _CACHE:
        return _CACHE[key]
    from infretis.classes.engines.turtlemdengine import TurtleMDEngine
    from turtlemd.integrators import VelocityVerlet

    class SeedlessVV(VelocityVerlet):
        """TurtleMDEngine always passes seed=; plain velocity Verlet (time-reversible) does not take one"""

        def __init__(self, timestep, seed=None):
            super().__init__(timestep)

    with contextlib.redirect_stdout(io.StringIO()):
        eng = TurtleMDEngine(
            timestep=0.5, subcycles=sub, temperature=300, boltzmann=1.0,
            integrator={"class": "LangevinInertia", "settings": {"gamma": 1.0, "beta": 1.0}},
            potential={"class": "LennardJones",
                       "settings": {"parameters": {"1": {"sigma": 1.0, "epsilon": 0.0, "rcut": 0.5}}}},
            particles={"mass": [1.0, 1.0], "name": ["H", "H"], "pos": [[0, 0, 0], [1.0, 0, 0]]},
            box={"periodic": [True, True, True], "low": [0, 0, 0], "high": [L, L, L]})
    eng.integrator = SeedlessVV
    eng.integrator_settings = {}
    eng.order_function = _probe_order()
    eng.rgen = np.random.default_rng(0)
    _CACHE[key] = eng
    return eng


ASE_CALC = '''
import numpy as np
from ase.calculators.calculator import Calculator, all_changes


class Spring(Calculator):
    """k = 0: free flight; k > 0: harmonic bond along x between atoms 0 and 1"""
    implemented_properties = ["energy", "forces"]

    def __init__(self, k=0.0, x0=0.0, **kw):
        super().__init__(**kw)
        self.k = k
        self.x0 = x0

    def calculate(self, atoms=None, properties=("energy",), system_changes=all_changes):
        super().calculate(atoms, properties, system_changes)
        f = np.zeros((len(atoms), 3))
        dx = atoms.positions[1, 0] - atoms.positions[0, 0] - self.x0
        f[1, 0] = -self.k * dx
        f[0, 0] = self.k * dx
        self.results = {"energy": 0.5 * self.k * dx * dx, "forces": f}
'''


def _ase_dt():
    """engine `timestep` t with t * units.fs == 0.5 exactly (so that free flight stays dyadic)"""
    from ase import units
    t = 0.5 / units.fs
    for _ in range(64):
        if t * units.fs == 0.5:
            return t
        t = math.nextafter(t, math.inf if t * units.fs < 0.5 else -math.inf)
    return None


def _ase_engine(sub, k):
    import importlib.util  # noqa: F401
    key = ("ase", sub, k)
    if key in _CACHE:
        return _CACHE[key]
    from infretis.classes.engines.ase_engine import ASEEngine
    root = _workroot()
    mod = os.path.join(root, "spring_calc.py")
    if not os.path.exists(mod):
        with open(mod, "w") as fh:
            fh.write(ASE_CALC)
    eng = ASEEngine(_ase_dt(), 300, sub, root, "velocityverlet",
                    {"module": mod, "class": "Spring", "k": k, "x0": 2.0}, exe_path=root)
    eng.order_function = _probe_order()
    _CACHE[key] = eng
    return eng


def run_inproc(case):
    """case: engine 'turtle'|'ase', d0, v0 (as stored in the start file), L, sub, maxlen, left, right, rev, vel_rev0,
    k (ase spring), retrace (bool: afterwards propagate backward from the last frame)"""
    import importlib.util  # noqa: F401
    from infretis.classes.path import Path
    from infretis.classes.system import System
    work = _newdir()
    obs = {"raised": "ok"}
    try:
        name = case["engine"]
        L = case["L"]
        if name == "turtle":
            eng = _turtle_engine(case["sub"], L)
            init = os.path.join(work, "start.xyz")
            with open(init, "w") as fh:
                fh.write(f"2\n# Box: {L:9.4f} {L:9.4f} {L:9.4f}\nH 0.0 0.0 0.0 0.0 0.0 0.0\n"
                         f"H {case['d0']!r} 0.0 0.0 {case['v0']!r} 0.0 0.0\n")
        else:
            import ase
            import numpy as np
            eng = _ase_engine(case["sub"], case.get("k", 0.0))
            at = ase.atoms.Atoms("H2", cell=[L, L, L], pbc=True)
            at.set_masses([1.0, 1.0])
            pos = np.zeros((2, 3))
            pos[1, 0] = case["d0"]
            at.set_positions(pos)
            vel = np.zeros((2, 3))
            vel[1, 0] = case["v0"]
            at.set_velocities(vel)
            init = os.path.join(work, "start.traj")
            at.write(init)
        eng.exe_dir = work

        def read_frames(fn):
            if name == "turtle":
                return parse_xyz7(fn)
            from ase.io.trajectory import Trajectory
            out = []
            tr = Trajectory(fn)
            for a in tr:
                out.append((float(a.positions[1, 0] - a.positions[0, 0]), float(a.cell.diagonal()[0]),
                            float(a.get_velocities()[1, 0])))
            tr.close()
            return out

        def one(start_cfg, vel_rev0, rev, maxlen, left, right):
            system = System()
            system.config = start_cfg
            system.vel_rev = vel_rev0
            system.order = [case["d0"], case["v0"]]
            path = Path(maxlen=maxlen)
            import copy
            ens = _mk_ens(left, right)
            ens_before = copy.deepcopy(ens)
            start_order = system.order
            o = {"raised": "ok"}
            calls = []
            orig = {n: getattr(eng, n) for n in ("_extract_frame", "_reverse_velocities", "_copyfile")}

            def spy(nm, fn):
                def f(*a):
                    calls.append([nm] + [os.path.basename(x) if isinstance(x, str) else x for x in a])
                    return fn(*a)
                return f
            for nm, fn in orig.items():
                setattr(eng, nm, spy(nm, fn))
            try:
                ok, status = eng.propagate(path, ens, system, reverse=rev)
                o["success"] = bool(ok)
                o["status"] = _status(status)
            except Exception as e:  # noqa: BLE001
                o["raised"] = err_kind(e)
                o["exc"] = f"{type(e).__name__}: {str(e)[:200]}"
            finally:
                for nm in orig:
                    delattr(eng, nm)
            o["calls"] = calls
            o["sys_after"] = [os.path.basename(system.config[0]), system.config[1], bool(system.vel_rev)]
            ents, rec = [], []
            fn = None
            for pp in path.phasepoints:
                fn, idx = pp.config
                ents.append({"file": os.path.basename(fn), "idx": idx, "order": [float(x) for x in pp.order],
                             "vel_rev": bool(pp.vel_rev)})
            if fn and os.path.exists(fn):
                fr = read_frames(fn)
                for e in ents:
                    if 0 <= e["idx"] < len(fr):
                        d, LL, vx = fr[e["idx"]]
                        rec.append({"d": d, "L": LL, "vx": vx, "order0": pbc(d, LL)})
                    else:
                        rec.append(None)
            _purity(o, ens, ens_before, path, start_order)
            o["path"] = ents
            o["recomputed"] = rec
            o["nframes_file"] = len(read_frames(fn)) if fn and os.path.exists(fn) else 0
            return o, path

        o, path = one((init, 0), bool(case.get("vel_rev0", False)), bool(case["rev"]), case["maxlen"],
                      case["left"], case["right"])
        obs.update(o)
        if case.get("retrace") and path.length >= 2 and o["raised"] == "ok":
            last = path.phasepoints[-1]
            ob, _ = one(last.config, bool(last.vel_rev), not bool(last.vel_rev), path.length, -1e9, 1e9)
            obs["back"] = ob
    except Exception:  # noqa: BLE001
        obs["harness_error"] = traceback.format_exc()[-1500:]
    finally:
        shutil.rmtree(work, ignore_errors=True)
    return obs


# ----------------------------------------------------------------------------- sequences on one engine object
def _new_inproc_engine(name, sub, L, k, langevin=False):
    """a FRESH engine object with forces that depend on the configuration (ASE: spring k; TurtleMD: Lennard-Jones)"""
    import importlib.util  # noqa: F401
    import contextlib
    import io
    import numpy as np
    if name == "ase":
        from infretis.classes.engines.ase_engine import ASEEngine
        root = _workroot()
        mod = os.path.join(root, "spring_calc.py")
        if not os.path.exists(mod):
            with open(mod, "w") as fh:
                fh.write(ASE_CALC)
        if langevin:
            eng = ASEEngine(_ase_dt(), 300, sub, root, "langevin", {"module": mod, "class": "Spring", "k": k, "x0": 2.0},
                            langevin_friction=0.01, langevin_fixcm=False, exe_path=root)
        else:
            eng = ASEEngine(_ase_dt(), 300, sub, root, "velocityverlet",
                            {"module": mod, "class": "Spring", "k": k, "x0": 2.0}, exe_path=root)
    else:
        from infretis.classes.engines.turtlemdengine import TurtleMDEngine
        from turtlemd.integrators import VelocityVerlet

        class SeedlessVV(VelocityVerlet):
            def __init__(self, timestep, seed=None):
                super().__init__(timestep)

        with contextlib.redirect_stdout(io.StringIO()):
            eng = TurtleMDEngine(
                timestep=0.015625, subcycles=sub, temperature=300, boltzmann=1.0,
                integrator={"class": "LangevinInertia", "settings": {"gamma": 1.0, "beta": 1.0}},
                potential={"class": "LennardJones",
                           "settings": {"parameters": {"1": {"sigma": 1.0, "epsilon": k, "rcut": 3.0}}}},
                particles={"mass": [1.0, 1.0], "name": ["H", "H"], "pos": [[0, 0, 0], [1.0, 0, 0]]},
                box={"periodic": [True, True, True], "low": [0, 0, 0], "high": [L, L, L]})
        if not langevin:
            eng.integrator = SeedlessVV
            eng.integrator_settings = {}
        eng.rgen = np.random.default_rng(0)
    eng.order_function = _probe_order()
    return eng


def run_seq(case):
    """case: engine 'ase-seq'|'turtle-seq', sub, L, k, steps=[{d0, v0, rev, maxlen, from: None | [step, frame]}].
    Every step is run (a) on ONE long-lived engine object, in order, and (b) on a FRESH engine object; a step with
    `from` starts at a frame of an earlier path of the long-lived engine (e.g. backward from a middle frame)."""
    import importlib.util  # noqa: F401
    from infretis.classes.path import Path
    from infretis.classes.system import System
    name = "ase" if case["engine"].startswith("ase") else "turtle"
    work = _newdir()
    obs = {"raised": "ok", "steps": []}
    try:
        L = case["L"]

        def start_file(d0, v0, tag):
            if name == "turtle":
                fn = os.path.join(work, "start.xyz")        # the same file NAME is rewritten for every new start point
                with open(fn, "w") as fh:
                    fh.write(f"2\n# Box: {L:9.4f} {L:9.4f} {L:9.4f}\nH 0.0 0.0 0.0 0.0 0.0 0.0\n"
                             f"H {d0!r} 0.0 0.0 {v0!r} 0.0 0.0\n")
                return fn
            import ase
            import numpy as np
            at = ase.atoms.Atoms("H2", cell=[L, L, L], pbc=True)
            at.set_masses([1.0, 1.0])
            pos = np.zeros((2, 3))
            pos[1, 0] = d0
            at.set_positions(pos)
            vel = np.zeros((2, 3))
            vel[1, 0] = v0
            at.set_velocities(vel)
            fn = os.path.join(work, "start.traj")
            at.write(fn)
            return fn

        lang = bool(case.get("langevin"))
        snaps = []

        def prop(eng, exe, cfg, vel_rev0, rev, maxlen, seed=0, keep=False):
            import numpy as np
            os.makedirs(exe, exist_ok=True)
            eng.exe_dir = exe
            if lang:
                # the same random stream → the same path: TurtleMD seeds its integrator from engine.rgen,
                # ASE's Langevin draws from the global numpy state
                eng.rgen = np.random.default_rng(seed)
                np.random.seed(seed)
            system = System()
            system.config = cfg
            system.vel_rev = vel_rev0
            path = Path(maxlen=maxlen)
            ens = {"interfaces": (-1e9, 0.0, 1e9), "ens_name": "001"}
            eng.propagate(path, ens, system, reverse=rev)
            if keep:
                snaps.append((path, _snap_path(path)))
            return {"order": [[float(x) for x in pp.order] for pp in path.phasepoints],
                    "ekin": [None if pp.ekin is None else float(pp.ekin) for pp in path.phasepoints],
                    "vpot": [None if pp.vpot is None else float(pp.vpot) for pp in path.phasepoints],
                    "config": [(pp.config[0], pp.config[1]) for pp in path.phasepoints], "vel_rev": rev}

        long_lived = _new_inproc_engine(name, case["sub"], L, case["k"], lang)
        done = []
        for i, st in enumerate(case["steps"]):
            if st.get("from") is not None:
                j, fi = st["from"]
                if fi >= len(done[j]["config"]):
                    # the source path is shorter than its length limit although nothing can be outside (±1e9): reported
                    # by check_seq_property through the lengths recorded below; the rest of the sequence cannot be run
                    obs["cut_short_at"] = i
                    break
                cfg = tuple(done[j]["config"][fi])
                vel_rev0 = done[j]["vel_rev"]
            else:
                cfg = (start_file(st["d0"], st["v0"], i), 0)
                vel_rev0 = False
            a = prop(long_lived, os.path.join(work, "long"), cfg, vel_rev0, bool(st["rev"]), st["maxlen"], seed=100 + i, keep=True)
            b = prop(_new_inproc_engine(name, case["sub"], L, case["k"], lang), os.path.join(work, f"fresh{i}"), cfg, vel_rev0,
                     bool(st["rev"]), st["maxlen"], seed=100 + i)
            done.append(a)
            rec = {"long": {q: a[q] for q in ("order", "ekin", "vpot")}, "fresh": {q: b[q] for q in ("order", "ekin", "vpot")}}
            if st.get("from") is not None and bool(st["rev"]) != vel_rev0 and not lang:
                # time reversal from frame fi of path j: must retrace frames fi, fi-1, … of that path
                j, fi = st["from"]
                src = done[j]["order"][: fi + 1][::-1]
                n = min(len(src), len(a["order"]))
                rec["retrace_dev"] = max([abs(a["order"][q][0] - src[q][0]) for q in range(n)] +
                                         [abs(a["order"][q][1] - src[q][1]) for q in range(n)] + [0.0])
                rec["retrace_n"] = n
            obs["steps"].append(rec)
        # (b) frames returned earlier must not change when the engine object is used again
        obs["earlier_path_changed"] = any(_snap_path(pth) != sn for pth, sn in snaps)
    except Exception:  # noqa: BLE001
        obs["harness_error"] = traceback.format_exc()[-1500:]
    finally:
        shutil.rmtree(work, ignore_errors=True)
    return obs


def gen_seq_cases(ctx):
    rng = ctx.rng
    cases = []
    for eng, k, d_lo, d_hi, vs in (("ase-seq", 0.5, 1.5, 2.75, (0.25, -0.25, 0.125)), ("turtle-seq", 1.0, 1.0625, 1.375, (0.5, -0.25, 0.25))):
        for sub in (1, 2, 3):
            for _ in range(2 if ctx.quick else 12):
                steps = []
                nsteps = rng.randint(3, 5)
                for i in range(nsteps):
                    if i > 0 and rng.random() < 0.5:
                        j = rng.randrange(i)
                        jl = steps[j]["maxlen"]
                        fi = rng.randint(1, jl - 1)                  # a MIDDLE (or the last) frame of an earlier path
                        # time reversal of path j from that frame, or continuation in the same direction
                        rev = (not steps[j]["rev"]) if rng.random() < 0.7 else steps[j]["rev"]
                        steps.append(dict(rev=bool(rev), maxlen=rng.randint(2, fi + 1) if rev != steps[j]["rev"] else rng.randint(2, 6),
                                          **{"from": [j, fi]}))
                    else:
                        d0 = d_lo + (d_hi - d_lo) * rng.randrange(0, 9) / 8
                        steps.append(dict(d0=d0, v0=rng.choice(vs), rev=bool(rng.getrandbits(1)), maxlen=rng.randint(3, 8)))
                cases.append(dict(engine=eng, sub=sub, L=64.0, k=k, steps=steps, tag="sequence"))
        # stochastic dynamics (Langevin): the same random stream gives the same path on a long-lived and a fresh object
        for sub in ((2,) if ctx.quick else (1, 2, 3)):
            steps = [dict(d0=d_lo + (d_hi - d_lo) * rng.randrange(0, 9) / 8, v0=rng.choice(vs), rev=bool(rng.getrandbits(1)),
                          maxlen=rng.randint(3, 6)) for _ in range(3)]
            steps.append(dict(rev=not steps[1]["rev"], maxlen=3, **{"from": [1, 1]}))
            cases.append(dict(engine=eng, sub=sub, L=64.0, k=k, steps=steps, langevin=True, tag="sequence-langevin"))
    return cases


def check_seq_property(ctx, case, obs):
    """the path is a function of the input phase point: same result on a long-lived engine object (whatever it did
    before) as on a fresh one — positions/velocities (order components), ekin and vpot of every frame — and time
    reversal from a middle frame retraces the source path"""
    eng = "ase" if case["engine"].startswith("ase") else "turtle"
    rep = {"case": case}
    if obs.get("earlier_path_changed"):
        ctx.fail(f"C12:{eng}:earlier-path-changed", "a path returned by an earlier propagate changed when the engine was used again", rep)
    for i, st in enumerate(obs.get("steps", [])):
        a, b = st["long"], st["fresh"]
        ml = case["steps"][i]["maxlen"]
        for which, r in (("long-lived", a), ("fresh", b)):
            if len(r["order"]) != ml:
                # interfaces at ±1e9: nothing is ever outside, every propagation must end AT its length limit
                ctx.fail(f"C12:{eng}:{'stopped-before-limit' if len(r['order']) < ml else 'longer-than-maxlen'}",
                         f"propagation #{i} of the sequence ({which} engine object): {len(r['order'])} frames, no frame can be "
                         f"outside (interfaces ±1e9), length limit {ml}", {**rep, "step": i, which: r})
                return
        if a != b:
            what = [q for q in ("order", "ekin", "vpot") if a[q] != b[q]]
            dev = 0.0
            if len(a["order"]) == len(b["order"]):
                dev = max([abs(x[0] - y[0]) for x, y in zip(a["order"], b["order"])] + [0.0])
            ctx.fail(f"C12:{eng}:state-leaks-between-propagations",
                     f"propagation #{i} of the sequence differs on a long-lived engine object from a fresh one in {what} "
                     f"(max order deviation {dev:.3e}): long {a['order'][:3]}… fresh {b['order'][:3]}…",
                     {**rep, "step": i, "long": a, "fresh": b})
            return
        if st.get("retrace_dev", 0.0) > 1e-6:      # velocity Verlet is reversible up to rounding (observed ≤ 3e-9; a stale force gives ~1e-3)
            ctx.fail(f"C12:{eng}:backward-does-not-retrace",
                     f"propagation #{i}: time reversal from a middle frame deviates {st['retrace_dev']:.3e} from the source path",
                     {**rep, "step": i, "long": a})
            return


# ----------------------------------------------------------------------------- plug-in engine
def _plugin_cls():
    import importlib.util  # noqa: F401
    from infretis.classes.engines.enginebase import EngineBase

    class ScriptedEngine(EngineBase):
        """minimal plug-in engine: a frame file holds 'd vx'; dynamics = a scripted list of d values.
        Its `_propagate_from` has the in-process shape; everything else is EngineBase's."""

        def __init__(self, script, sub):
            super().__init__("scripted plug-in engine", 1.0, sub)
            self.ext = "txt"
            self.script = script
            self.calls = []

        def _read(self, fn, idx=0):
            with open(fn) as fh:
                t = fh.read().split("\n")[idx].split()
            return float(t[0]), float(t[1])

        def _extract_frame(self, traj_file, idx, out_file):
            d, v = self._read(traj_file, idx)
            self.calls.append(("extract", os.path.basename(traj_file), idx))
            with open(out_file, "w") as fh:
                fh.write(f"{d!r} {v!r}\n")

        def _read_configuration(self, filename):
            import numpy as np
            d, v = self._read(filename)
            return (np.array([[0.0, 0, 0], [d, 0, 0]]), np.array([[0.0, 0, 0], [v, 0, 0]]),
                    np.array([1024.0, 1024.0, 1024.0]), None)

        def _copyfile(self, source, dest):
            self.calls.append(("copy", os.path.basename(source), os.path.basename(dest)))
            shutil.copyfile(source, dest)

        def _reverse_velocities(self, filename, outfile):
            d, v = self._read(filename)
            self.calls.append(("reverse", os.path.basename(filename)))
            with open(outfile, "w") as fh:
                fh.write(f"{d!r} {-v!r}\n")

        def modify_velocities(self, ensemble, vel_settings):
            return 0.0, 0.0

        def set_mdrun(self, md_items):
            self.exe_dir = md_items["exe_dir"]

        def _propagate_from(self, name, path, system, ens_set, msg_file, reverse=False):
            left, _, right = ens_set["interfaces"]
            d0, v0 = self._read(system.config[0])
            self.calls.append(("start", d0, v0, bool(system.vel_rev), os.path.basename(system.config[0]),
                               system.config[1]))
            traj = os.path.join(self.exe_dir, f"{name}.txt")
            success, status = False, "propagating with scripted"
            step_nr = 0
            with open(traj, "w") as fh:
                for i, d in enumerate([d0] + list(self.script)):
                    if i % self.subcycles == 0:
                        fh.write(f"{d!r} {v0!r}\n")
                        fh.flush()
                        import numpy as np
                        order = self.calculate_order(
                            system, xyz=np.array([[0.0, 0, 0], [d, 0, 0]]),
                            vel=np.array([[0.0, 0, 0], [v0, 0, 0]]), box=np.array([1024.0, 1024.0, 1024.0]))
                        snap = {"order": order, "config": (traj, step_nr), "vel_rev": reverse}
                        pp = self.snapshot_to_system(system, snap)
                        status, success, stop, _ = self.add_to_path(path, pp, left, right)
                        if stop:
                            break
                        step_nr += 1
            return success, status

    return ScriptedEngine


def run_plugin(case):
    """case: d0, v0, script (d values after the start), sub, maxlen, left, right, rev, vel_rev0, start_idx"""
    import importlib.util  # noqa: F401
    from infretis.classes.path import Path
    from infretis.classes.system import System
    work = _newdir()
    obs = {"raised": "ok"}
    try:
        eng = _plugin_cls()(case["script"], case["sub"])
        eng.order_function = _probe_order()
        eng.exe_dir = work
        src = os.path.join(work, "source.txt")
        if case.get("same_file"):
            # config = (exe_dir/{prefix}_conf.txt, None): the file dump_config would write IS the source → no copy
            from infretis.classes.engines.enginebase import counter
            src = os.path.join(work, f"001_{os.getpid()}_{getattr(counter, 'count', -1) + 1}_conf.txt")
        k = case.get("start_idx", 0)
        with open(src, "w") as fh:
            for j in range(k):
                fh.write(f"{-100.0 - j!r} 77.0\n")      # decoy frames before the start point
            fh.write(f"{case['d0']!r} {case['v0']!r}\n")
        system = System()
        system.config = (src, None) if (case.get("cfg_none") or case.get("same_file")) else (src, k)
        system.vel_rev = bool(case.get("vel_rev0", False))
        path = Path(maxlen=case["maxlen"])
        import copy
        ens = _mk_ens(case["left"], case["right"])
        ens_before = copy.deepcopy(ens)
        start_order = system.order
        obs["src_name"] = os.path.basename(src)
        try:
            ok, status = eng.propagate(path, ens, system, reverse=bool(case["rev"]))
            obs["success"] = bool(ok)
            obs["status"] = _status(status)
        except Exception as e:  # noqa: BLE001
            obs["raised"] = err_kind(e)
            obs["exc"] = f"{type(e).__name__}: {str(e)[:200]}"
        _purity(obs, ens, ens_before, path, start_order)
        obs["calls"] = [list(c) for c in eng.calls]
        obs["sys_vel_rev"] = bool(system.vel_rev)
        obs["sys_cfg_idx"] = system.config[1]
        obs["sys_cfg_file"] = os.path.basename(system.config[0])
        obs["path"] = [{"idx": pp.config[1], "order": [float(x) for x in pp.order], "vel_rev": bool(pp.vel_rev)}
                       for pp in path.phasepoints]
    except Exception:  # noqa: BLE001
        obs["harness_error"] = traceback.format_exc()[-1500:]
    finally:
        shutil.rmtree(work, ignore_errors=True)
    return obs


# ----------------------------------------------------------------------------- GROMACS
def g96_text(natoms, d, L, vx):
    pos = "".join(f"    1 H1    H1    {i + 1:5d}{(d if i == 1 else 0.0):15.9f}{0.0:15.9f}{0.0:15.9f}\n" for i in range(natoms))
    vel = "".join(f"    1 H1    H1    {i + 1:5d}{(vx if i == 1 else 0.0):15.9f}{0.0:15.9f}{0.0:15.9f}\n" for i in range(natoms))
    return f"TITLE\nfake\nEND\nPOSITION\n{pos}END\nVELOCITY\n{vel}END\nBOX\n{L:15.9f}{L:15.9f}{L:15.9f}\nEND\n"


def parse_g96(path):
    sec, rows = None, {}
    for ln in open(path).read().split("\n"):
        t = ln.strip()
        if t in ("POSITION", "VELOCITY", "BOX", "TITLE"):
            sec = t
            rows[sec] = []
        elif t == "END":
            sec = None
        elif sec and t:
            rows[sec].append(ln)
    px = [float(r[24:39]) for r in rows["POSITION"]]
    vx = [float(r[24:39]) for r in rows.get("VELOCITY", [])] or [0.0] * len(px)
    L = float(rows["BOX"][0].split()[0])
    return (px[1] - px[0], L, vx[1])


def trr_bytes(natoms, double, step, d, L, vx, forces=False):
    import struct
    fs, fc = (8, "d") if double else (4, "f")
    sizes = [0, 0, 9 * fs, 0, 0, 0, 0, 3 * natoms * fs, 3 * natoms * fs, 3 * natoms * fs if forces else 0]
    h = struct.pack(">1i", 1993) + struct.pack(">2i", 13, 12) + struct.pack(">12s", b"GMX_trn_file")
    h += struct.pack(">13i", *sizes, natoms, step, 0) + struct.pack(">2" + fc, step * 0.5, 0.0)
    box = [L, 0, 0, 0, L, 0, 0, 0, L]
    x = [0.0] * (3 * natoms)
    v = [0.0] * (3 * natoms)
    x[3] = d
    v[3] = vx
    out = h + struct.pack(">9" + fc, *box) + struct.pack(f">{3 * natoms}{fc}", *x) + struct.pack(f">{3 * natoms}{fc}", *v)
    if forces:
        out += struct.pack(f">{3 * natoms}{fc}", *([0.5] * (3 * natoms)))
    return out


def gmx_blobs(case):
    """the TRR frames of a case; `hetero`: frames of different sizes (forces written for every other frame, like
    nstfout = 2·nstxout)"""
    sub, natoms, double = case.get("sub", 1), case.get("natoms", 2), bool(case.get("double", False))
    return [trr_bytes(natoms, double, k * sub, d, L, vx, forces=bool(case.get("hetero")) and k % 2 == 0)
            for k, (d, L, vx) in enumerate(case["frames"])]


def parse_trr(path):
    """own TRR parser (big endian, as written by the fake): -> [(d, L, vx)]"""
    import struct
    out = []
    data = open(path, "rb").read()
    o = 0
    while o + 84 <= len(data):
        magic, = struct.unpack_from(">i", data, o)
        assert magic == 1993
        sizes = struct.unpack_from(">13i", data, o + 24)
        box_size, x_size, v_size, f_size, natoms = sizes[2], sizes[7], sizes[8], sizes[9], sizes[10]
        fs = box_size // 9
        fc = "d" if fs == 8 else "f"
        o += 24 + 52 + 2 * fs
        if o + box_size + x_size + v_size + f_size > len(data):
            break
        box = struct.unpack_from(">9" + fc, data, o)
        x = struct.unpack_from(f">{3 * natoms}{fc}", data, o + box_size)
        v = struct.unpack_from(f">{3 * natoms}{fc}", data, o + box_size + x_size)
        out.append((x[3] - x[0], box[0], v[3]))
        o += box_size + x_size + v_size + f_size
    return out


def _gmx_engine(sub, natoms):
    import importlib.util  # noqa: F401
    from fake_md import ctl
    key = ("gmx", sub, natoms)
    if key in _CACHE:
        return _CACHE[key]
    from infretis.classes.engines.gromacs import GromacsEngine
    inp = os.path.join(_workroot(), f"gromacs_input_{sub}_{natoms}")
    os.mkdir(inp)
    src = "/repo/examples/gromacs/H2/gromacs_input"
    shutil.copy(os.path.join(src, "grompp.mdp"), inp)
    shutil.copy(os.path.join(src, "topol.top"), inp)
    with open(os.path.join(inp, "conf.g96"), "w") as fh:
        fh.write(g96_text(natoms, 1.0, 3.0, 0.0))
    eng = GromacsEngine(ctl.fake_cmd("fake_gmx.py"), inp, 0.5, sub, 300)
    eng.mdrun = ctl.fake_cmd("fake_gmx.py") + " mdrun -s {} -deffnm {} -c {}"
    eng.order_function = _probe_order()
    _CACHE[key] = eng
    return eng


def gmx_need0(case):
    """complete frames that must be visible before the reader tries its first header (TRR_HEAD_SIZE = 1000 bytes)"""
    tot = 0
    for n, b in enumerate(gmx_blobs(case), start=1):
        tot += len(b)
        if tot >= 1000:
            return n
    return len(case["frames"]) + 1


def run_gmx(case):
    """case: frames=[(d, L, vx)], sched tick-level [(file, vis, 0, alive)], code, maxlen, left, right, rev, vel_rev0, sub,
    natoms, double, start"""
    import importlib.util  # noqa: F401
    from fake_md import ctl
    from infretis.classes.engines import gromacs as mod
    from infretis.classes.path import Path
    from infretis.classes.system import System
    ctl.install()
    work = _newdir()
    try:
        if case.get("prelude"):
            # an earlier propagation with the SAME engine object in the SAME exe_dir (its leftovers stay)
            pre = _run_gmx_in(case["prelude"], work)
            if "harness_error" in pre:
                return pre
            first_path = _LAST.get("path")
            first_snap = _snap_path(first_path)
        obs = _run_gmx_in(case, work)
        if case.get("prelude"):
            # (b) frames returned earlier must not change when the engine is used again (no aliasing of engine buffers)
            obs["earlier_path_changed"] = _snap_path(first_path) != first_snap
            obs["prelude_obs"] = {k: pre.get(k) for k in ("raised", "success", "status", "path", "proc")}
        return obs
    finally:
        shutil.rmtree(work, ignore_errors=True)


def _run_gmx_in(case, work):
    import importlib.util  # noqa: F401
    from fake_md import ctl
    from infretis.classes.engines import gromacs as mod
    from infretis.classes.path import Path
    from infretis.classes.system import System
    frames = case["frames"]
    sub, natoms, double = case.get("sub", 1), case.get("natoms", 2), bool(case.get("double", False))
    obs = {"raised": "ok"}
    try:
        eng = _gmx_engine(sub, natoms)
        eng.mdrun = ctl.fake_cmd("fake_gmx.py") + (" launch" if case.get("launch") else "") + " mdrun -s {} -deffnm {} -c {}"
        blobs = gmx_blobs(case)
        cuts = list(itertools.accumulate([0] + [len(b) for b in blobs]))
        files = {"trr": b"".join(blobs).hex(), "edr": ""}
        d0, L0, v0 = case.get("start", frames[0] if frames else (1.0, 16.0, 0.0))
        init = os.path.join(work, "start.g96")
        with open(init, "w") as fh:
            fh.write(g96_text(natoms, d0, L0, v0))
        with open(os.path.join(work, "fake_nframes.txt"), "w") as fh:
            fh.write(str(len(frames) + 1))
        with open(os.path.join(work, "fake_rc.json"), "w") as fh:
            json.dump({"grompp": int(case.get("grompp_rc", 0)), "energy": int(case.get("energy_rc", 0))}, fh)
        nfr = len(frames)
        sched = [dict(file=bool(f), bytes={"trr": cuts[min(int(v), nfr)]}, alive=bool(a), src=[int(bool(f)), int(v), 0, int(bool(a))])
                 for (f, v, _v2, a) in case["sched"]]
        c = ctl.FakeCtl(work, files, {}, sched, case["code"])
        c.only = "mdrun"
        eng.exe_dir = work
        system = System()
        system.config = (init, None) if case.get("cfg_none") else (init, 0)
        system.vel_rev = bool(case.get("vel_rev0", False))
        system.order = [d0, v0]
        path = Path(maxlen=case["maxlen"])
        import copy
        ens = _mk_ens(case["left"], case["right"])
        ens_before = copy.deepcopy(ens)
        start_order = system.order
        old_sleep = mod.sleep
        mod.sleep = c.sleep
        ctl.FakeCtl.active = c
        hook = sys.unraisablehook
        sys.unraisablehook = lambda *a: None      # GromacsRunner.__del__ → stop() → close() complains about `fileh`
        try:
            ok, status = eng.propagate(path, ens, system, reverse=bool(case["rev"]))
            obs["success"] = bool(ok)
            obs["status"] = _status(status)
        except ctl.HarnessHang:
            raise
        except Exception as e:  # noqa: BLE001
            obs["raised"] = "err:attr" if isinstance(e, AttributeError) else err_kind(e)
            obs["exc"] = f"{type(e).__name__}: {str(e)[:200]}"
        finally:
            ctl.FakeCtl.active = None
            mod.sleep = old_sleep
            import gc
            gc.collect()
            sys.unraisablehook = hook
        _purity(obs, ens, ens_before, path, start_order)
        _LAST["path"] = path
        obs["proc"] = c.finish()
        obs["ticks"] = c.t
        obs["realised"] = [r if r is not None else [0, 0, 0, 1] for r in c.realised]
        obs["returncode"] = None if c.popen is None else c.popen.returncode
        obs["tick_kinds"] = "".join(k[0] for k in c.log)
        ents, rec, traj_name = [], [], None
        for pp in path.phasepoints:
            fn, idx = pp.config
            traj_name = fn
            ents.append({"file": os.path.basename(fn), "idx": idx, "order": [float(x) for x in pp.order],
                         "vel_rev": bool(pp.vel_rev)})
        obs["path"] = ents
        if traj_name and os.path.exists(traj_name):
            fr = parse_trr(traj_name)
            for e in ents:
                if 0 <= e["idx"] < len(fr):
                    d, L, vx = fr[e["idx"]]
                    rec.append({"d": d, "L": L, "vx": vx, "order0": pbc(d, L)})
                else:
                    rec.append(None)
        obs["recomputed"] = rec
        seen = os.path.join(work, "fake_seen.txt")
        obs["seen"] = open(seen).read() if os.path.exists(seen) else ""
        obs["start_seen"] = None
        obs["start_file"] = None
        for ln in obs["seen"].split("\n"):
            if ln.startswith("conf=") and os.path.exists(ln[5:]):
                obs["start_seen"] = list(parse_g96(ln[5:]))
                obs["start_file"] = os.path.basename(ln[5:])
        obs["seen"] = obs["seen"].split("\n")[0]
    except ctl.HarnessHang as e:
        obs["harness_error"] = str(e)
    except Exception:  # noqa: BLE001
        obs["harness_error"] = traceback.format_exc()[-1500:]
    return obs


def run_any(case):
    kind = case["engine"]
    if kind == "gromacs":
        return run_gmx(case)
    if kind in ("lammps", "cp2k"):
        return run_ext(case)
    if kind in ("turtle", "ase"):
        return run_inproc(case)
    if kind in ("turtle-seq", "ase-seq"):
        return run_seq(case)
    return run_plugin(case)


# ----------------------------------------------------------------------------- model lines
def tri(xs):
    return " ".join([str(len(xs))] + [f"{a} {b} {c}" for a, b, c in xs])


def ext_line(case, realised, variant):
    """driver request for an external-engine case on the realised tick-level schedule"""
    frames = case["frames"]
    start = case.get("start", frames[0] if frames else (1.0, 16.0, 0.0))
    ds = sorted({f[0] for f in frames})
    Ls = sorted({f[1] for f in frames} | {start[1]})
    fr = [(ds.index(d), Ls.index(L), sc(vx)) for (d, L, vx) in frames]
    tab = [(ci, bi, sc(pbc(d, L))) for ci, d in enumerate(ds) for bi, L in enumerate(Ls)]
    kind = f"cp2k:{Ls.index(start[1])}" if case["engine"] == "cp2k" else f"lammps-{variant}"
    ws = " ".join([str(len(realised))] + [f"{a} {b} {c} {d}" for a, b, c, d in realised])
    return (f"ext {kind} {sc(case['left'])} {sc(case['right'])} {case['maxlen']} {int(bool(case['rev']))} "
            f"{case['code']} 400 {tri(fr)} {ws} {tri(tab)}")


def parse_model(ans):
    head, tail = ans.split(" | ")
    h = head.split()
    ents = []
    t = tail.split()
    for tok in t[1:]:
        i, c, b, v, o = tok.split(",")
        ents.append((int(i), int(c), int(b), int(v), int(o)))
    return {"raised": h[0], "success": h[1] == "1", "status": h[2], "killed": h[3] == "1", "dead": h[4] == "1",
            "multi": h[5] == "1", "ticks": int(h[6]), "ents": ents}


def code_view(obs):
    """the part of an observation that is compared with the model (canonical)"""
    ents = []
    for e in obs.get("path", []):
        o = e["order"]
        ents.append((e["idx"], scs(o[0]), scs(o[1]) if len(o) > 1 else 0))
    v = {"raised": obs["raised"], "ents": ents}
    if obs["raised"] == "ok":
        v["success"] = obs["success"]
        v["status"] = obs["status"]
    return v


def model_view(m, with_ticks=True):
    v = {"raised": m["raised"], "ents": [(i, o, vel) for (i, _c, _b, vel, o) in m["ents"]]}
    if m["raised"] == "ok":
        v["success"] = m["success"]
        v["status"] = m["status"]
    return v


# ----------------------------------------------------------------------------- property predicates (no model)
def outside(x, left, right):
    return x < left or x > right


def check_stop_rule(ctx, eng, case, obs, rep, stream, endless):
    """The clause "stops at the first frame outside the interfaces or at the length limit and reports success only in the
    former case", judged on the real output against the orders `stream` the dynamics / the program delivers (computed by
    the harness, no model): path length = min(first outside index + 1, maxlen[, frames available]); success ⇔ the last
    frame is outside; the status text names the interface crossed / says that the limit was hit.
    endless: the source never runs dry before maxlen frames (in-process dynamics); otherwise `stream` is everything
    the program wrote and the program ended by itself with exit code 0 or was stopped by the engine."""
    if obs.get("raised") != "ok":
        return
    left, right, maxlen = case["left"], case["right"], case["maxlen"]
    path = obs.get("path", [])
    fo = next((k for k, x in enumerate(stream) if outside(x, left, right)), None)
    want = maxlen if fo is None else min(fo + 1, maxlen)
    if not endless:
        want = min(want, len(stream))
    elif len(stream) < want:
        return
    if len(path) != want:
        sig = "stopped-before-limit" if len(path) < want else "longer-than-maxlen"
        ctx.fail(f"C12:{eng}:{sig}", f"{len(path)} frames returned; first outside frame index {fo}, length limit {maxlen}: "
                                     f"{want} frames expected (orders delivered: {stream[:want + 1]})", rep)
        return
    if want == 0:
        return
    last_out = outside(stream[want - 1], left, right)
    if bool(obs.get("success")) != last_out:
        ctx.fail(f"C12:{eng}:{'crossing-not-reported' if last_out else 'success-without-crossing'}",
                 f"success={obs.get('success')} but the last frame (index {want - 1}, order {stream[want - 1]}) is "
                 f"{'outside' if last_out else 'inside'} ({left}, {right})", rep)
        return
    st = obs.get("status")
    if last_out:
        ok = st == ("left" if stream[want - 1] < left else "right")
    elif want == maxlen:
        ok = st == "maxlen"
    else:
        ok = st in ("running", "init")          # the program ended by itself inside the interfaces, below the limit
    if not ok:
        ctx.fail(f"C12:{eng}:status-text-wrong", f"status {st!r} for a path of {want} frames (limit {maxlen}) whose last frame is "
                                                 f"{'outside' if last_out else 'inside'}", rep)


def _check_purity(ctx, eng, obs, rep):
    if obs.get("ens_changed"):
        ctx.fail(f"C12:{eng}:input-modified", f"propagate changed the ensemble settings it was given: {obs['ens_changed'][:300]}", rep)
    if obs.get("order_alias"):
        ctx.fail(f"C12:{eng}:frames-alias", "two returned frames (or a frame and the start point) share one order list object", rep)
    if obs.get("earlier_path_changed"):
        ctx.fail(f"C12:{eng}:earlier-path-changed", "a path returned by an earlier propagate changed when the engine was used again", rep)


def check_ext_property(ctx, case, obs):
    """the property itself on the implementation's output; returns number of failures reported"""
    eng = case["engine"]
    frames = case["frames"]
    n0 = len(ctx.fails)
    rep = {"case": case, "observed": {k: obs.get(k) for k in ("raised", "success", "status", "proc", "path",
                                                              "recomputed", "returncode", "realised")}}
    rev = bool(case["rev"])
    path = obs.get("path", [])
    rec = obs.get("recomputed", [])
    sign = -1.0 if rev else 1.0
    # (a) k-th frame = k-th written frame, order from its own coordinates, box, velocity direction
    for k, e in enumerate(path):
        if e["idx"] != k or k >= len(frames) or e["vel_rev"] != rev:
            ctx.fail(f"C12:{eng}:frame-not-in-order", f"path frame {k} refers to index {e['idx']} vel_rev={e['vel_rev']}", rep)
            break
        r = rec[k] if k < len(rec) else None
        if r is None:
            ctx.fail(f"C12:{eng}:frame-missing-in-file", f"path frame {k} is not in the trajectory file", rep)
            break
        d, L, vx = frames[k]
        if eng == "cp2k":
            L = case.get("start", frames[0])[1]       # CP2K: constant box (documented NVT-only limitation)
        if (r["d"], r["vx"]) != (d, vx) or (eng in ("lammps", "gromacs") and r["L"] != L):
            ctx.fail(f"C12:{eng}:file-frame-differs", f"file frame {k} = {r}, program wrote {(d, L, vx)}", rep)
            break
        own = pbc(r["d"], r["L"] if r["L"] is not None else L)
        if e["order"][0] != own:
            other = [j for j, (dj, Lj, vj) in enumerate(frames) if j != k and pbc(d, Lj) == e["order"][0]]
            if eng == "lammps" and other:
                ctx.fail(SIG_BOX, f"frame {k} (d={d}, own box {L}: order {own}) was stored with order {e['order'][0]} = "
                                  f"its distance in the box of frame {other} (several frames arrived in one poll)", rep)
            else:
                ctx.fail(f"C12:{eng}:order-not-from-own-frame", f"frame {k}: stored {e['order'][0]}, own frame gives {own}", rep)
            break
        if e["order"][1] != sign * r["vx"]:
            ctx.fail(f"C12:{eng}:velocity-direction", f"frame {k}: order function saw vx={e['order'][1]}, file has {r['vx']}, "
                                                      f"vel_rev={rev}", rep)
            break
    # (b) stop rule / success
    left, right, maxlen = case["left"], case["right"], case["maxlen"]
    ords = [e["order"][0] for e in path]
    if any(outside(x, left, right) for x in ords[:-1]):
        ctx.fail(f"C12:{eng}:continued-past-crossing", f"orders {ords}, interfaces {left, right}", rep)
    if len(path) > maxlen:
        ctx.fail(f"C12:{eng}:longer-than-maxlen", f"{len(path)} > {maxlen}", rep)
    if obs["raised"] == "ok":
        last_out = bool(ords) and outside(ords[-1], left, right)
        if obs["success"] and not last_out:
            ctx.fail(f"C12:{eng}:success-without-crossing", f"orders {ords}, interfaces {left, right}", rep)
        if last_out and not obs["success"]:      # full strength since repair f955162 (also at the limit)
            ctx.fail(f"C12:{eng}:crossing-not-reported", f"orders {ords}, interfaces {left, right}, maxlen {maxlen}", rep)
        stopped = last_out or len(path) >= maxlen
        if not stopped:
            # the program ended by itself: only legitimate with exit code 0 and every written frame consumed
            if case["code"] != 0:
                ctx.fail(f"C12:{eng}:nonzero-exit-not-raised", f"exit code {case['code']}, path of {len(path)} frames returned", rep)
            elif len(path) != len(frames):
                ctx.fail(f"C12:{eng}:silently-truncated", f"{len(frames)} frames written, {len(path)} returned", rep)
    else:
        healthy = (case["code"] == 0 and any(w[0] for w in obs.get("realised", []))
                   and not case.get("grompp_rc") and not case.get("energy_rc"))
        if healthy:
            ctx.fail(f"C12:{eng}:raised-on-healthy-run", f"{obs.get('exc')}", rep)
    if case.get("grompp_rc") or case.get("energy_rc"):
        # an engine failure (here: a tool of the MD package) raises instead of returning a path
        if obs["raised"] == "ok":
            ctx.fail(f"C12:{eng}:tool-failure-not-raised", f"grompp rc {case.get('grompp_rc', 0)}, energy rc "
                                                           f"{case.get('energy_rc', 0)}: propagate returned normally", rep)
        if case.get("grompp_rc") and obs.get("proc") != "never-started":
            ctx.fail(f"C12:{eng}:started-after-failed-grompp", f"mdrun state after propagate: {obs.get('proc')}", rep)
    if not (case.get("grompp_rc") or case.get("energy_rc")):
        L0 = case.get("start", frames[0] if frames else (1.0, 16.0, 0.0))[1]
        check_stop_rule(ctx, eng, case, obs, rep, [pbc(d, L0 if eng == "cp2k" else L) for (d, L, vx) in frames], endless=False)
    _check_purity(ctx, eng, obs, rep)
    # (c) program stopped when propagate returns/raises
    if obs.get("proc") == "orphan":
        ctx.fail(f"C12:{eng}:program-left-running", "the external program was still running after propagate ended", rep)
    # (d) the program was started from the given phase point (velocities reversed iff reverse != vel_rev)
    if obs.get("ext_restart"):
        ctx.fail(f"C12:{eng}:start-config-wrong", "the generated run.inp still has an &EXT_RESTART section: CP2K starts from the "
                                                  "restart file named there, not from the phase point", rep)
    st = case.get("start", frames[0] if frames else None)
    if st is not None and obs.get("start_seen") is not None:
        flip = -1.0 if (rev != bool(case.get("vel_rev0", False))) else 1.0
        want = [st[0], st[1], flip * st[2]]
        got = obs["start_seen"]
        if not isinstance(got, list) or [got[0], got[1] if got[1] is not None else want[1], got[2]] != want:
            ctx.fail(f"C12:{eng}:start-config-wrong", f"program started from {got}, phase point is {want}", rep)
    return len(ctx.fails) - n0


# ----------------------------------------------------------------------------- case generators
def mono_tuples(n, hi):
    """nondecreasing n-tuples over 0..hi"""
    return itertools.combinations_with_replacement(range(hi + 1), n)


def sched_from_times(c, arr, x, arr2=None):
    """tick-/sleep-level list: file from c, frame j visible from arr[j], dead from x"""
    T = x + 1
    out = []
    for t in range(T):
        vis = sum(1 for a in arr if a <= t)
        vis2 = sum(1 for a in (arr2 if arr2 is not None else []) if a <= t)
        out.append((1 if t >= c else 0, vis if t >= c else 0, vis2 if t >= c else 0, 1 if t < x else 0))
    return out


def lammps_frames(n, pattern, cross_at):
    """n frames; distance grows by 0.5 per frame; frame `cross_at` (if < n) jumps to 9.0 (beyond right=8);
    pattern: 'const' box 32, 'grow' 10,12,…, 'shrink' …,12,10 — in a 16 or smaller box 9.0 wraps below 8"""
    fr = []
    for k in range(n):
        d = 1.0 + 0.5 * k if k != cross_at else 9.0
        if pattern == "const":
            L = 32.0
        elif pattern == "grow":
            L = 20.0 - 2.0 * (n - 1 - k)
        else:
            L = 20.0 + 12.0 * (n - 1 - k) if k == cross_at else 12.0 + 2.0 * k
        fr.append((d, L, float(k + 1)))
    return fr


def gen_ext_cases(ctx):
    rng = ctx.rng
    quick = ctx.quick
    cases = []
    # the recorded witness (DESIGN §6 C12): six frames, boxes 10…20, three arriving in one poll
    wit = [(1.0 + 0.5 * k if k < 5 else 9.0, 10.0 + 2 * k, 1.0) for k in range(6)]
    cases.append(dict(engine="lammps", frames=wit, coarse=[(1, 3, 0, 1), (1, 6, 0, 1), (1, 6, 0, 0)], code=0, maxlen=20,
                      left=0.5, right=8.0, rev=0, sub=1, tag="witness"))
    # A. exhaustive tick-level schedules, n ≤ 2 (exit codes 0, 3 and death by a signal infretis did not send)
    nsig = 0
    H = 7 if quick else 9
    for n in (0, 1, 2):
        for times in mono_tuples(n + 2, H):
            c, arr, x = times[0], list(times[1:-1]), times[-1]
            nsig += 1
            for code in (0, 3, SIGNALS[nsig % 3]):
                fr = lammps_frames(n, "grow", n - 1)
                cases.append(dict(engine="lammps", frames=fr, sched=sched_from_times(c, arr, x), code=code, maxlen=5,
                                  left=0.5, right=8.0, rev=0, sub=1, tag="tick-exh"))
    # A'. the program ends without ever creating its output file (exit 0: LAMMPS → IndexError on `frames[0]`)
    for eng in ("lammps", "cp2k"):
        for j in (0, 1, 2, 4):
            for code in (0, 3):
                cases.append(dict(engine=eng, frames=[], sched=[(0, 0, 0, 1)] * j + [(0, 0, 0, 0)], code=code, maxlen=3,
                                  left=0.5, right=8.0, rev=0, sub=1, start=(1.0, 30.0, 1.0), tag="no-file"))
    # A''. the program is killed from outside (OOM killer -9, segfault -11, batch system -15) after writing only
    #      frames inside the interfaces, before the stop frame: every death tick, both engines, limits not reached
    for eng in ("lammps", "cp2k"):
        for sig in SIGNALS:
            for nvis in (0, 1, 2):
                for x in range(0, 9):
                    fr = [(1.0, 30.0, 1.0), (1.5, 30.0, 2.0), (9.0, 30.0, 3.0)]
                    sched = [(1, min(nvis, t + 1), min(nvis, t + 1), 1) for t in range(x)] + [(1, nvis, nvis, 0)]
                    cases.append(dict(engine=eng, frames=fr[:nvis] if nvis else [], sched=sched, code=sig, maxlen=6,
                                      left=0.5, right=8.0, rev=0, sub=1, start=(1.0, 30.0, 1.0), tag="signal-before-stop"))
                    # … and after the crossing frame became visible (infretis may or may not get to see it first)
                    sched2 = [(1, min(3, t + 1), min(3, t + 1), 1) for t in range(x)] + [(1, 3, 3, 0)]
                    cases.append(dict(engine=eng, frames=fr, sched=sched2, code=sig, maxlen=6, left=0.5, right=8.0,
                                      rev=0, sub=1, tag="signal-around-stop"))
    # B. exhaustive per-sleep schedules, n = 3, 4 × box pattern × crossing frame × length limit × exit code
    for n in (3, 4):
        for times in mono_tuples(n + 1, n):
            arr, x = list(times[:-1]), times[-1]
            c = arr[0]
            combos = []
            for pattern in ("grow", "const", "shrink"):
                for cross in (n - 1, n - 2, n):
                    for dm in (-1, 0, 1, 3):
                        combos.append((pattern, cross, dm))
            pick = combos if not quick else rng.sample(combos, 5)
            for (pattern, cross, dm) in pick:
                fr = lammps_frames(n, pattern, cross)
                ml = max(1, (cross + 1 if cross < n else n) + dm)
                cases.append(dict(engine="lammps", frames=fr, coarse=sched_from_times(c, arr, x), code=rng.choice((0, 0, 2, -9, -15)),
                                  maxlen=ml, left=0.5, right=8.0, rev=rng.choice((0, 1)), vel_rev0=rng.choice((False, True)),
                                  sub=rng.choice((1, 2, 3)), lo=rng.choice((0.0, 0.0, 1.0)), tag="sleep-exh"))
    # C. random fine schedules with boundary-valued orders (equal to an interface)
    for _ in range(150 if quick else 3000):
        n = rng.randint(1, 5)
        fr = []
        for k in range(n):
            d = rng.choice((0.0, 0.25, 0.5, 1.0, 2.0, 7.75, 8.0, 8.25, 9.0, 11.0))
            L = rng.choice((12.0, 16.0, 20.0, 32.0, 64.0))
            if abs(d / L - round(d / L)) == 0.5:
                L = 64.0
            fr.append((d, L, float(rng.randint(-3, 3))))
        times = sorted(rng.randint(0, 3 * n + 6) for _ in range(n + 2))
        cases.append(dict(engine="lammps", frames=fr, sched=sched_from_times(times[0], times[1:-1], times[-1]),
                          code=rng.choice((0, 0, 1, 7, -9, -11, -15)), maxlen=rng.randint(1, n + 1),
                          left=rng.choice((0.5, 0.5, 0.0)), right=8.0, shuffled=rng.choice((False, True)),
                          rev=rng.choice((0, 1)), vel_rev0=rng.choice((False, True)), sub=rng.choice((1, 2, 3)),
                          lo=rng.choice((0.0, 2.0)), tag="random"))
    # D. CP2K: position and velocity files advance independently
    Hc = 5 if quick else 6
    for n in (0, 1, 2):
        for ptimes in mono_tuples(n + 1, Hc):
            c, pa = ptimes[0], list(ptimes[1:])
            for va in mono_tuples(n, Hc):
                va = [max(v, c) for v in va]
                last = max([c] + pa + list(va))
                for x in {last, min(last + 2, Hc + 2)}:
                    if quick and rng.random() < 0.5:
                        continue
                    fr = [(1.0 + 0.5 * k if k < n - 1 else 9.0, 30.0, float(k + 1)) for k in range(n)]
                    cases.append(dict(engine="cp2k", frames=fr, sched=sched_from_times(c, pa, x, va), code=rng.choice((0, 4, -9, -11, -15)),
                                      maxlen=4, left=0.5, right=8.0, rev=rng.choice((0, 1)), vel_rev0=rng.choice((False, True)),
                                      sub=rng.choice((1, 2, 3)), start=(1.0, 30.0, 1.0) if n == 0 else None, tag="cp2k-exh"))
    for _ in range(120 if quick else 2500):
        n = rng.randint(1, 4)
        fr = [(rng.choice((0.0, 0.25, 0.5, 1.0, 2.0, 7.75, 8.0, 8.25, 9.0)), 30.0, float(rng.randint(-3, 3))) for _ in range(n)]
        pt = sorted(rng.randint(0, 2 * n + 4) for _ in range(n + 1))
        vt = sorted(rng.randint(pt[0], 2 * n + 4) for _ in range(n))
        x = max(pt + vt) + rng.randint(0, 2)
        cases.append(dict(engine="cp2k", frames=fr, sched=sched_from_times(pt[0], pt[1:], x, vt), code=rng.choice((0, 0, 5, -9, -11, -15)),
                          maxlen=rng.randint(1, n + 1), left=rng.choice((0.5, 0.5, 0.0)), right=8.0, rev=rng.choice((0, 1)),
                          vel_rev0=rng.choice((False, True)), sub=rng.choice((1, 2, 3)), tag="cp2k-random"))
    # E. two consecutive propagations with ONE engine object in ONE exe_dir: nothing of the first may leak into the
    #    second (reader positions, leftover files, cached sizes): the second is checked like any other case
    for eng in ("lammps", "cp2k"):
        for j in range(12 if quick else 80):
            def one(n):
                fr = [(rng.choice((1.0, 2.0, 3.5, 7.75, 9.0)), 30.0 if eng == "cp2k" else rng.choice((16.0, 32.0)), float(rng.randint(-3, 3)))
                      for _ in range(n)]
                t = sorted(rng.randint(0, 2 * n + 4) for _ in range(n + 2))
                return dict(engine=eng, frames=fr, sched=sched_from_times(t[0], t[1:-1], t[-1], t[1:-1]), code=rng.choice((0, 0, 3, -9)),
                            maxlen=rng.randint(1, n + 1), left=0.5, right=8.0, rev=rng.choice((0, 1)),
                            vel_rev0=rng.choice((False, True)), sub=1, tag="second-in-same-dir")
            c2 = one(rng.randint(1, 4))
            c2["prelude"] = one(rng.randint(1, 5))
            cases.append(c2)
    # F. length limits exactly around the first outside frame: index ∈ {maxlen−2, maxlen−1, maxlen, none}, subcycles 1–3,
    #    all frames at once / one per sleep
    for eng in ("lammps", "cp2k"):
        for sub in (1, 2, 3):
            for ml in (2, 3, 5):
                for fo in (ml - 2, ml - 1, ml, None):
                    n = ml + 1
                    fr = [(9.0 if k == fo else 1.0 + 0.25 * k, 30.0, float(k % 3 - 1)) for k in range(n)]
                    for shape in ("burst", "drip"):
                        arr = [0] * n if shape == "burst" else list(range(n))
                        x = (arr[-1] + 2)
                        cases.append(dict(engine=eng, frames=fr, coarse=sched_from_times(0, arr, x, arr), code=0, maxlen=ml,
                                          left=0.5, right=8.0, rev=(sub + ml) % 2, vel_rev0=bool(ml % 2), sub=sub, tag="limit-exh"))
    # G. a flush of the program's buffer ends in the middle of a line, with ≥ 1 complete frame before it, between two
    #    polls: every complete frame must be delivered exactly once (C13 proves the reader; here the whole engine loop)
    for eng in ("lammps", "cp2k"):
        for n in (2, 3, 4):
            for torn in (1, 5, 20, 60):
                for shape in ("drip", "pairs"):
                    arr = list(range(n)) if shape == "drip" else [2 * (k // 2) for k in range(n)]
                    fr = [(1.0 + 0.5 * k if k < n - 1 else (9.0 if torn % 2 else 2.0), 30.0, float(k + 1)) for k in range(n)]
                    cases.append(dict(engine=eng, frames=fr, coarse=sched_from_times(0, arr, arr[-1] + 3, arr), code=0, maxlen=n + 1,
                                      left=0.5, right=8.0, rev=n % 2, vel_rev0=False, sub=1, torn=torn, tag="torn-flush"))
    for c in cases:
        for cc in (c, c.get("prelude")):
            if cc is None:
                continue
            if cc.get("start") is None:
                cc.pop("start", None)
            if not cc["frames"] and "start" not in cc:
                cc["start"] = (1.0, 16.0, 1.0)
    return cases


def gen_gmx_cases(ctx):
    """GROMACS through fake gmx: tick-level schedules (exhaustive for ≤ 2 frames with a 40-atom frame, i.e. first read
    possible with one frame; sampled for the 2-atom frames where the reader first waits for 1000 bytes), both
    precisions, forward/backward, varying boxes, exit codes incl. signals, limits around the crossing frame"""
    rng = ctx.rng
    cases = []
    # witness of the velocity-direction finding: backward propagation, the file velocities 2, -1, 3 must reach a
    # velocity-dependent order parameter as -2, 1, -3 (vel_rev = True); GROMACS hands over 2, -1, 3
    cases.append(dict(engine="gromacs", frames=[(1.0, 16.0, 2.0), (1.5, 18.0, -1.0), (9.0, 32.0, 3.0)],
                      sched=[(1, 3, 0, 1)] * 8 + [(1, 3, 0, 0)], code=0, maxlen=6, left=0.5, right=8.0, rev=1, vel_rev0=False,
                      sub=1, natoms=40, double=False, tag="gmx-witness"))
    H = 5 if ctx.quick else 7
    k = 0
    for n in (0, 1, 2):
        for times in mono_tuples(n + 2, H):
            c, arr, x = times[0], list(times[1:-1]), times[-1]
            k += 1
            code = (0, 3, -9, -15, 0, -11)[k % 6]
            fr = lammps_frames(n, "grow", n - 1)
            cases.append(dict(engine="gromacs", frames=fr, sched=sched_from_times(c, arr, x), code=code, maxlen=(n, n + 1, 5)[k % 3] or 1,
                              left=0.5, right=8.0, rev=k % 2, vel_rev0=bool((k // 2) % 2), sub=1, natoms=40, double=bool(k % 4 == 0),
                              start=(1.0, 16.0, 1.0) if n == 0 else None, tag="gmx-tick-exh"))
    # mdrun ends without ever creating its output files
    for j in (0, 1, 2, 3):
        for code in (0, 3, -9):
            cases.append(dict(engine="gromacs", frames=[], sched=[(0, 0, 0, 1)] * j + [(0, 0, 0, 0)], code=code, maxlen=3, left=0.5,
                              right=8.0, rev=0, sub=1, natoms=2, double=False, start=(1.0, 16.0, 1.0), tag="gmx-no-file"))
    for _ in range(120 if ctx.quick else 1500):
        natoms, double = rng.choice(((2, False), (2, True), (40, False), (40, True), (30, False)))
        n = rng.randint(1, 8)
        fr = []
        for j in range(n):
            d = rng.choice((0.0, 0.25, 0.5, 1.0, 2.0, 7.75, 8.0, 8.25, 9.0, 11.0)) if rng.random() < 0.5 else 1.0 + 0.25 * j
            L = rng.choice((12.0, 16.0, 20.0, 32.0, 64.0))
            if abs(d / L - round(d / L)) == 0.5:
                L = 64.0
            fr.append((d, L, float(rng.randint(-3, 3))))
        times = sorted(rng.randint(0, 3 * n + 6) for _ in range(n + 2))
        cases.append(dict(engine="gromacs", frames=fr, sched=sched_from_times(times[0], times[1:-1], times[-1]),
                          code=rng.choice((0, 0, 0, 1, -9, -11, -15)), maxlen=rng.randint(1, n + 1),
                          left=rng.choice((0.5, 0.5, 0.0)), right=8.0,
                          rev=rng.choice((0, 1)), vel_rev0=rng.choice((False, True)), sub=rng.choice((1, 2, 3)),
                          natoms=natoms, double=double, hetero=rng.choice((False, True)), tag="gmx-random"))
    # launcher-style worker command (`wmdrun = "srun … gmx mdrun"`): the engine's child is a launcher, mdrun its child in
    # the same process group — after propagate the WHOLE group must be gone
    for j in range(16 if ctx.quick else 120):
        n = rng.randint(1, 4)
        fr = [(1.0 + 0.5 * i if i < n - 1 else rng.choice((9.0, 2.0)), rng.choice((16.0, 32.0)), float(rng.randint(-3, 3))) for i in range(n)]
        t = sorted(rng.randint(0, 2 * n + 5) for _ in range(n + 2))
        cases.append(dict(engine="gromacs", frames=fr, sched=sched_from_times(t[0], t[1:-1], t[-1]), code=rng.choice((0, 0, 0, 2, -9)),
                          maxlen=rng.randint(max(1, n - 1), n + 2), left=0.5, right=8.0, rev=rng.choice((0, 1)), vel_rev0=False, sub=1,
                          natoms=40, double=bool(j % 2), launch=True, tag="gmx-launcher"))
    # the witness for the launcher case: the crossing frame is seen while mdrun is still running
    cases.append(dict(engine="gromacs", frames=[(1.0, 16.0, 1.0), (9.0, 32.0, 2.0)], sched=[(1, 2, 0, 1)] * 12 + [(1, 2, 0, 0)], code=0,
                      maxlen=5, left=0.5, right=8.0, rev=0, vel_rev0=False, sub=1, natoms=40, double=False, launch=True,
                      tag="gmx-launcher"))
    # frames of different sizes (forces only in every other frame): the last, smaller frame arrives exactly when mdrun
    # ends with code 0, after the larger ones were read on the fly — every complete frame must still be returned
    for n in (2, 4, 6):
        for double in (False, True):
            for lag in (0, 1, 3):
                fr = [(1.0 + 0.25 * i, 32.0, float(i % 3 - 1)) for i in range(n)]
                arr = [2 * i for i in range(n - 1)]
                x = 2 * (n - 1) + 2 + lag
                cases.append(dict(engine="gromacs", frames=fr, sched=sched_from_times(0, arr + [x], x), code=0, maxlen=n + 3, left=0.5,
                                  right=8.0, rev=0, vel_rev0=False, sub=1, natoms=40, double=double, hetero=True, tag="gmx-hetero-tail"))
    # two consecutive propagations with one engine object in one exe_dir
    for j in range(10 if ctx.quick else 60):
        def one(n):
            fr = [(rng.choice((1.0, 2.0, 3.5, 7.75, 9.0)), rng.choice((16.0, 32.0)), float(rng.randint(-3, 3))) for _ in range(n)]
            t = sorted(rng.randint(0, 2 * n + 4) for _ in range(n + 2))
            return dict(engine="gromacs", frames=fr, sched=sched_from_times(t[0], t[1:-1], t[-1]), code=rng.choice((0, 0, 3, -9)),
                        maxlen=rng.randint(1, n + 1), left=0.5, right=8.0, rev=rng.choice((0, 1)), vel_rev0=rng.choice((False, True)),
                        sub=1, natoms=rng.choice((2, 40)), double=rng.choice((False, True)), tag="gmx-second-in-same-dir")
        c2 = one(rng.randint(1, 5))
        c2["prelude"] = one(rng.randint(1, 6))
        c2["prelude"]["natoms"] = c2["natoms"]
        cases.append(c2)
    # length limits exactly around the first outside frame: index ∈ {maxlen−2, maxlen−1, maxlen, none}, subcycles 1–3
    for sub in (1, 2, 3):
        for ml in (2, 3, 5):
            for fo in (ml - 2, ml - 1, ml, None):
                n = ml + 1
                fr = [(9.0 if k == fo else 1.0 + 0.25 * k, 32.0, float(k % 3 - 1)) for k in range(n)]
                for shape in ("burst", "drip"):
                    arr = [0] * n if shape == "burst" else [2 * k for k in range(n)]
                    cases.append(dict(engine="gromacs", frames=fr, sched=sched_from_times(0, arr, arr[-1] + 3), code=0, maxlen=ml,
                                      left=0.5, right=8.0, rev=(sub + ml) % 2, vel_rev0=bool(ml % 2), sub=sub, natoms=40,
                                      double=bool(sub % 2), tag="gmx-limit-exh"))
    # the one-shot tools around mdrun fail (`gmx grompp` before, `gmx energy` after): execute_command must raise, and
    # mdrun must not be started (grompp) / must have been stopped (energy)
    for j, (grc, erc) in enumerate(((1, 0), (-11, 0), (0, 1), (0, 2), (0, -9), (3, 1)) if ctx.quick else
                                   ((1, 0), (-11, 0), (0, 1), (0, 2), (0, -9), (3, 1), (2, 0), (0, 255), (-15, 0), (0, -15))):
        fr = [(1.0, 16.0, 1.0), (2.0, 18.0, -2.0), (9.0, 32.0, 3.0)][:1 + j % 3]
        cases.append(dict(engine="gromacs", frames=fr, sched=sched_from_times(0, [1] * (len(fr) - 1), 2 + j % 2), code=0,
                          maxlen=4, left=0.5, right=8.0, rev=j % 2, vel_rev0=bool(j % 3 == 0), sub=1, natoms=40, double=False,
                          grompp_rc=grc, energy_rc=erc, tag="gmx-tool-fail"))
    for c in cases:
        if c.get("start") is None:
            c.pop("start", None)
    return cases


def pt_tokens(file, idx, vel_rev):
    return f"{file} {'-' if idx is None else idx} {int(bool(vel_rev))}"


def propgmx_line(case, realised):
    """whole GROMACS propagate from the PHASE POINT (start.g96, index 0 or None, vel_rev0) — Model/EnginePropagate.lean"""
    frames = case["frames"]
    start = case.get("start", frames[0] if frames else (1.0, 16.0, 0.0))
    ds = sorted({f[0] for f in frames} | {start[0]})
    Ls = sorted({f[1] for f in frames} | {start[1]})
    fr = [(ds.index(d), Ls.index(L), sc(vx)) for (d, L, vx) in frames]
    sfr = [(ds.index(start[0]), Ls.index(start[1]), sc(start[2]))]
    tab = [(ci, bi, sc(pbc(d, L))) for ci, d in enumerate(ds) for bi, L in enumerate(Ls)]
    ws = " ".join([str(len(realised))] + [f"{a} {b} {c} {d}" for a, b, c, d in realised])
    line = (f"propgmx rep {sc(case['left'])} {sc(case['right'])} {case['maxlen']} {int(bool(case['rev']))} {case['code']} "
            f"{gmx_need0(case)} 400 {int(case.get('grompp_rc', 0))} {int(case.get('energy_rc', 0))} "
            f"{pt_tokens('u1', None if case.get('cfg_none') else 0, case.get('vel_rev0', False))} "
            f"{tri(sfr)} {tri(fr)} {ws} {tri(tab)}")
    return line, ds, Ls


def gmx_line(case, realised, repaired=False):
    """Variant.repaired = the order function gets -v on backward paths like in every other engine (`velSeen`, /repo
    since f551f52); Variant.asIs = the code as found (`gmxVelSeen rev v = v`)"""
    frames = case["frames"]
    start = case.get("start", frames[0] if frames else (1.0, 16.0, 0.0))
    ds = sorted({f[0] for f in frames})
    Ls = sorted({f[1] for f in frames} | {start[1]})
    fr = [(ds.index(d), Ls.index(L), sc(vx)) for (d, L, vx) in frames]
    tab = [(ci, bi, sc(pbc(d, L))) for ci, d in enumerate(ds) for bi, L in enumerate(Ls)]
    ws = " ".join([str(len(realised))] + [f"{a} {b} {c} {d}" for a, b, c, d in realised])
    return (f"gmxext {'rep' if repaired else 'asis'} {sc(case['left'])} {sc(case['right'])} {case['maxlen']} {int(bool(case['rev']))} {case['code']} "
            f"{gmx_need0(case)} 400 {tri(fr)} {ws} {tri(tab)}")


def gen_inproc_cases(ctx):
    rng = ctx.rng
    cases = []
    for eng in ("turtle", "ase"):
        for sub in (1, 2, 3):
            for v0 in (0.5, -0.5, 1.0):
                for rev in (0, 1):
                    for vel_rev0 in (False, True):
                        veff = v0 * (-1.0 if bool(rev) != vel_rev0 else 1.0)
                        d0 = 4.0
                        # frames at 4 + i·0.5·veff·sub; first crossing of right=6.125 / left=1.875 (off-grid interfaces)
                        step = abs(0.5 * veff * sub)
                        ncross = int(math.floor(2.125 / step)) + 2      # frames until the crossing, inclusive
                        for dm in (-1, 0, 1):
                            ml = max(1, ncross + dm)
                            cases.append(dict(engine=eng, d0=d0, v0=v0, L=64.0, sub=sub, maxlen=ml, left=1.875, right=6.125,
                                              rev=rev, vel_rev0=vel_rev0, k=0.0, retrace=(dm == -1), tag="free"))
        # exact interface hits (free flight is exact): order == interface must NOT stop (strict comparison)
        for sub in (1, 2):
            cases.append(dict(engine=eng, d0=4.0, v0=0.5, L=64.0, sub=sub, maxlen=12, left=2.0, right=5.0, rev=0,
                              vel_rev0=False, k=0.0, retrace=False, tag="free-boundary"))
        # periodic wrap of the order parameter in a small box
        cases.append(dict(engine=eng, d0=2.0, v0=1.0, L=8.0, sub=1, maxlen=9, left=0.375, right=3.625, rev=0, vel_rev0=False,
                          k=0.0, retrace=False, tag="free-pbc"))
        # length limits exactly around the first outside frame: index ∈ {maxlen−2, maxlen−1, maxlen, none}, subcycles 1–3
        for sub in (1, 2, 3):
            for ml in (2, 3, 5):
                for fo in (ml - 2, ml - 1, ml, None):
                    # frames at 4 + k·sub·0.25; the right interface lies 1/8 below frame `fo`
                    right = 30.0 if fo is None else 4.0 + fo * sub * 0.25 - 0.125
                    cases.append(dict(engine=eng, d0=4.0, v0=0.5, L=64.0, sub=sub, maxlen=ml, left=0.125, right=right, rev=0,
                                      vel_rev0=False, k=0.0, retrace=False, tag="free-limit-exh"))
    # ASE with a harmonic calculator: no model comparison (not dyadic), property predicate + retracing only
    for sub in (1, 2, 3):
        for rev in (0, 1):
            cases.append(dict(engine="ase", d0=2.5, v0=0.25, L=64.0, sub=sub, maxlen=rng.randint(5, 12), left=1.4, right=2.9,
                              rev=rev, vel_rev0=False, k=0.5, retrace=True, tag="harmonic"))
    return cases


LEVELS = (0.25, 0.5, 2.0, 8.0, 9.0)        # below / at left / inside / at right / above for (0.5, 8.0)


def gen_plugin_cases(ctx):
    rng = ctx.rng
    cases = []
    maxscript = 3 if ctx.quick else 4
    for n in range(0, maxscript + 1):
        for script in itertools.product(LEVELS, repeat=n):
            for d0 in (2.0, 0.5, 9.0):
                for ml in (1, 2, n + 1, n + 2):
                    if ctx.quick and rng.random() < 0.6:
                        continue
                    cases.append(dict(engine="plugin", d0=d0, v0=rng.choice((1.0, -2.0)), script=list(script), sub=1, maxlen=ml,
                                      left=0.5, right=8.0, rev=rng.choice((0, 1)), vel_rev0=rng.choice((False, True)),
                                      start_idx=rng.choice((0, 2)), tag="plugin"))
    for _ in range(200 if ctx.quick else 2000):
        sub = rng.choice((2, 3))
        n = rng.randint(0, 9)
        cases.append(dict(engine="plugin", d0=rng.choice((2.0, 0.0)), v0=rng.choice((1.0, 0.0)),
                          script=[rng.choice(LEVELS + (0.0,)) for _ in range(n)], sub=sub,
                          maxlen=rng.randint(1, 5), left=rng.choice((0.5, 0.0)), right=8.0, rev=rng.choice((0, 1)),
                          vel_rev0=rng.choice((False, True)), start_idx=rng.choice((0, 1)), tag="plugin-sub"))
    # length limits exactly around the first outside sample: index ∈ {maxlen−2, maxlen−1, maxlen, none}, subcycles 1–3
    for sub in (1, 2, 3):
        for ml in (2, 3, 5):
            for fo in (ml - 2, ml - 1, ml, None):
                full = [9.0 if (k % sub == 0 and k // sub == fo) else 2.0 for k in range((ml + 1) * sub + 1)]
                cases.append(dict(engine="plugin", d0=full[0], v0=1.0, script=full[1:], sub=sub, maxlen=ml, left=0.5, right=8.0,
                                  rev=0, vel_rev0=False, start_idx=0, tag="plugin-limit-exh"))
    # the other two branches of dump_config: config = (file, None) → copy; … and the file already is the target → nothing
    for rev in (0, 1):
        for vr0 in (False, True):
            for kind in ("cfg_none", "same_file"):
                for script in ((), (2.0, 9.0), (0.25,)):
                    cases.append(dict(engine="plugin", d0=2.0, v0=rng.choice((1.0, -2.0)), script=list(script), sub=1, maxlen=4,
                                      left=0.5, right=8.0, rev=rev, vel_rev0=vr0, start_idx=0, tag="plugin-" + kind, **{kind: True}))
    return cases


S2 = 8        # in-process cases: interfaces may lie between grid points → scale 8


def sc2(x):
    v = x * S2
    assert v == int(v), x
    return int(v)


def inproc_line(case):
    flip = -1.0 if bool(case["rev"]) != bool(case.get("vel_rev0", False)) else 1.0
    veff = case["v0"] * flip
    n = case["sub"] * case["maxlen"] + 1
    ds = [case["d0"] + i * 0.5 * veff for i in range(n)]
    fr = [(i, 0, sc2(veff)) for i in range(n)]
    tab = [(i, 0, sc2(pbc(d, case["L"]))) for i, d in enumerate(ds)]
    return (f"inproc {1 if case['engine'] == 'ase' else 0} {sc2(case['left'])} {sc2(case['right'])} {case['maxlen']} "
            f"{int(bool(case['rev']))} {case['sub']} {tri(fr)} {tri(tab)}")


def propinproc_line(case):
    """whole propagate of ASE/TurtleMD from the PHASE POINT (start file, index 0, vel_rev0): the flip decision, the
    file operations and the dynamics' start frame are the model's (Model/EnginePropagate.lean), not the harness's"""
    n = case["sub"] * case["maxlen"] + 1
    c0, v = sc2(case["d0"]), sc2(case["v0"])
    cids = sorted({c0 + sg * i * (abs(v) // 2) for i in range(n + 1) for sg in (1, -1) if c0 + sg * i * (abs(v) // 2) >= 0})
    tab = [(c, 0, sc2(pbc(c / S2, case["L"]))) for c in cids]
    return (f"propinproc {1 if case['engine'] == 'ase' else 0} {sc2(case['left'])} {sc2(case['right'])} {case['maxlen']} "
            f"{int(bool(case['rev']))} {case['sub']} {pt_tokens('u1', 0, case.get('vel_rev0', False))} "
            f"{tri([(c0, 0, v)])} {tri(tab)}")


def plugin_line(case):
    stream = ([case["d0"]] + list(case["script"]))[::case["sub"]]
    return (f"feed {case['maxlen']} {sc(case['left'])} {sc(case['right'])} 0 "
            f"{len(stream)} {' '.join(str(sc(x)) for x in stream)}".replace("  ", " ").strip())


def check_path_rules(ctx, eng, case, obs, rep, tol=0.0):
    """stop rule, success rule, own-frame rule for in-process / plug-in engines (no model involved)"""
    left, right, maxlen = case["left"], case["right"], case["maxlen"]
    path = obs.get("path", [])
    rev = bool(case["rev"])
    sign = -1.0 if rev else 1.0
    ords = [e["order"][0] for e in path]
    for k, e in enumerate(path):
        if e["idx"] != k or e["vel_rev"] != rev:
            ctx.fail(f"C12:{eng}:frame-not-in-order", f"path frame {k} refers to index {e['idx']} vel_rev={e['vel_rev']}", rep)
            break
        if "recomputed" in obs:
            r = obs["recomputed"][k] if k < len(obs["recomputed"]) else None
            if r is None:
                ctx.fail(f"C12:{eng}:frame-missing-in-file", f"path frame {k} is not in the trajectory file", rep)
                break
            if abs(e["order"][0] - r["order0"]) > tol:
                ctx.fail(f"C12:{eng}:order-not-from-own-frame", f"frame {k}: stored {e['order'][0]}, file frame gives {r['order0']}", rep)
                break
            if abs(e["order"][1] - sign * r["vx"]) > tol:
                ctx.fail(f"C12:{eng}:velocity-direction", f"frame {k}: order function saw vx={e['order'][1]}, file has {r['vx']}, vel_rev={rev}", rep)
                break
    _check_purity(ctx, eng, obs, rep)
    if any(outside(x, left, right) for x in ords[:-1]):
        ctx.fail(f"C12:{eng}:continued-past-crossing", f"orders {ords}, interfaces {left, right}", rep)
    if len(path) > maxlen:
        ctx.fail(f"C12:{eng}:longer-than-maxlen", f"{len(path)} > {maxlen}", rep)
    if obs["raised"] == "ok":
        last_out = bool(ords) and outside(ords[-1], left, right)
        if obs["success"] and not last_out:
            ctx.fail(f"C12:{eng}:success-without-crossing", f"orders {ords}, interfaces {left, right}", rep)
        if last_out and not obs["success"]:      # full strength since repair f955162 (also at the limit)
            ctx.fail(f"C12:{eng}:crossing-not-reported", f"orders {ords}, interfaces {left, right}, maxlen {maxlen}", rep)
    else:
        ctx.fail(f"C12:{eng}:raised-on-healthy-run", f"{obs.get('exc')}", rep)


def check_inproc_property(ctx, case, obs):
    """ASE / TurtleMD: own-frame rule, stop/success rule, first frame = start point, backward retraces forward"""
    eng = case["engine"]
    rep = {"case": case, "observed": obs}
    exact = case.get("tag") != "harmonic"
    check_path_rules(ctx, eng, case, obs, rep, tol=0.0 if exact and eng == "ase" else 1e-6)
    if exact:
        flip = -1.0 if bool(case["rev"]) != bool(case.get("vel_rev0", False)) else 1.0
        stream = [pbc(case["d0"] + k * case["sub"] * 0.5 * flip * case["v0"], case["L"]) for k in range(case["maxlen"] + 1)]
        check_stop_rule(ctx, eng, case, obs, rep, stream, endless=True)
    elif obs.get("raised") == "ok":
        # any dynamics: an in-process engine never runs out of frames — it ends outside the interfaces or AT the limit
        ords = [e["order"][0] for e in obs.get("path", [])]
        if not (ords and outside(ords[-1], case["left"], case["right"])) and len(ords) != case["maxlen"]:
            ctx.fail(f"C12:{eng}:stopped-before-limit", f"{len(ords)} frames, all inside, length limit {case['maxlen']}", rep)
        elif ords and len(ords) == case["maxlen"] and not outside(ords[-1], case["left"], case["right"]) \
                and obs.get("status") != "maxlen":
            ctx.fail(f"C12:{eng}:status-text-wrong", f"limit hit, status {obs.get('status')!r}", rep)
    if obs.get("path"):
        r0 = obs["recomputed"][0] if obs.get("recomputed") else None
        flip0 = -1.0 if bool(case["rev"]) != bool(case.get("vel_rev0", False)) else 1.0
        if r0 is None or abs(r0["d"] - case["d0"]) > 1e-9 or abs(r0["vx"] - flip0 * case["v0"]) > 1e-9:
            ctx.fail(f"C12:{eng}:first-frame-not-start", f"first frame {r0}, start point d={case['d0']} "
                                                         f"v={flip0 * case['v0']} (velocities reversed iff reverse != vel_rev)", rep)
    if "back" in obs:
        fw = [e["order"] for e in obs["path"]]
        bw = [e["order"] for e in obs["back"].get("path", [])]
        tol = 0.0 if exact else 1e-6
        ok = len(fw) == len(bw) and all(abs(a[0] - b[0]) <= tol and abs(a[1] - b[1]) <= tol for a, b in zip(fw, bw[::-1]))
        if not ok:
            ctx.fail(f"C12:{eng}:backward-does-not-retrace", f"forward {fw}, backward from its last frame {bw}", rep)


def parse_setup(txt):
    """'<n> call… initialConf sysfile sysidx velRev backward' of the driver → dict"""
    t = txt.split()
    n = int(t[0])
    calls = [tuple(int(x) if x.isdigit() else x for x in c.split(":")) for c in t[1:1 + n]]
    rest = t[1 + n:]
    return {"calls": calls, "initial": rest[0], "sys_file": rest[1], "sys_idx": None if rest[2] == "-" else int(rest[2]),
            "sys_vel_rev": rest[3] == "1", "backward": rest[4] == "1"}


def compare_propgmx(ctx, case, obs, ans, ds, Ls):
    ctx.hit("propgmx")
    if ans.startswith("err") or ans == "bad-op":
        ctx.disagree({"engine": "gromacs", "op": "propgmx", "case": case}, "a result", ans)
        return
    su_txt, mid, res_txt = ans.split(" | ", 2)
    su = parse_setup(su_txt)
    started, st = mid.split()
    m = parse_model(res_txt)
    cv = code_view(obs)
    mv = model_view(m)
    code = {**cv, "started": obs.get("proc") != "never-started"}
    model = {**mv, "started": started == "1"}
    if started == "1":
        code["ticks"], model["ticks"] = obs["ticks"], m["ticks"]
        code["stopped"], model["stopped"] = obs["proc"] == "stopped", m["dead"]
    # the configuration mdrun was started from = the frame the wrapper left at (initial_conf, 0)
    if obs.get("start_seen") is not None and st != "-":
        ci, bi, v = (int(x) for x in st.split(","))
        got = obs["start_seen"]
        code["start"] = [got[0], got[1] if got[1] is not None else Ls[bi], got[2]] if isinstance(got, list) else got
        model["start"] = [ds[ci], Ls[bi], v / S]
    # which initial configuration grompp was given: r_… iff the wrapper reversed the velocities
    if obs.get("start_file") is not None:
        code["reversed_file"], model["reversed_file"] = obs["start_file"].startswith("r_"), su["initial"] == "rconf"
    if code != model:
        ctx.disagree({"engine": "gromacs", "op": "propgmx", "case": case, "realised": obs["realised"]}, code, model)


def run_base_ops(ctx, have_model):
    """EngineBase.execute_command / calculate_order / snapshot_to_system on the real methods (plug-in engine object)
    against execCommand / calcOrder / snapshotToSystem, plus the direct predicates"""
    import importlib.util  # noqa: F401
    import numpy as np
    from infretis.classes.system import System
    work = _newdir()
    try:
        eng = _plugin_cls()([], 1)
        eng.exe_dir = work
        # ---- execute_command: exit codes and deaths by signal
        rcs = [0, 1, 2, 3, 127, 255, -9, -15, -2]
        lines, code = [], []
        for rc in rcs:
            for cwd in (work,):        # cwd=None would write stdout.txt into the harness's own cwd: not exercised
                here = cwd or os.getcwd()
                for n in ("stdout.txt", "stderr.txt"):
                    if cwd is None and os.path.exists(os.path.join(here, n)):
                        break
                else:
                    sh = f"'echo out; echo err >&2; exit {rc}'" if rc >= 0 else f"'echo out; kill -{-rc} $$'"
                    try:
                        ret = eng.execute_command(["/bin/sh", "-c", sh], cwd=cwd)
                        o = (0, ret)
                    except RuntimeError as e:
                        o = (1, None)
                        if f"Return code: {rc}" not in str(e):
                            ctx.fail("C12:execute-command:wrong-return-code-reported", f"rc {rc}: {str(e)[-80:]}", {"rc": rc})
                    except Exception as e:  # noqa: BLE001
                        o = (err_kind(e), None)
                    kept = [os.path.exists(os.path.join(here, n)) for n in ("stdout.txt", "stderr.txt")]
                    for n in ("stdout.txt", "stderr.txt"):
                        if os.path.exists(os.path.join(here, n)):
                            os.remove(os.path.join(here, n))
                    ctx.count(1, engine="execute_command")
                    rep_ = {"fn": "execute_command", "rc": rc, "cwd": cwd is not None}
                    # the property: a failing program raises; only success returns
                    if rc != 0 and o[0] != 1:
                        ctx.fail("C12:execute-command:nonzero-exit-not-raised", f"return code {rc}: returned {o}", rep_)
                    if rc == 0 and o != (0, 0):
                        ctx.fail("C12:execute-command:raised-on-success", f"{o}", rep_)
                    if kept[0] != kept[1]:
                        ctx.fail("C12:execute-command:log-files-differ", f"{kept}", rep_)
                    lines.append(f"exec {rc}")
                    code.append(f"{o[0]} {'-' if o[1] is None else o[1]} {int(kept[0])}")
        if have_model and lines:
            for ln, a, cd in zip(lines, ctx.driver(lines), code):
                if a != cd:
                    ctx.disagree({"fn": "execute_command", "line": ln}, cd, a)
        # ---- calculate_order: argument route vs file route, vel_rev sign, missing order function
        class Probe:
            def calculate(self, system):
                return [1000.0 * (10 * system.pos[1][0] + system.box[0]) + system.vel[1][0]]
        src = os.path.join(work, "co.txt")
        with open(src, "w") as fh:
            fh.write("3.0 -2.0\n")
        # the plug-in engine's _read_configuration: file frame = (d=3, box=1024 → id 7 below, v=-2)
        lines, code = [], []
        for hasfn in (1, 0):
            for vr in (False, True):
                for x in (None, 5):
                    for v in (None, 4, 0):
                        for b in (None, 6):
                            system = System()
                            system.config = (src, 0)
                            system.vel_rev = vr
                            eng.order_function = Probe() if hasfn else None
                            kw = {}
                            if x is not None:
                                kw["xyz"] = np.array([[0.0, 0, 0], [float(x), 0, 0]])
                            if v is not None:
                                kw["vel"] = np.array([[0.0, 0, 0], [float(v), 0, 0]])
                            if b is not None:
                                kw["box"] = np.array([float(b)] * 3)
                            try:
                                r = eng.calculate_order(system, **kw)
                                # box id: 1024 (file) ↔ 7, 6 ↔ 6
                                val = r[0]
                                cd = str(int(val - 1000.0 * 1024 + 1000 * 7)) if abs(val) > 500000 else str(int(val))
                            except Exception as e:  # noqa: BLE001
                                cd = err_kind(e)
                            ctx.count(1, engine="calculate_order")
                            tab = [(5, 6, 56), (5, 7, 57), (3, 6, 36), (3, 7, 37)]
                            lines.append(f"calcorder {hasfn} {int(vr)} {'-' if x is None else x} {'-' if v is None else v} "
                                         f"{'-' if b is None else b} 3 7 -2 {tri(tab)}")
                            code.append(cd)
                            if hasfn:
                                # direct predicate: the order function sees (-1)^vel_rev times the velocity of the frame used
                                full = x is not None and v is not None and b is not None
                                vv = (v if full else -2) * (-1 if vr else 1)
                                xx, bb = (x, b) if full else (3, 7)
                                if cd != str(1000 * (10 * xx + bb) + vv):
                                    ctx.fail("C12:calculate-order:wrong-frame-or-direction",
                                             f"given xyz={x} vel={v} box={b} vel_rev={vr}: order function saw {cd}",
                                             {"fn": "calculate_order", "x": x, "v": v, "b": b, "vel_rev": vr})
        eng.order_function = None
        if have_model:
            for ln, a, cd in zip(lines, ctx.driver(lines), code):
                if a != cd:
                    ctx.disagree({"fn": "calculate_order", "line": ln}, cd, a)
        # ---- snapshot_to_system
        lines, code = [], []
        for present in itertools.product((0, 1), repeat=7):
            for vr in (False, True):
                system = System()
                system.order = [5.0]
                system.pos = np.zeros((2, 3))
                system.vel = np.zeros((2, 3))
                system.vpot, system.ekin = 2.0, 3.0
                system.config = ("f4", 6)
                system.vel_rev = vr
                sn = {}
                keys = ("order", "pos", "vel", "vpot", "ekin", "config", "vel_rev")
                vals = ([8.0], np.ones((2, 3)), np.ones((2, 3)), 11.0, 12.0, ("f9", None), not vr)
                for q, kk, vv in zip(present, keys, vals):
                    if q:
                        sn[kk] = vv
                before = (system.order, system.vpot, system.ekin, system.config, system.vel_rev)
                r = eng.snapshot_to_system(system, sn)
                ctx.count(1, engine="snapshot_to_system")
                if (system.order, system.vpot, system.ekin, system.config, system.vel_rev) != before or r is system:
                    ctx.fail("C12:snapshot-to-system:input-modified", "the system handed in was changed / returned", {"present": present})

                def oi(z):
                    return "-" if z is None else str(int(z[0] if isinstance(z, list) else z))
                code.append(f"{oi(r.order)} {int(r.pos is not None)} {int(r.vel is not None)} {oi(r.vpot)} {oi(r.ekin)} "
                            f"{r.config[0][1:]} {'-' if r.config[1] is None else r.config[1]} {int(r.vel_rev)}")
                lines.append(f"snap 5 1 1 2 3 4 6 {int(vr)} {'8' if present[0] else '-'} {present[1]} {present[2]} "
                             f"{'11' if present[3] else '-'} {'12' if present[4] else '-'} {present[5]} 9 - "
                             f"{int(not vr) if present[6] else '-'}")
        if have_model:
            for ln, a, cd in zip(lines, ctx.driver(lines), code):
                if a != cd:
                    ctx.disagree({"fn": "snapshot_to_system", "line": ln}, cd, a)
    finally:
        shutil.rmtree(work, ignore_errors=True)


def _infra(case, obs):
    """an infrastructure problem (fake-program handshake hang, temp dir, …) is never a verdict: exit 2"""
    print(f"[C12] INFRASTRUCTURE ERROR (exit 2, not a violation) on case {case}: {obs['harness_error']}", flush=True)
    _cleanup_root()
    sys.exit(2)


def _map_cases(ctx, cases):
    """run the real code on every case, in forked worker processes (each case is self-contained and
    synchronised by handshakes, so parallelism cannot change an outcome)"""
    import multiprocessing as mp
    nproc = max(1, min(8, (os.cpu_count() or 2) - 1))
    _top()
    if nproc == 1 or len(cases) < 8:
        return [run_any(c) for c in cases]
    # audit pass: the code-coverage side channel (VERIF_COV=1 / thorough tier) measures the MAIN process only; without a
    # share of the external-engine cases run here, the LAMMPS/CP2K/GROMACS loops show up as never entered
    cov_on = os.environ.get("VERIF_COV", "1" if ctx.tier == "thorough" else "0") == "1"
    head_by = {}
    if cov_on:
        step = max(1, len(cases) // 80)
        head_by = {i: run_any(cases[i]) for i in list(range(0, len(cases), step))[:80]}     # spread over all case classes
    rest_idx = [i for i in range(len(cases)) if i not in head_by]
    with mp.get_context("fork").Pool(nproc) as pool:
        rest = pool.map(run_any, [cases[i] for i in rest_idx], chunksize=4)
    out = [None] * len(cases)
    for i, o in head_by.items():
        out[i] = o
    for i, o in zip(rest_idx, rest):
        out[i] = o
    return out


def run(ctx):
    import importlib.util  # noqa: F401
    ctx.rule = ("external engines: exhaustive tick-level output/exit schedules for ≤ 2 frames, exhaustive per-sleep schedules "
                "for 3–4 frames × box pattern × crossing frame × length limit × exit code, seeded random fine schedules with "
                "orders equal to interfaces; CP2K with independently advancing pos/vel files; ASE/TurtleMD free flight "
                "(subcycles 1–3, limits around the crossing), ASE harmonic; plug-in engine over all scripts on a 5-level "
                "alphabet. Non-trivial = at least one frame recorded; distinct by (engine, frames, realised schedule, limits).")
    try:
        _run(ctx)
    finally:
        _cleanup_root()


def _run(ctx):
    have_model = ctx._driver_ok
    from props import c12_fault
    c12_fault.reset()
    # ================================================================= external engines
    cases = gen_ext_cases(ctx)
    obs_all = _map_cases(ctx, cases)
    lines, where = [], []
    for k, (case, obs) in enumerate(zip(cases, obs_all)):
        if "harness_error" in obs:
            _infra(case, obs)
        if have_model:
            for variant in (("asis", "rep") if case["engine"] == "lammps" else ("-",)):
                lines.append(ext_line(case, obs["realised"], variant))
                where.append((k, variant))
    answers = ctx.driver(lines) if (have_model and lines) else []
    cp_idx = [k for k, c in enumerate(cases) if c["engine"] == "cp2k"]
    cp_ans = dict(zip(cp_idx, ctx.driver(["cp2ktraj" + ext_line(cases[k], obs_all[k]["realised"], "-")[3:] for k in cp_idx]))) \
        if (have_model and cp_idx) else {}
    by_case = {}
    for (k, variant), a in zip(where, answers):
        by_case.setdefault(k, {})[variant] = parse_model(a)
    consistent = {"asis", "rep"}
    wrong_box_seen = 0
    for k, (case, obs) in enumerate(zip(cases, obs_all)):
        eng = case["engine"]
        ctx.count(1, engine=eng)
        ctx.hit(f"{eng}:{case['tag']}")
        ctx.hit(f"{eng}:raised={obs['raised']}")
        if obs.get("path"):
            ctx.distinct((eng, tuple(case["frames"]), tuple(map(tuple, obs["realised"])), case["maxlen"], case["rev"], case["code"]))
        nf = guarded(ctx, eng, case, check_ext_property, ctx, case, obs)
        if have_model:
            cv = code_view(obs)
            ms = by_case[k]
            agree = []
            for variant, m in ms.items():
                mv = model_view(m)
                same = (cv == mv and obs["ticks"] == m["ticks"]
                        and (obs["proc"] == "stopped") == m["dead"]
                        and (obs["returncode"] is None or not m["dead"]
                             or obs["returncode"] == (-15 if m["killed"] else case["code"])))
                if same:
                    agree.append(variant)
            if obs["raised"] == "err:index":
                # an exception that leaves the block: the handler of the exception guard (Model/EngineFault.lean, the code
                # as it is since the repair) polls once more before re-raising — the code must side with ONE guard over all cases (c12_fault.GUARD)
                if agree:
                    c12_fault.GUARD[eng] &= {"asis"}
                else:
                    g_ans = ctx.driver(["extf guarded - " + ext_line(case, obs["realised"], v if v != "-" else "rep")[4:] for v in ms])
                    for variant, a in zip(list(ms), g_ans):
                        if " | " not in a:
                            continue
                        m = parse_model(a)
                        if (cv == model_view(m) and obs["ticks"] == m["ticks"] and (obs["proc"] == "stopped") == m["dead"]
                                and (obs["returncode"] is None or not m["dead"]
                                     or obs["returncode"] == (-15 if m["killed"] else case["code"]))):
                            agree.append(variant)
                            ms[variant] = m
                    if agree:
                        c12_fault.GUARD[eng] &= {"guarded"}
            if not agree:
                ctx.disagree({"engine": eng, "case": case, "realised": obs["realised"]},
                             {**cv, "ticks": obs["ticks"], "proc": obs["proc"], "returncode": obs["returncode"]},
                             {v: {**model_view(m), "ticks": m["ticks"], "dead": m["dead"], "killed": m["killed"]} for v, m in ms.items()})
            elif eng == "lammps":
                if set(agree) != {"asis", "rep"}:
                    consistent &= set(agree)
                    if agree == ["asis"]:
                        wrong_box_seen += 1
                        if nf == 0:
                            # the model says another frame's box was used although the direct predicate did not notice
                            ctx.fail(SIG_BOX, "behaviour equals the as-is model (box_trajectory.pop()) and differs from the "
                                              "repaired one on a varying-box schedule", {"case": case, "realised": obs["realised"]})
        if k in cp_ans:
            # CP2K's own trajectory file against cp2kTrajFile of the model's path: coordinates, velocity AS STORED, and the
            # box read before the run in every frame
            frames = case["frames"]
            start = case.get("start", frames[0] if frames else (1.0, 16.0, 0.0))
            ds = sorted({f[0] for f in frames})
            Ls = sorted({f[1] for f in frames} | {start[1]})
            want = []
            for tok in cp_ans[k].split()[1:]:
                ci, bi, v = (int(x) for x in tok.split(","))
                want.append([ds[ci], Ls[bi], v / S])
            got = [[d, L if L is not None else start[1], vx] for d, L, vx in obs.get("trajfile", [])]
            if got != want:
                ctx.disagree({"engine": "cp2k", "op": "cp2ktraj", "case": case, "realised": obs["realised"]}, got, want)
        if k % 997 == 0 or case["tag"] == "witness":
            ctx.sample({"engine": eng, "tag": case["tag"], "frames": case["frames"], "realised_schedule": obs["realised"],
                        "maxlen": case["maxlen"], "code": case["code"], "result": code_view(obs)})
    if have_model and not consistent:
        ctx.disagree({"engine": "lammps", "what": "variant"}, "some cases agree only with asIs, others only with repaired",
                     "one variant consistently")
    ctx.extra["lammps_variant_consistent_with"] = sorted(consistent)
    ctx.extra["lammps_wrong_box_cases"] = wrong_box_seen
    # ================================================================= audit pass: exceptions leaving the loop body
    from props import c12_fault
    c12_fault.run_fault(ctx)
    # ================================================================= GROMACS (fake gmx)
    gcases = gen_gmx_cases(ctx)
    gobs = _map_cases(ctx, gcases)
    for case, obs in zip(gcases, gobs):
        if "harness_error" in obs:
            _infra(case, obs)
    gans = ctx.driver([gmx_line(c, o["realised"]) for c, o in zip(gcases, gobs)]) if (have_model and gcases) else []
    gans_rep = ctx.driver([gmx_line(c, o["realised"], True) for c, o in zip(gcases, gobs)]) if (have_model and gcases) else []
    gprop = [propgmx_line(c, o["realised"]) for c, o in zip(gcases, gobs)]
    gans_prop = ctx.driver([ln for ln, _, _ in gprop]) if (have_model and gcases) else []
    gmx_consistent = {"asis", "rep"}
    for k, (case, obs) in enumerate(zip(gcases, gobs)):
        ctx.count(1, engine="gromacs")
        ctx.hit(f"gromacs:{case['tag']}")
        ctx.hit(f"gromacs:raised={obs['raised']}")
        if obs.get("path"):
            ctx.distinct(("gromacs", tuple(case["frames"]), tuple(map(tuple, obs["realised"])), case["maxlen"], case["rev"],
                          case["code"], case["natoms"], case["double"]))
        guarded(ctx, "gromacs", case, check_ext_property, ctx, case, obs)
        if have_model:
            # whole propagate from the phase point (wrapper + grompp + runner + energy): Model/EnginePropagate.lean
            compare_propgmx(ctx, case, obs, gans_prop[k], gprop[k][1], gprop[k][2])
        if have_model and not (case.get("grompp_rc") or case.get("energy_rc")):
            cv = code_view(obs)
            agree = []
            views = {}
            for variant, ans in (("asis", gans[k]), ("rep", gans_rep[k])):
                m = parse_model(ans)
                mv = model_view(m)
                views[variant] = {**mv, "ticks": m["ticks"], "dead": m["dead"], "killed": m["killed"]}
                if (cv == mv and obs["ticks"] == m["ticks"] and (obs["proc"] == "stopped") == m["dead"]
                        and (obs["returncode"] is None or not m["dead"]
                             or obs["returncode"] == (-15 if m["killed"] else case["code"]))):
                    agree.append(variant)
            if not agree:
                ctx.disagree({"engine": "gromacs", "case": case, "realised": obs["realised"]},
                             {**cv, "ticks": obs["ticks"], "proc": obs["proc"], "returncode": obs["returncode"]}, views)
            elif len(agree) == 1:
                gmx_consistent &= set(agree)
        if k % 211 == 0:
            ctx.sample({"engine": "gromacs", "case": {q: case[q] for q in ("frames", "rev", "code", "maxlen", "natoms", "double")},
                        "realised_schedule": obs["realised"], "result": code_view(obs)})
    if have_model and not gmx_consistent:
        ctx.disagree({"engine": "gromacs", "what": "velocity variant"},
                     "some backward cases agree only with the as-found model, others only with the repaired one", "one variant")
    ctx.extra["gromacs_velocity_variant_consistent_with"] = sorted(gmx_consistent)
    # ================================================================= in-process engines
    icases = gen_inproc_cases(ctx)
    iobs = [run_any(c) for c in icases]
    ilines, iwhere = [], []
    for k, (case, obs) in enumerate(zip(icases, iobs)):
        if "harness_error" in obs:
            _infra(case, obs)
        if have_model and case["tag"] != "harmonic":
            ilines.append(inproc_line(case))
            iwhere.append(k)
    ians = dict(zip(iwhere, ctx.driver(ilines))) if (have_model and ilines) else {}
    ipans = dict(zip(iwhere, ctx.driver([propinproc_line(icases[k]) for k in iwhere]))) if (have_model and ilines) else {}
    for k, (case, obs) in enumerate(zip(icases, iobs)):
        eng = case["engine"]
        ctx.count(1, engine=eng)
        ctx.hit(f"{eng}:{case['tag']}")
        rep = {"case": case, "observed": obs}
        exact = case["tag"] != "harmonic"
        guarded(ctx, eng, case, check_inproc_property, ctx, case, obs)
        if obs.get("path"):
            ctx.distinct((eng, case["sub"], case["v0"], case["rev"], case["vel_rev0"], case["maxlen"], case["tag"]))
        if k in ians:
            m = parse_model(ians[k])
            ents = [(e["idx"], scs(e["order"][0], S2), scs(e["order"][1], S2)) for e in obs["path"]]
            cv = {"raised": obs["raised"], "ents": ents, "success": obs.get("success"), "status": obs.get("status")}
            mv = {"raised": m["raised"], "ents": [(i, o, v) for (i, _c, _b, v, o) in m["ents"]], "success": m["success"],
                  "status": m["status"]}
            if cv != mv:
                ctx.disagree({"engine": eng, "case": case}, cv, mv)
            # the composed model: propagate wrapper + loop, from the phase point
            ctx.hit("propinproc")
            pa = ipans[k]
            if " | " not in pa:
                ctx.disagree({"engine": eng, "op": "propinproc", "case": case}, cv, pa)
            else:
                su_txt, res_txt = pa.split(" | ", 1)
                su = parse_setup(su_txt)
                pm = parse_model(res_txt)

                def fname(b):
                    if b.startswith("start."):
                        return "u1"
                    return ("rconf" if b.startswith("r_") else "conf") if "_conf." in b else b
                ccalls = []
                for c in obs.get("calls", []):
                    if c[0] == "_extract_frame":
                        ccalls.append(("extract", fname(c[1]), c[2], fname(c[3])))
                    elif c[0] == "_copyfile":
                        ccalls.append(("copy", fname(c[1]), fname(c[2])))
                    else:
                        ccalls.append(("reverse", fname(c[1]), fname(c[2])))
                sa = obs.get("sys_after", [None, None, None])
                # after propagate the system still points at (initial_conf, 0) with vel_rev = reverse
                cv2 = {**cv, "calls": ccalls, "sys": [fname(sa[0] or ""), sa[1], sa[2]], "file": obs["path"][0]["file"].split("_traj")[1][0] if obs["path"] else None}
                mv2 = {"raised": pm["raised"], "ents": [(i, o, v) for (i, _c, _b, v, o) in pm["ents"]], "success": pm["success"],
                       "status": pm["status"], "calls": su["calls"], "sys": [su["sys_file"], su["sys_idx"], su["sys_vel_rev"]],
                       "file": ("B" if su["backward"] else "F") if obs["path"] else None}
                if cv2 != mv2:
                    ctx.disagree({"engine": eng, "op": "propinproc", "case": case}, cv2, mv2)
            # the k-th frame is the state after k·subcycles steps: file must hold exactly the recorded frames
            if obs.get("nframes_file") != len(obs["path"]):
                ctx.fail(f"C12:{eng}:file-and-path-differ", f"{obs.get('nframes_file')} frames in the file, {len(obs['path'])} in the path", rep)
        if "back" in obs:
            ctx.hit(f"{eng}:retrace")
        if k % 37 == 0:
            ctx.sample({"engine": eng, "case": case, "path": obs.get("path"), "success": obs.get("success")})
    # ================================================================= sequences of propagations on one engine object
    scases = gen_seq_cases(ctx)
    sobs = _map_cases(ctx, scases)
    for k, (case, obs) in enumerate(zip(scases, sobs)):
        if "harness_error" in obs:
            _infra(case, obs)
        ctx.count(len(obs["steps"]), engine=case["engine"])
        ctx.distinct((case["engine"], case["sub"], json.dumps(case["steps"], sort_keys=True)))
        guarded(ctx, case["engine"], case, check_seq_property, ctx, case, obs)
        if k % 7 == 0:
            ctx.sample({"engine": case["engine"], "sub": case["sub"], "steps": case["steps"],
                        "first_path": obs["steps"][0]["long"]["order"][:4]})
    # ================================================================= plug-in engine and add_to_path
    pcases = gen_plugin_cases(ctx)
    pobs = [run_any(c) for c in pcases]
    pans = ctx.driver([plugin_line(c) for c in pcases]) if have_model else []
    psetup = ctx.driver([f"propsetup {int(bool(c['rev']))} "
                         + pt_tokens("conf" if c.get("same_file") else "u0",
                                     None if (c.get("cfg_none") or c.get("same_file")) else c.get("start_idx", 0),
                                     c.get("vel_rev0", False)) for c in pcases]) if have_model else []
    for k, (case, obs) in enumerate(zip(pcases, pobs)):
        if "harness_error" in obs:
            _infra(case, obs)
        ctx.count(1, engine="plugin")
        rep = {"case": case, "observed": obs}
        guarded(ctx, "plugin", case, check_path_rules, ctx, "plugin", case, obs, rep)
        guarded(ctx, "plugin", case, check_stop_rule, ctx, "plugin", case, obs, rep,
                ([case["d0"]] + list(case["script"]))[::case["sub"]], False)
        ords = [scs(e["order"][0]) for e in obs.get("path", [])]
        if ords:
            ctx.distinct(("plugin", case["d0"], tuple(case["script"]), case["sub"], case["maxlen"]))
        # EngineBase.propagate: start frame extracted from (file, idx), reversed iff reverse != vel_rev, vel_rev set
        calls = obs.get("calls", [])
        want_rev = bool(case["rev"]) != bool(case.get("vel_rev0", False))
        start = [c for c in calls if c[0] == "start"]
        idx_case = not (case.get("cfg_none") or case.get("same_file"))
        okp = (len(start) == 1 and (not idx_case or calls[0][:3] == ["extract", "source.txt", case.get("start_idx", 0)])
               and (any(c[0] == "reverse" for c in calls) == want_rev)
               and start[0][1] == case["d0"] and start[0][2] == (-case["v0"] if want_rev else case["v0"])
               and start[0][3] == bool(case["rev"]) and start[0][5] == 0 and obs["sys_vel_rev"] == bool(case["rev"]))
        if not okp:
            ctx.fail("C12:propagate:start-config-wrong", f"calls {calls}", rep)
        sign = -1.0 if case["rev"] else 1.0
        veff = -case["v0"] if want_rev else case["v0"]
        if any(e["order"][1] != sign * veff for e in obs.get("path", [])):
            ctx.fail("C12:plugin:velocity-direction", f"{[e['order'] for e in obs['path']]} vs file velocity {veff}", rep)
        if have_model:
            # EngineBase.propagate against propagateSetup: the file operations, in order, and the system handed on
            ctx.hit(f"propsetup:{case['tag']}")
            su = parse_setup(psetup[k])

            def fname(b):
                if b == obs.get("src_name") and not case.get("same_file"):
                    return "u0"
                if b.endswith("_conf.txt"):
                    return "rconf" if b.startswith("r_") else "conf"
                return b
            ccalls = []
            for c in calls:
                if c[0] == "extract":
                    ccalls.append(("extract", fname(c[1]), c[2], "conf"))
                elif c[0] == "copy":
                    ccalls.append(("copy", fname(c[1]), fname(c[2])))
                elif c[0] == "reverse":
                    ccalls.append(("reverse", fname(c[1]), "rconf"))
            cview = {"calls": ccalls, "initial": fname(start[0][4]) if start else None, "sys_file": fname(obs.get("sys_cfg_file", "")),
                     "sys_idx": obs.get("sys_cfg_idx"), "sys_vel_rev": obs.get("sys_vel_rev")}
            mview = {q: su[q] for q in cview}
            if cview != mview:
                ctx.disagree({"engine": "plugin", "op": "propsetup", "case": case}, cview, mview)
            a = pans[k]
            if a.startswith("err"):
                mv = (a,)
            else:
                head, tail = a.split(" | ")
                mv = (head.split()[0] == "1", [int(x) for x in tail.split()[1:]])
            cvv = (obs["raised"],) if obs["raised"] != "ok" else (obs["success"], ords)
            stream_len = len(([case["d0"]] + list(case["script"]))[::case["sub"]])
            # feed reports success=false when the stream ends without stop; so does the engine loop
            if cvv != mv:
                ctx.disagree({"engine": "plugin", "case": case, "stream_len": stream_len}, cvv, mv)
    # direct add_to_path against addToPath on every (path, maxlen, new value)
    from infretis.classes.engines.enginebase import EngineBase
    from infretis.classes.path import Path
    from infretis.classes.system import System
    alines, acode = [], []
    lv = [sc(x) for x in LEVELS]
    for n in range(0, 4):
        for ops in itertools.product(LEVELS, repeat=n):
            for ml in (None, 0, 1, 2, 3, 4):
                for x in LEVELS:
                    p = Path(maxlen=ml)
                    for o in ops:
                        s_ = System()
                        s_.order = [o]
                        p.phasepoints.append(s_)
                    s_ = System()
                    s_.order = [x]
                    try:
                        st, su, sp, ad = EngineBase.add_to_path(p, s_, 0.5, 8.0)
                        acode.append(f"{_status(st)} {int(su)} {int(sp)} {int(ad)} | "
                                     + " ".join([str(p.length)] + [str(sc(q.order[0])) for q in p.phasepoints]))
                    except Exception as e:  # noqa: BLE001
                        acode.append(err_kind(e))
                    alines.append(f"add {'-' if ml is None else ml} {sc(0.5)} {sc(8.0)} {sc(x)} "
                                  + " ".join([str(n)] + [str(sc(o)) for o in ops]))
    if have_model:
        for line, a, cd in zip(alines, ctx.driver(alines), acode):
            ctx.count(1, engine="add_to_path")
            if a != cd:
                ctx.disagree({"fn": "add_to_path", "line": line}, cd, a)
    else:
        ctx.count(len(alines), engine="add_to_path")
    _ = lv
    run_base_ops(ctx, have_model)
    ctx.exhaustive = False
    ctx.assumptions += [
        "order values, interfaces and velocities are dyadic (multiples of 1/4 or 1/8): float comparisons are exact",
        "the MD programs are stand-ins that write what the schedule says; frame 0 of their output is the start point",
        "output/exit events of the external program happen at the engine's sleep()/poll() calls (every observable "
        "interleaving of one poll/one read is reachable this way); torn frames are C13's subject — here only the class "
        "'torn-flush' (LAMMPS, CP2K): a flush ending in the middle of a line after ≥ 1 complete frame, model fed complete frames",
        "'the external program' is the whole process group/session the engine creates (launcher + MD executable): checked "
        "with a launcher-mode fake gmx (bounded wait of 2 s for the group to vanish); LAMMPS/CP2K fakes are single processes",
        "in-process engines: the path is a function of the input phase point — checked by running sequences of propagations "
        "on one engine object against a fresh engine object per call (bitwise equal orders, ekin, vpot)",
        "CP2K: the box is constant (the engine reads no box from CP2K output; documented NVT-only limitation)",
        "GROMACS: tied through fake gmx (grompp/energy stubs, mdrun streaming TRR, both precisions) at whole-frame "
        "granularity; torn TRR frames are C13's subject; the .edr content is a stub (energies are not checked)",
        "TurtleMDEngine is run with a seed-tolerant velocity-Verlet integrator class (the engine passes seed= to every integrator)",
        "extension pass: the composed models (propagateInproc / propagateGmx, Model/EnginePropagate.lean) are fed the PHASE POINT "
        "(start file, index or None, vel_rev) and `reverse`; the driver's dynamics for ASE/TurtleMD is exact free flight "
        "(`flightStep`: cid += vel/2 on the 1/8 grid); the file operations of the wrapper are observed by wrapping "
        "_extract_frame/_copyfile/_reverse_velocities on the real engine objects",
        "gmx grompp / gmx energy failures are imposed on the fake tools through fake_rc.json (exit codes and deaths by signal); "
        "execute_command is run on /bin/sh (cwd given; the cwd=None branch is not exercised)",
        "LAMMPS/CP2K composed propagate (propagateExt) is a theorem-level composition only: the tie compares the loop (extRun) "
        "and, separately, the start configuration the fake program was given (start_seen); CP2K's own trajectory file is "
        "compared with cp2kTrajFile frame by frame",
    ]


def replay(ctx, obj):
    """re-run one recorded failing input on the current implementation; 1 = still fails"""
    r = obj.get("replay", {})
    case = r.get("case")
    if not case:
        print(json.dumps(obj, indent=1, default=str)[:3000])
        return 1
    case = dict(case)
    if "frames" in case:
        case["frames"] = [tuple(f) for f in case["frames"]]
    for key in ("sched", "coarse"):
        if case.get(key) is not None:
            case[key] = [tuple(w) for w in case[key]]
    if case.get("start") is not None:
        case["start"] = tuple(case["start"])
    try:
        obs = run_any(case)
        n0 = len(ctx.fails)
        rep = {"case": case, "observed": obs}
        if case.get("fault"):
            from props import c12_fault
            case["fault"] = dict(case["fault"])
            c12_fault.check_fault_property(ctx, case, obs)
            pend = ctx.extra.get("pending_findings")
            if pend:
                print(json.dumps({"pending (open finding, not a violation)": sorted(pend)}))
        elif case["engine"] in ("lammps", "cp2k", "gromacs"):
            check_ext_property(ctx, case, obs)
        elif case["engine"] in ("turtle", "ase"):
            check_inproc_property(ctx, case, obs)
        elif case["engine"] in ("turtle-seq", "ase-seq"):
            if "harness_error" in obs:
                print(obs["harness_error"])
                return 2
            check_seq_property(ctx, case, obs)
        else:
            check_path_rules(ctx, case["engine"], case, obs, rep)
        bad = ctx.fails[n0:]
        known = ctx.known_hits
        print(json.dumps({"observed": obs, "failures": [(f["signature"], f["what"]) for f in bad], "known": known},
                         indent=1, default=str)[:6000])
        return 1 if (bad or known) else 0
    finally:
        _cleanup_root()
