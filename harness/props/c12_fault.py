"""C12, audit pass — exceptions that leave the polling loop's body of LAMMPS / CP2K (Model/EngineFault.lean).

The REAL `LAMMPSEngine` / `CP2KEngine` run against the fake programs exactly as in c12.py; in addition an exception is
raised inside the engine's own loop body, at a frame that depends on the case:

  kind 'order'      `order_function.calculate` raises ValueError("math domain error") on the frame with step_nr = at
                    (the call on the start configuration BEFORE Popen succeeds) — a user supplied order parameter,
  kind 'write'      CP2K only: `write_xyz_trajectory(traj_file, …)` of the loop raises OSError(ENOSPC) on that frame,
  kind 'interrupt'  KeyboardInterrupt delivered in the `at`-th `sleep()` of the call (Ctrl-C / SIGINT of the worker; the
                    MD program sits in its own session and does not get the signal).  Not in the Lean model: judged by
                    the predicates only.

Compared with `extRunF` (driver op `extf`) for BOTH guards (`guarded` = the code as it is, `asis` = record of the code as
found), consistently over all cases per engine, and judged by the property itself:

  C12:<eng>:program-left-running-after-exception   the external program is still running after propagate ended by the
                                                   exception   (the finding repaired in /repo; corpus/C12/*-body-exception-*)
  C12:<eng>:exception-swallowed                    the body's exception did not leave propagate although the frame was
                                                   reached: a (silently truncated) path came back
  C12:<eng>:path-differs-before-exception          the frames recorded before the exception are not the first `at`
                                                   frames the program wrote
"""
from __future__ import annotations

import contextlib
import os

# No switch: the tie compares the real engines with BOTH guards of Model/EngineFault.lean and accepts them only if they side
# with one guard over all cases.  `guarded` everywhere (the code as it is since the repair in /repo) → silent; `asIs`
# (the record of the code as found) → the program is left running → ctx.fail with the signature below; whether that prints
# VIOLATION or KNOWN-FINDING is decided by known_findings.json alone.  PENDING_FINDINGS stays for future open findings of
# this module (a listed signature is written to the evidence instead of being failed); it is EMPTY.
PENDING_FINDINGS: list = []


# which handler the engines' polling loops have, as far as the cases seen so far tell (per engine: one may be repaired
# before the other); narrowed by c12._run (IndexError cases of the ordinary classes) and by run_fault
GUARD = {"lammps": {"asis", "guarded"}, "cp2k": {"asis", "guarded"}}


def reset():
    for k in GUARD:
        GUARD[k] = {"asis", "guarded"}


def judge(ctx, sig, what, rep):
    if sig in PENDING_FINDINGS and ctx._known(sig) is None:
        pend = ctx.extra.setdefault("pending_findings", {})
        ent = pend.setdefault(sig, {"what": what, "occurrences": 0, "witness": rep})
        ent["occurrences"] += 1
        return
    ctx.fail(sig, what, rep)


@contextlib.contextmanager
def inject(case, eng, mod, ctl_obj):
    """install the fault of `case` into the real engine objects for ONE propagate call (c12._run_ext_in)"""
    f = case.get("fault")
    if not f:
        yield
        return
    kind, at = f["kind"], int(f["at"])
    undo = []
    n = {"c": 0}
    if kind == "order":
        of = eng.order_function
        orig = of.calculate

        def calc(system):
            n["c"] += 1
            if n["c"] == at + 2:            # call 1 = the start configuration, before the program is started
                e = ValueError("math domain error")
                e._c12_fault = True
                raise e
            return orig(system)
        of.calculate = calc
        undo.append(lambda: delattr(of, "calculate"))
    elif kind == "write":
        orig_w = mod.write_xyz_trajectory

        def w(fn, *a, **k):
            if "_traj" in os.path.basename(fn):
                n["c"] += 1
                if n["c"] == at + 1:
                    e = OSError(28, "No space left on device")
                    e._c12_fault = True
                    raise e
            return orig_w(fn, *a, **k)
        mod.write_xyz_trajectory = w
        undo.append(lambda: setattr(mod, "write_xyz_trajectory", orig_w))
    elif kind == "interrupt":
        orig_s = mod.sleep

        def sl(sec):
            orig_s(sec)
            n["c"] += 1
            if n["c"] == at + 1:
                raise KeyboardInterrupt
        mod.sleep = sl
        undo.append(lambda: setattr(mod, "sleep", orig_s))
    try:
        yield
    finally:
        for u in undo:
            u()


def classify(e):
    """err kind of an exception caught around propagate, when a fault was installed"""
    if getattr(e, "_c12_fault", False):
        return "err:body"
    if isinstance(e, KeyboardInterrupt):
        return "err:interrupt"
    return None


# ----------------------------------------------------------------------------- cases
def gen_fault_cases(ctx):
    from props import c12
    rng = ctx.rng
    quick = ctx.quick
    cases = []

    def frames_for(eng, n, cross):
        return [(9.0 if k == cross else 1.0 + 0.25 * k, 30.0 if eng == "cp2k" else (30.0, 32.0, 64.0)[k % 3], float(k % 3 - 1))
                for k in range(n)]
    # A. the witness of Props/C12 body_exception_leaves_program_running_counterexample: six frames, two per poll, program alive
    for eng in ("lammps", "cp2k"):
        fr = frames_for(eng, 6, 5)
        cases.append(dict(engine=eng, frames=fr, coarse=[(1, 2 * (t + 1), 2 * (t + 1), 1) for t in range(8)], code=0, maxlen=20,
                          left=0.5, right=8.0, rev=0, sub=1, fault={"kind": "order", "at": 2}, tag="fault-witness"))
    # B. systematic: fault position × arrival shape × the program's end (alive / exited 0 before the frame is read / killed
    #    from outside / non-zero exit) × crossing before, at, after the fault × limit before / after the fault
    for eng in ("lammps", "cp2k"):
        kinds = ("order", "write") if eng == "cp2k" else ("order",)
        for kind in kinds:
            for n in (3, 4):
                for at in range(0, n + 1):
                    for shape in ("burst", "drip", "pairs"):
                        arr = [0] * n if shape == "burst" else (list(range(n)) if shape == "drip" else [2 * (k // 2) for k in range(n)])
                        for end in ("alive", "exit0-early", "exit0-late", "signal", "exit3"):
                            if quick and rng.random() < 0.55:
                                continue
                            cross = rng.choice((None, at - 1, at, at + 1, n - 1))
                            fr = frames_for(eng, n, cross)
                            ml = rng.choice((20, 20, at, at + 1, at + 2, n))
                            ml = max(1, ml)
                            x = {"alive": arr[-1] + 12, "exit0-early": 0, "exit0-late": arr[-1] + 1, "signal": rng.randint(0, arr[-1] + 2),
                                 "exit3": rng.randint(0, arr[-1] + 2)}[end]
                            code = {"alive": 0, "exit0-early": 0, "exit0-late": 0, "signal": rng.choice((-9, -11, -15)), "exit3": 3}[end]
                            if end == "exit0-early":
                                arr_ = [0] * n
                            else:
                                arr_ = arr
                            cases.append(dict(engine=eng, frames=fr, coarse=c12.sched_from_times(0, arr_, x, arr_), code=code, maxlen=ml,
                                              left=0.5, right=8.0, rev=rng.choice((0, 1)), vel_rev0=rng.choice((False, True)),
                                              sub=rng.choice((1, 2)), fault={"kind": kind, "at": at}, tag=f"fault-{kind}"))
    # C. random tick-level schedules
    for _ in range(60 if quick else 1500):
        eng = rng.choice(("lammps", "cp2k"))
        n = rng.randint(1, 5)
        fr = [(rng.choice((0.25, 1.0, 2.0, 7.75, 8.0, 9.0)), 30.0 if eng == "cp2k" else rng.choice((16.0, 32.0, 64.0)), float(rng.randint(-3, 3)))
              for _ in range(n)]
        t = sorted(rng.randint(0, 3 * n + 6) for _ in range(n + 2))
        vt = sorted(rng.randint(t[0], 3 * n + 6) for _ in range(n)) if eng == "cp2k" else t[1:-1]
        x = max(t[-1], max(vt) if vt else 0) + rng.randint(0, 2)
        cases.append(dict(engine=eng, frames=fr, sched=c12.sched_from_times(t[0], t[1:-1], x, vt), code=rng.choice((0, 0, 0, 2, -9)),
                          maxlen=rng.choice((20, n, n + 1, rng.randint(1, n + 1))), left=0.5, right=8.0, rev=rng.choice((0, 1)),
                          vel_rev0=rng.choice((False, True)), sub=rng.choice((1, 2, 3)),
                          fault={"kind": rng.choice(("order", "write") if eng == "cp2k" else ("order",)), "at": rng.randint(0, n)},
                          tag="fault-random"))
    # D. KeyboardInterrupt in the j-th sleep (wait-for-file loop or polling loop), program alive / already gone
    for eng in ("lammps", "cp2k"):
        for j in range(0, 6):
            for c0 in (0, 2):
                for x in (1, 30):
                    fr = frames_for(eng, 4, None)
                    arr = [c0 + k for k in range(4)] if x > 1 else [0] * 4      # a program that exits early has written everything
                    cases.append(dict(engine=eng, frames=fr, coarse=c12.sched_from_times(min(c0, x), arr, x, arr),
                                      code=0, maxlen=20, left=0.5, right=8.0, rev=j % 2, vel_rev0=False, sub=1,
                                      fault={"kind": "interrupt", "at": j}, tag="fault-interrupt"))
    return cases


def fault_line(case, realised, guard):
    from props import c12
    base = c12.ext_line(case, realised, "rep")
    assert base.startswith("ext ")
    return f"extf {guard} {case['fault']['at']} " + base[4:]


def stop_index(case):
    """index of the frame on which add_to_path says stop when nothing raises (None: the frames run out first)"""
    from props import c12
    frames = case["frames"]
    L0 = case.get("start", frames[0] if frames else (1.0, 16.0, 0.0))[1]
    for k, (d, L, vx) in enumerate(frames):
        o = c12.pbc(d, L0 if case["engine"] == "cp2k" else L)
        if c12.outside(o, case["left"], case["right"]) or k + 1 >= case["maxlen"]:
            return k
    return None


def check_fault_property(ctx, case, obs):
    """the property on a run in which the loop body (or sleep) raised; returns number of failures reported"""
    from props import c12
    eng = case["engine"]
    f = case["fault"]
    n0 = len(ctx.fails)
    rep = {"case": case, "observed": {k: obs.get(k) for k in ("raised", "exc", "success", "status", "proc", "path", "returncode", "realised")}}
    raised = obs.get("raised")
    if raised not in ("err:body", "err:interrupt"):
        # the exception did not fire / did not come out: an ordinary run — unless the frame was certainly reached
        if f["kind"] in ("order", "write") and case["code"] == 0 and raised == "ok":
            si = stop_index(case)
            reached = f["at"] < len(case["frames"]) and (si is None or f["at"] <= si)
            if reached:
                ctx.fail(f"C12:{eng}:exception-swallowed",
                         f"the loop body raised on frame {f['at']} ({f['kind']}), propagate returned normally with {len(obs.get('path', []))} frames",
                         rep)
                return len(ctx.fails) - n0
        c12.check_ext_property(ctx, case, obs)
        return len(ctx.fails) - n0
    # the exception left propagate: the frames recorded so far are the first ones written, in order, own box/velocity
    frames = case["frames"]
    path = obs.get("path", [])
    L0 = case.get("start", frames[0] if frames else (1.0, 16.0, 0.0))[1]
    sign = -1.0 if case["rev"] else 1.0
    bad = None
    if raised == "err:body" and len(path) != f["at"]:
        bad = f"{len(path)} frames in the path, the exception was raised on frame {f['at']}"
    for k, e in enumerate(path):
        if bad:
            break
        if k >= len(frames) or e["idx"] != k or e["vel_rev"] != bool(case["rev"]):
            bad = f"path frame {k} refers to index {e['idx']} vel_rev={e['vel_rev']}"
            break
        d, L, vx = frames[k]
        own = c12.pbc(d, L0 if eng == "cp2k" else L)
        if e["order"][0] != own or e["order"][1] != sign * vx:
            bad = f"frame {k}: stored {e['order']}, the program wrote d={d} L={L} vx={vx}"
    if bad:
        ctx.fail(f"C12:{eng}:path-differs-before-exception", bad, rep)
    if obs.get("proc") == "orphan":
        judge(ctx, f"C12:{eng}:program-left-running-after-exception",
              f"{obs.get('exc')} left propagate ({f['kind']} at {f['at']}); the external program was still running afterwards", rep)
    return len(ctx.fails) - n0


def run_fault(ctx):
    from props import c12
    have_model = ctx._driver_ok
    cases = gen_fault_cases(ctx)
    obs_all = c12._map_cases(ctx, cases)
    for case, obs in zip(cases, obs_all):
        if "harness_error" in obs:
            c12._infra(case, obs)
    modelled = [k for k, c in enumerate(cases) if c["fault"]["kind"] != "interrupt"]
    ans = {}
    if have_model and modelled:
        for guard in ("asis", "guarded"):
            out = ctx.driver([fault_line(cases[k], obs_all[k]["realised"], guard) for k in modelled])
            for k, a in zip(modelled, out):
                ans.setdefault(k, {})[guard] = a
    consistent = GUARD
    fired = 0
    for k, (case, obs) in enumerate(zip(cases, obs_all)):
        eng = case["engine"]
        ctx.count(1, engine=eng)
        ctx.hit(f"{eng}:{case['tag']}")
        ctx.hit(f"{eng}:fault-raised={obs['raised']}")
        if obs["raised"] in ("err:body", "err:interrupt"):
            fired += 1
            ctx.distinct((eng, "fault", case["fault"]["kind"], case["fault"]["at"], tuple(case["frames"]),
                          tuple(map(tuple, obs["realised"])), case["maxlen"], case["code"]))
        c12.guarded(ctx, eng, case, check_fault_property, ctx, case, obs)
        if k in ans:
            cv = c12.code_view(obs)
            agree = []
            views = {}
            for guard, a in ans[k].items():
                if " | " not in a:
                    views[guard] = a
                    continue
                m = c12.parse_model(a)
                mv = c12.model_view(m)
                views[guard] = {**mv, "ticks": m["ticks"], "dead": m["dead"], "killed": m["killed"]}
                if (cv == mv and obs["ticks"] == m["ticks"] and (obs["proc"] == "stopped") == m["dead"]
                        and (obs["returncode"] is None or not m["dead"]
                             or obs["returncode"] == (-15 if m["killed"] else case["code"]))):
                    agree.append(guard)
            if not agree:
                ctx.disagree({"engine": eng, "op": "extf", "case": case, "realised": obs["realised"]},
                             {**cv, "ticks": obs["ticks"], "proc": obs["proc"], "returncode": obs["returncode"]}, views)
            elif len(agree) == 1:
                consistent[eng] &= set(agree)
        if case["tag"] == "fault-witness":
            ctx.sample({"engine": eng, "tag": case["tag"], "fault": case["fault"], "frames": case["frames"],
                        "realised_schedule": obs["realised"], "result": {**c12.code_view(obs), "proc": obs["proc"]}})
    for eng_, cons in consistent.items():
        if have_model and not cons:
            ctx.disagree({"engine": eng_, "what": "exception guard"},
                         "some cases agree only with the unguarded loop model, others only with the guarded one", "one guard consistently")
    ctx.extra["exception_guard_consistent_with"] = {e: sorted(v) for e, v in consistent.items()}
    ctx.extra["fault_cases"] = {"run": len(cases), "exception_left_propagate": fired}
    ctx.assumptions += [
        "audit pass: exceptions of the LAMMPS/CP2K loop body are imposed on the REAL engines (order function raising on the frame "
        "with step_nr = k, CP2K's write_xyz_trajectory failing with ENOSPC, KeyboardInterrupt in the j-th sleep) and compared with "
        "extRunF for both guards (the interrupt is judged by the predicates only); the engines' `exe.wait(timeout=360)` after "
        "SIGTERM is assumed to return: a program that survives SIGTERM for 360 s raises TimeoutExpired out of the loop and "
        "stays running (not exercised, not modelled)",
    ]
