"""C13 — on-the-fly trajectory readers never return a torn frame.

Tie: the real `ReadAndProcessOnTheFly` + `xyz_reader` / `lammpstrj_reader` on a real file that the
harness grows byte by byte (every single cut point and every pair of cut points of generated
trajectories), against
  * the Lean model (`Infretis.Readers.xyzReader asIs|repaired`, `lmpReader`, polled by `pollAll`),
  * the Lean spec functions `exactStages` / `lmpStages` (right-hand sides of the C13 theorems),
  * the property predicate itself, evaluated on the implementation's output:
      xyz     after every poll the frames returned so far are exactly the frames completely on disk,
              values equal, no exception;
      lammps  the same up to the documented lag: a frame may be returned when only its final newline is
              still missing, the poll that then meets this newline returns nothing; frames complete at
              poll k-1 are returned by poll k; after the final polls everything is returned;
      TRR     the real `GromacsRunner.get_gromacs_frames` size guards, driven without GROMACS: TRR
              bytes written with `struct` (both byte orders, both precisions) in chunks at every byte
              boundary; every yielded frame must equal a written frame, in order, each once, none
              raised on; every `fileh.read` must be fully served by the visible bytes; the sequence of guard
              decisions (wait / read offset length) is compared with the Lean model `trrRun` fed with the file
              sizes the real guards observed.
"""
from __future__ import annotations

import itertools
import os
import shutil
import struct
import tempfile

from common import err_kind, hexs, lst

CORPUS_IN_RUN = True   # run() replays corpus/C13/*.json itself, first (see replay_corpus)
SIG_TORN = "C13:xyz:cut-inside-last-token"
SIG_RAISE = "C13:xyz:partial-line-raises"
# open candidate findings on the UNCHANGED /repo (reported, not yet recorded in known_findings.json): a failure with one of
# these signatures is written into the evidence (extra.pending_findings) instead of being printed as a VIOLATION
PENDING_FINDINGS = []     # C13:text:carriage-return was fixed by /repo d5ef98e (known_findings.json: fixed); enforced
SIG_CR = "C13:text:carriage-return"
# C13:lammps:trailing-blank-late-newline was fixed by /repo dfb19e7 (known_findings.json: fixed)
SIG_TRAILING = "C13:lammps:trailing-blank-late-newline"


def _imports():
    from infretis.classes.engines import engineparts as ep
    return ep


# ----------------------------------------------------------------------------- generators
def gen_num(rng):
    """a float literal in one of many shapes (all accepted by float() and by the model's floatOk)"""
    k = rng.randrange(12)
    sign = rng.choice(["", "", "-", "+"]) if rng.random() < 0.5 else rng.choice(["", "-"])
    if k == 0:
        body = str(rng.randrange(0, 200))
    elif k == 1:
        body = "%.*f" % (rng.randrange(1, 9), rng.random() * 10 ** rng.randrange(0, 3))
    elif k == 2:
        body = "%.*e" % (rng.randrange(0, 7), rng.random() * 10 ** rng.randrange(-5, 6))
    elif k == 3:
        body = "%.*E" % (rng.randrange(1, 4), rng.random() * 10 ** rng.randrange(-30, 30))
    elif k == 4:
        body = "%d." % rng.randrange(0, 50)
    elif k == 5:
        body = ".%d" % rng.randrange(0, 1000)
    elif k == 6:
        body = "%de%d" % (rng.randrange(1, 9), rng.randrange(0, 12))
    elif k == 7:
        body = "%.10f" % (rng.random() * 100)
    elif k == 8:
        body = "0.0"
    elif k == 9:
        body = "%.3fe%+d" % (rng.random(), rng.randrange(-9, 10))
    elif k == 10:
        body = "6.283185"
    else:
        body = "%.16g" % (rng.random() * 1000)
    tok = sign + body
    float(tok)
    return tok


def sep(rng, style):
    return " " if style in (0, 3) else " " * rng.randrange(1, 4)


NONASCII = ["Å", "°", "µ", "é", "→", "∑", "日本", "😀", "ß", "ñ"]   # 2-, 3- and 4-byte UTF-8 characters, no whitespace


def blen(text):
    return len(text.encode("utf-8"))


def gen_xyz(rng, natoms, nframes, style):
    """style 0: compact single blanks; 1: CP2K-like (leading blanks, wide columns); 2: random blanks, blank comment;
    3: non-ASCII characters in the free-text places (comment line, atom names)"""
    text = ""
    frames = []
    bounds = [0]
    for fr in range(nframes):
        lead = "" if style == 0 else " " * rng.randrange(0, 4)
        text += f"{lead}{natoms}" + ("" if style != 2 else " " * rng.randrange(0, 2)) + "\n"
        if style == 2 and rng.random() < 0.4:
            text += "\n"
        elif style == 3:
            k = rng.randrange(1, 5)
            text += (f" a = {gen_num(rng)} {rng.choice(NONASCII)}, T = 300 {rng.choice(NONASCII)}K "
                     + "".join(rng.choice(NONASCII) for _ in range(k)) + rng.choice(["", " end", "µ"]) + "\n")
        else:
            text += f" i = {fr}, time = {fr * 0.5:.3f}, E = {gen_num(rng)}\n"
        rows = []
        for a in range(natoms):
            toks = [gen_num(rng) for _ in range(3)]
            rows.append(toks)
            name = rng.choice(["H", "O", "C", "Ar", "X1"]) if style != 3 else rng.choice(["Cα", "Å", "H", "O→", "µ1"])
            lead = "" if style == 0 else " " * rng.randrange(0, 3)
            trail = " " * rng.randrange(0, 2) if style == 2 else ""
            text += lead + name + "".join(sep(rng, style) + t for t in toks) + trail + "\n"
        frames.append(rows)
        bounds.append(blen(text))
    return text, frames, bounds


def gen_lmp(rng, natoms, nframes, style):
    text = ""
    frames = []
    bounds = [0]
    for fr in range(nframes):
        ncols = rng.choice([2, 3])
        u = (lambda: " " + rng.choice(NONASCII)) if style == 2 else (lambda: "")
        text += f"ITEM: TIMESTEP{u()}\n{fr * 10}\nITEM: NUMBER OF ATOMS{u()}\n{natoms}\n"
        text += f"ITEM: BOX BOUNDS xy xz yz pp pp pp{u()}\n" if ncols == 3 else f"ITEM: BOX BOUNDS pp pp pp{u()}\n"
        box = []
        for _ in range(3):
            toks = [gen_num(rng) for _ in range(ncols)]
            box.append(toks + ["0"] * (3 - ncols))
            text += sep(rng, style).join(toks) + "\n"
        if style == 3 and fr == 0:           # LAMMPS ends these lines with "id \n"; also tabs / several blanks
            tb = rng.choice([" ", " ", "  ", "\t", " \t "])
        elif style == 4:                     # audit pass: a different amount of white space behind the ids of every
            tb = None                        # line and frame (per-frame slack 1..4), incl. the rarer str.split() blanks
        elif style != 3:
            tb = ""
        text += f"ITEM: ATOMS id type x y z vx vy vz id{u()}{tb or ''}\n"
        ids = list(range(1, natoms + 1))
        rng.shuffle(ids)
        if fr % 3 == 1:
            ids.sort(reverse=True)          # descending ids
        elif fr % 3 == 2 and natoms < 10:
            ids.sort()
        if natoms >= 10 and ids[-1] < 10:   # a multi-digit trailing id on the last line: the sentinel matters
            j = ids.index(natoms)
            ids[j], ids[-1] = ids[-1], ids[j]
        rows = [None] * natoms
        for i in ids:
            toks = [gen_num(rng) for _ in range(6)]
            rows[i - 1] = toks
            lead = "" if style == 0 else " " * rng.randrange(0, 2)
            typ = str(rng.randrange(1, 3)) if style != 2 else rng.choice(["Cα", "Å", "1", "µ2"])
            tbl = tb if tb is not None else rng.choice(["", "", " ", "  ", "\t", " \t ", "\x0c", " \x1f", "\x0b "])
            text += lead + sep(rng, style).join([str(i), typ] + toks + [str(i)]) + tbl + "\n"
        frames.append((rows, box))
        bounds.append(blen(text))
    return text, frames, bounds


def with_cr(rng, text, bounds, mode):
    """carriage returns (since /repo d5ef98e the readers open with newline="\\n": '\\r' is an ordinary blank, only
    '\\n' ends a line).  mode "crlf": every line ends in "\\r\\n"; mode "mixed": per line "\\n" / "\\r\\n" / " \\r\\n" /
    "\\r\\r\\n", and some single blanks inside lines become a lone '\\r'.  The values stay what they are; returns
    the new text and frame bounds."""
    out = ""
    nb = [0]
    for i in range(len(bounds) - 1):
        seg = text.encode()[bounds[i]:bounds[i + 1]].decode()
        for line in seg.split("\n")[:-1]:
            if mode == "mixed":
                chars = list(line)
                for j, ch in enumerate(chars):
                    if ch == " " and 0 < j and rng.random() < 0.25:
                        chars[j] = "\r"
                line = "".join(chars)
                eol = rng.choice(["\n", "\r\n", "\r\n", " \r\n", "\r\r\n"])
            else:
                eol = "\r\n"
            out += line + eol
        nb.append(blen(out))
    return out, nb


# ----------------------------------------------------------------------------- real code runner
def _poison(res):
    """overwrite everything the reader handed out (after it was copied): a reader that keeps an alias to a returned
    array and reuses it shows up as wrong values in a later frame"""
    try:
        items = res if isinstance(res, list) else [a for part in res for a in part]
        for a in items:
            if hasattr(a, "fill") and getattr(a, "size", 0):
                a.fill(float("nan"))
    except Exception:  # noqa: BLE001
        pass


def safe_conv(conv, res):
    """canonical frames, or an error string if the reader returned something that is not a list of arrays"""
    try:
        out = conv(res)
    except Exception as e:  # noqa: BLE001
        return f"err:badresult:{type(e).__name__}"
    _poison(res)
    return out


class RealFile:
    def __init__(self, tmpdir, name="traj.txt"):
        self.path = os.path.join(tmpdir, name)

    def start(self, ep, fn, data, cuts, conv):
        """one reader object for one trajectory; a cut of -1 is a poll while the file does not exist yet"""
        if os.path.exists(self.path):
            os.remove(self.path)
        return {"reader": ep.ReadAndProcessOnTheFly(self.path, fn), "fh": None, "prev": 0, "out": [], "prevs": [],
                "data": data, "cuts": list(cuts), "conv": conv, "k": 0, "dead": False}

    def step(self, st):
        """grow to the next cut and poll once; False when the schedule is exhausted or the reader has raised"""
        if st["dead"] or st["k"] >= len(st["cuts"]):
            return False
        c = st["cuts"][st["k"]]
        st["k"] += 1
        if c >= 0 and st["fh"] is None:
            st["fh"] = open(self.path, "wb", buffering=0)
        if c > st["prev"]:
            st["fh"].write(st["data"][st["prev"]:c])
            st["prev"] = c
        try:
            res = st["reader"].read_and_process_content()
        except Exception as e:  # noqa: BLE001
            st["out"].append(err_kind(e))
            st["dead"] = True
            return False
        fr = safe_conv(st["conv"], res)
        if isinstance(fr, str):
            st["out"].append(fr)
            st["dead"] = True
            return False
        st["out"].append((st["reader"].current_position, fr))
        st["prevs"].append(getattr(st["reader"], "previous_position", None))
        return True

    def finish(self, st):
        if st["fh"] is not None:
            st["fh"].close()
        return st["out"]

    def polls(self, ep, fn, data: bytes, cuts, conv):
        """grow the real file to each cut in turn and poll the real reader object; returns the stage list"""
        st = self.start(ep, fn, data, cuts, conv)
        while self.step(st):
            pass
        self.last_prevs = st["prevs"]
        return self.finish(st)


def conv_xyz(res):
    return [[[float(v) for v in row] for row in fr.reshape(-1, 3)] if fr.size else [] for fr in res]


def conv_lmp(res):
    if isinstance(res, list) and not res:
        # FileNotFoundError branch of read_and_process_content: a bare [] instead of ([], []) — "no frames"
        return []
    traj, box = res
    assert len(traj) == len(box)
    return [([[float(v) for v in row] for row in t], [[float(v) for v in row] for row in b]) for t, b in zip(traj, box)]


def fl_rows(rows):
    return [[float(t) for t in r] for r in rows]


def show_code_stage(stage, kind):
    if isinstance(stage, str):
        return "!" + stage.split(":", 1)[1]
    pos, frames = stage
    if kind == "xyz":
        fs = ";".join("/".join(",".join(repr(v) for v in r) for r in fr) for fr in frames)
    else:
        fs = ";".join("/".join(",".join(repr(v) for v in r) for r in c) + "@" +
                      "/".join(",".join(repr(v) for v in r) for r in b) for c, b in frames)
    return f"{pos}:{fs}"


def canon_model_stage(s):
    """model stage 'pos:tok,tok/...' -> same with every token replaced by repr(float(token))"""
    s = s.strip()
    if s.startswith("!") or s.startswith("INCONSISTENT"):
        return s
    pos, _, body = s.partition(":")
    if not body:
        return pos + ":"
    out = []
    for fr in body.split(";"):
        parts = fr.split("@")
        out.append("@".join("/".join(",".join(repr(float(t)) for t in r.split(",")) if r else "" for r in p.split("/"))
                            for p in parts))
    return pos + ":" + ";".join(out)


def canon_model(res):
    return [canon_model_stage(s) for s in res.split(" | ")] if res.strip() else []


def strip_pos(stages):
    return [s if s.startswith("!") else s.partition(":")[2] for s in stages]


def complete(bounds, c):
    k = 0
    while k + 1 < len(bounds) and bounds[k + 1] <= c:
        k += 1
    return k


# ----------------------------------------------------------------------------- property predicates
def pred_xyz(stages, cuts, frames, bounds):
    """None if the property holds on this poll sequence, else (signature, what, stage index)"""
    exp = [fl_rows(f) for f in frames]
    got = []
    for k, st in enumerate(stages):
        if isinstance(st, str):
            return SIG_RAISE, f"poll {k} (visible bytes {cuts[k]}) raised {st}", k
        got += st[1]
        want = exp[: complete(bounds, cuts[k])]
        if got != want:
            c = cuts[k]
            return SIG_TORN, (f"after poll {k} with {c} bytes visible the reader has returned {len(got)} frame(s), "
                              f"{len(want)} are completely on disk; last returned frame {got[-1] if got else None}, "
                              f"written {exp[len(got) - 1] if got and len(got) <= len(exp) else None}"), k
    if len(stages) < len(cuts):
        return SIG_RAISE, "fewer stages than cuts", len(stages)
    return None


LMP_WS = " \t\r\n\x0b\x0c\x1c\x1d\x1e\x1f"


def lmp_slacks(text, bounds):
    """per frame: the bytes behind the trailing id of its last atom line (white space + newline; 1 = only the newline)"""
    data = text.encode()
    out = []
    for i in range(len(bounds) - 1):
        seg = data[bounds[i]:bounds[i + 1]].decode()
        out.append(len(seg) - len(seg.rstrip(LMP_WS)))
    return out


def in_slack(c, bounds, sl):
    """the cut lies strictly inside the white space behind a frame's last trailing id (the cuts the old guard
    `tbFree` excluded)"""
    return any(bounds[i + 1] - sl[i] <= c <= bounds[i + 1] - 2 for i in range(len(sl)))


def py_lmp_stages_s(lens, sl, cuts):
    """Python twin of the Lean specification lmpStagesS (Model/ReadersSlack.lean) — used by replay() only, where no
    driver is at hand; in run() the specification comes from the compiled Lean driver (op lspecs)"""
    ends = [0]
    for n in lens:
        ends.append(ends[-1] + n)
    done = miss = 0
    out = []
    for c in cuts:
        c = max(c, 0)
        if miss:
            if c >= ends[done]:
                miss = 0
            out.append([])
            continue
        got = []
        while done < len(lens) and ends[done + 1] <= c:
            got.append(done)
            done += 1
        if done < len(lens) and ends[done + 1] <= c + sl[done]:
            miss = ends[done + 1] - c
            got.append(done)
            done += 1
        out.append(got)
    return out


def pred_lmp_spec(stages, cuts, frames, bounds, sl):
    """the frames returned poll by poll are those of lmpStagesS (replay twin of the run-time spec comparison)"""
    exp = [(fl_rows(c), fl_rows(b)) for c, b in frames]
    lens = [bounds[i + 1] - bounds[i] for i in range(len(frames))]
    want = [[exp[i] for i in idxs] for idxs in py_lmp_stages_s(lens, sl, cuts)]
    got = [st if isinstance(st, str) else st[1] for st in stages]
    if got != want:
        k = next((j for j, (g, w) in enumerate(zip(got, want)) if g != w), min(len(got), len(want)))
        return "C13:lammps:stages-not-as-specified", f"poll {k} does not return what lmpStagesS specifies", k
    return None


def pred_lmp(stages, cuts, frames, bounds, slack=1):
    """slack: bytes of a frame that may still be missing when it is returned — its final newline (1), or the blank
    and the newline behind the trailing id when the atom lines end in "id \n" (2): never a byte of a value"""
    exp = [(fl_rows(c), fl_rows(b)) for c, b in frames]
    got = []
    for k, st in enumerate(stages):
        if isinstance(st, str):
            return "C13:lammps:partial-frame-raises", f"poll {k} (visible bytes {cuts[k]}) raised {st}", k
        got += st[1]
        d = len(got)
        if got != exp[:d]:
            return "C13:lammps:torn-or-wrong-frame", f"after poll {k} returned frames are not a prefix of the written ones", k
        sl = slack if isinstance(slack, list) else [slack] * len(frames)
        if d >= 1 and bounds[d] - sl[d - 1] > cuts[k]:
            return "C13:lammps:torn-or-wrong-frame", f"after poll {k}: {d} frames returned, only {cuts[k]} bytes visible, frame {d} ends at {bounds[d]}", k
        if k >= 1 and d < complete(bounds, cuts[k - 1]):
            return "C13:lammps:frame-withheld", f"after poll {k}: {d} frames returned but {complete(bounds, cuts[k - 1])} were complete one poll earlier", k
    if cuts and cuts[-1] >= bounds[-1] and len(cuts) >= 2 and cuts[-2] >= bounds[-1] and len(got) != len(exp):
        return "C13:lammps:frame-withheld", f"{len(got)} of {len(exp)} frames returned after the final polls", len(cuts) - 1
    return None


# ----------------------------------------------------------------------------- cut sequences
def cut_seqs(T, pairs, rng=None, max_pairs=None):
    seqs = [[c, T, T, T] for c in range(0, T + 1)]
    if pairs:
        allp = [(a, b) for a in range(1, T) for b in range(a + 1, T + 1)]
        if max_pairs is not None and len(allp) > max_pairs:
            allp = rng.sample(allp, max_pairs)
        seqs += [[a, b, T, T, T] for a, b in allp]
    return seqs


def extra_seqs(T, bounds, rng, n_multi=16):
    """one long-lived reader over schedules with polls WITHOUT growth (several in a row, also as the very last
    polls), polls before the file exists (-1), cuts exactly on / one byte around every frame boundary, and
    multi-cut schedules with repeats; some end without a final poll on the complete file"""
    near = sorted({c for b in bounds for c in (b - 1, b, b + 1) if 0 <= c <= T} | {0, 1, T - 1, T})
    seqs = []
    for c in near:
        seqs.append([c, c, c, T, T, T])
        seqs.append([-1, -1, c, T, T])
        seqs.append([c, c])
    seqs += [[-1, -1, -1], [-1, 0, 0, T, T], [0, 0, 0], [T], [T, T, T, T, T]]
    for a in near:
        for b in near:
            if a < b:
                seqs.append([a, b, b, T, T])
    for _ in range(n_multi):
        k = rng.randrange(3, 8)
        cs = sorted(rng.choice(near) if rng.random() < 0.4 else rng.randrange(0, T + 1) for _ in range(k))
        cs = [c for c in cs for _ in range(rng.choice((1, 1, 2, 3)))]
        if rng.random() < 0.3:
            cs = [-1] * rng.randrange(1, 3) + cs
        seqs.append(cs + rng.choice(([T, T, T], [T, T], [T], [])))
    return seqs


def drive_model(ctx, head, seqs, chunk=300):
    out = []
    lines = []
    seqs = [[max(c, 0) for c in sq] for sq in seqs]      # a file that does not exist yet reads like an empty one
    for i in range(0, len(seqs), chunk):
        part = seqs[i:i + chunk]
        lines.append(f"{head} {len(part)} " + " ".join(lst(s) for s in part))
    for ans in ctx.driver(lines):
        out += ans.split(" # ")
    return out


# ----------------------------------------------------------------------------- '\r' (fixed by /repo d5ef98e)
CR_WITNESS = "2\r\nc\r\nH 1 2 3\r\nC 4 5 6\r\n2\r\nc\r\nH 1 2 3\r\nC 4 5 7\r\n"
CR_LONE = "2 \rx\nc\ra\rb\nH\r1 2\r3\r\nC 4 5 6\n2\nc\r\nH 1 2 3\nC 4 5\r7\r\r\n"
CR_FRAMES = [[["1", "2", "3"], ["4", "5", "6"]], [["1", "2", "3"], ["4", "5", "7"]]]
CR_LMP = ("T\r\n0\r\nN\r\n1\r\nB\r\n0 1\r\n0 1\r\n0\r1\r\nA\r\n1 1 1 2 3 4 5 6 1\r\n"
          "T\n0\nN\r\n1\nB x\ry\n0 2\n0 2\n0 2\r\nA\n1 1 7\r8 9 1 2 3 1 \r\n")
CR_LMP_FRAMES = [([["1", "2", "3", "4", "5", "6"]], [["0", "1", "0"]] * 3),
                 ([["7", "8", "9", "1", "2", "3"]], [["0", "2", "0"]] * 3)]


def cr_probe(ctx, ep, rf):
    """ENFORCED (finding C13:text:carriage-return, fixed by /repo d5ef98e: the readers open with newline="\\n"): on
    CRLF files and on files with lone '\\r' (as a blank, inside free text, doubled in front of the newline), at EVERY
    cut c (polls c, c+1, T, T): no exception, frames exactly as the property demands, and current_position is a byte
    offset — a frame boundary (LAMMPS: minus the not yet consumed line end).  With universal-newline translation a
    pending '\\r' at the end of the visible bytes reads as a line end, tell() becomes an opaque cookie and the next
    poll raises ZeroDivisionError (witness: CR_WITNESS, cuts [23, 48, 48])."""
    jobs = []
    for text, frames in ((CR_WITNESS, CR_FRAMES), (CR_LONE, CR_FRAMES)):
        data = text.encode()
        k = text.index("\n2") + 1
        jobs.append(("xyz", text, frames, [0, k, len(data)], None))
    k = CR_LMP.index("\nT") + 1
    lb = [0, k, len(CR_LMP)]
    jobs.append(("lmp", CR_LMP, CR_LMP_FRAMES, lb, lmp_slacks(CR_LMP, lb)))
    for kind, text, frames, bounds, sl in jobs:
        data = text.encode()
        T = len(data)
        fn = ep.xyz_reader if kind == "xyz" else ep.lammpstrj_reader
        conv = conv_xyz if kind == "xyz" else conv_lmp
        seqs = [[23, 48, 48]] if text is CR_WITNESS else []
        seqs += [[c, min(c + 1, T), T, T] for c in range(T + 1)]
        for cuts in seqs:
            stages = rf.polls(ep, fn, data, cuts, conv)
            ctx.count(1, branch=f"{kind}:carriage-return")
            ctx.distinct(("cr", kind, text, tuple(cuts)))
            bad = (pred_xyz(stages, cuts, frames, bounds) if kind == "xyz"
                   else pred_lmp(stages, cuts, frames, bounds, sl))
            if bad is None:
                for j, st in enumerate(stages):
                    pos = st[0]
                    ok = (pos in bounds if kind == "xyz" else
                          any(b - s_ <= pos <= b for b, s_ in zip(bounds, [0] + sl)) and pos <= max(cuts[:j + 1]))
                    if not ok:
                        bad = (SIG_CR, f"after poll {j} current_position is {pos}: not a byte offset at a frame end", j)
                        break
            if bad is not None:
                ctx.hit(f"{kind}:predicate-fails:{SIG_CR}")
                seen = ctx.extra.setdefault("_c13_reported", [])
                if SIG_CR not in seen:
                    seen.append(SIG_CR)
                    ctx.fail(SIG_CR, f"{kind} reader on a file with carriage returns: {bad[1]} [{bad[0]}]; stages: "
                             + " | ".join(show_code_stage(st, kind) for st in stages),
                             {"kind": kind, "text": text, "cuts": cuts, "stage": bad[2], "frames": frames,
                              "bounds": bounds, **({"slack": sl} if sl else {})})


# ----------------------------------------------------------------------------- text readers
def check_text(ctx, ep, rf, kind, text, frames, bounds, seqs, label, trailing=0):
    """trailing=s>0: LAMMPS atom lines end in s-1 blanks/tabs before the newline (what dump custom writes): a frame may be
    returned while up to s bytes (that white space and the newline, never a byte of a value) are missing"""
    data = text.encode()
    T = len(data)
    fn = ep.xyz_reader if kind == "xyz" else ep.lammpstrj_reader
    conv = conv_xyz if kind == "xyz" else conv_lmp
    pred = pred_xyz if kind == "xyz" else pred_lmp
    code, prevs = [], []
    for cuts in seqs:
        code.append(rf.polls(ep, fn, data, cuts, conv))
        prevs.append(rf.last_prevs)
    code_s = [[show_code_stage(s, kind) for s in st] for st in code]
    lens = [bounds[i + 1] - bounds[i] for i in range(len(frames))]
    have_model = ctx._driver_ok
    if have_model:
        if kind == "xyz":
            m_asis = [canon_model(r) for r in drive_model(ctx, f"xyz asIs {hexs(data)}", seqs)]
            m_rep = [canon_model(r) for r in drive_model(ctx, f"xyz repaired {hexs(data)}", seqs)]
            spec = drive_model(ctx, f"xspec {lst(lens)}", seqs)
        else:
            m_rep = [canon_model(r) for r in drive_model(ctx, f"lmpv repaired {hexs(data)}", seqs)]
            m_asis = m_rep
            if any(cs != mm for cs, mm in zip(code_s, m_rep)):     # not the code as it is now: the recorded old rule?
                m_asis = [canon_model(r) for r in drive_model(ctx, f"lmpv asIs {hexs(data)}", seqs)]
            sl = trailing if trailing else [1] * len(frames)
            # per-frame-slack specification (right-hand side of lmp_exact_any_slack): judged on EVERY schedule
            spec = drive_model(ctx, "lspecs " + lst([x for pr in zip(lens, sl) for x in pr]), seqs)
            # the one-byte-lag specification (right-hand side of lmp_exact / lmp_exact_trailing_partial)
            spec_old = drive_model(ctx, f"lspec {lst(lens)}", seqs)
    agree_asis = agree_rep = True
    first_dis = first_rep = None
    nfail = 0
    for k, cuts in enumerate(seqs):
        shape = ("late-file" if -1 in cuts else "single" if len(cuts) == 4 and cuts[1:] == [T, T, T] else
                 "pair" if len(cuts) == 5 and cuts[2:] == [T, T, T] and cuts[0] < cuts[1] else "stutter/multi")
        ctx.count(1, branch=f"{kind}:{shape}")
        if any(c not in bounds for c in cuts[:-3]):
            ctx.distinct((kind, label, tuple(cuts)))
        bad = pred(code[k], cuts, frames, bounds, trailing) if trailing else pred(code[k], cuts, frames, bounds)
        if (bad is not None and trailing and bad[0] == "C13:lammps:partial-frame-raises"
                and any(in_slack(c, bounds, trailing) for c in cuts)):
            bad = (SIG_TRAILING, bad[1] + " (a poll saw a frame up to its last id, the blank(s) and newline behind it "
                   "arrived later)", bad[2])
        if bad is not None and "\r" in text and bad[0] != SIG_TRAILING:
            bad = (SIG_CR, f"(file with carriage returns) {bad[1]} [{bad[0]}]", bad[2])
        if bad is not None:
            nfail += 1
            sig, what, stage = bad
            ctx.hit(f"{kind}:predicate-fails:{sig}")
            seen = ctx.extra.setdefault("_c13_reported", [])
            if sig not in seen:   # one replay per signature (the framework keeps at most 20 failures)
                seen.append(sig)
                ctx.fail(sig, f"{kind} reader: {what}",
                         {"kind": kind, "text": text, "cuts": cuts, "stage": stage, "frames": frames, "bounds": bounds,
                          **({"slack": trailing} if trailing else {})})
        if have_model:
            if code_s[k] != m_asis[k]:
                agree_asis = False
                if first_dis is None:
                    first_dis = (cuts, code_s[k], m_asis[k])
            if code_s[k] != m_rep[k]:        # frames AND current_position, both readers
                if agree_rep:
                    first_rep = (cuts, code_s[k], m_rep[k])
                agree_rep = False
            # the spec function (theorem right-hand side) against the reader model AND the implementation's output;
            # no cut is skipped any more (the old guard `tbFree` only decides whether the one-byte-lag spec applies too)
            specs_k = [("lmpStagesS" if kind == "lmp" else "exactStages", spec[k])]
            if kind == "lmp" and not any(in_slack(c, bounds, sl) for c in cuts):
                specs_k.append(("lmpStages", spec_old[k]))
            elif kind == "lmp":
                ctx.hit("lmp:cut-inside-trailing-white-space")
            exp_fr = ([fl_rows(f) for f in frames] if kind == "xyz"
                      else [(fl_rows(c), fl_rows(b)) for c, b in frames])
            for sname, sp in specs_k:
                spec_st = [[int(x) for x in s.split(",") if x.strip()] for s in sp.split(" | ")]
                want = []
                for idxs in spec_st:
                    fs = [exp_fr[i] for i in idxs]
                    want.append(show_code_stage((0, fs), kind).partition(":")[2])
                if want != strip_pos(m_rep[k]):
                    ctx.disagree({"fn": f"{kind}: Lean spec stages ({sname}) vs Lean reader model", "label": label,
                                  "cuts": cuts}, strip_pos(m_rep[k]), want)
                if want != strip_pos(code_s[k]) and bad is None:
                    ctx.hit(f"{kind}:predicate-fails:C13:{kind}:stages-not-as-specified")
                    seen = ctx.extra.setdefault("_c13_reported", [])
                    sig = f"C13:{'xyz' if kind == 'xyz' else 'lammps'}:stages-not-as-specified"
                    if sig not in seen:
                        seen.append(sig)
                        ctx.fail(sig, f"{kind} reader: the frames returned poll by poll are not those of the "
                                 f"specification {sname} (right-hand side of the exactness theorem): "
                                 f"got {strip_pos(code_s[k])}, specified {want}",
                                 {"kind": kind, "text": text, "cuts": cuts, "stage": 0, "frames": frames,
                                  "bounds": bounds})
    if have_model:
        from props import c13_ext
        c13_ext.compare_object(ctx, kind, data, text, seqs, code, prevs, lens, frames, label,
                               (show_code_stage, canon_model, fl_rows), slack=trailing, bounds=bounds)
        # audit pass: the model of the code as it is NOW is the variant `repaired` (xyz since 807db24, LAMMPS since
        # dfb19e7).  Agreement with the recorded old variant `asIs` only is a broken correspondence, too.
        rname = "xyz_reader" if kind == "xyz" else "lammpstrj_reader"
        if agree_rep:
            ctx.hit(f"{kind}:code-agrees-with-model=repaired")
        else:
            if agree_asis:
                ctx.hit(f"{kind}:code-agrees-with-model=asIs")
            ctx.disagree({"fn": f"{rname} vs model of the code as it is now (variant repaired)"
                          + ("; it behaves like the recorded variant asIs (a repaired defect is back)"
                             if agree_asis else ""), "label": label, "text": text, "cuts": first_rep[0]},
                         first_rep[1], first_rep[2])
    return nfail


def check_interleaved(ctx, ep, tmpdir, pool):
    """two reader objects alive at once on different files, polled alternately (and a third trajectory written
    under the name of the first one afterwards, read by a NEW reader): every reader must behave exactly as when it
    is alone — no state shared through the class, the module or the processing functions"""
    rng = ctx.rng
    rfa, rfb, rf0 = RealFile(tmpdir, "a.txt"), RealFile(tmpdir, "b.txt"), RealFile(tmpdir, "alone.txt")
    n = 12 if ctx.quick else 120
    for _ in range(n):
        picks = [rng.choice(pool) for _ in range(3)]
        specs = []
        for kind, text, frames, bounds, sl in picks:
            data = text.encode()
            T = len(data)
            sq = rng.choice(extra_seqs(T, bounds, rng, n_multi=4)[-4:]) + [T, T]
            fn = ep.xyz_reader if kind == "xyz" else ep.lammpstrj_reader
            conv = conv_xyz if kind == "xyz" else conv_lmp
            specs.append((kind, fn, data, sq, conv, frames, bounds, text, sl))
        alone = [rf0.polls(ep, sp[1], sp[2], sp[3], sp[4]) for sp in specs]
        sta = rfa.start(ep, specs[0][1], specs[0][2], specs[0][3], specs[0][4])
        stb = rfb.start(ep, specs[1][1], specs[1][2], specs[1][3], specs[1][4])
        more = True
        while more:
            k = rng.randrange(1, 3)
            ma = any([rfa.step(sta) for _ in range(k)])
            mb = any([rfb.step(stb) for _ in range(3 - k)])
            more = ma or mb
        got = [rfa.finish(sta), rfb.finish(stb)]
        got.append(rfa.polls(ep, specs[2][1], specs[2][2], specs[2][3], specs[2][4]))   # same name, new reader
        for j, (sp, g, a) in enumerate(zip(specs, got, alone)):
            kind, frames, bounds, text = sp[0], sp[5], sp[6], sp[7]
            ctx.count(1, branch="readers:interleaved" if j < 2 else "readers:same-name-new-reader")
            ctx.distinct(("interleaved", kind, text, tuple(sp[3])))
            bad = pred_xyz(g, sp[3], frames, bounds) if kind == "xyz" else pred_lmp(g, sp[3], frames, bounds, sp[8])
            if bad is None and g != a:
                bad = ("C13:reader-state-leaks", "a reader polled next to another reader (or on a file name used "
                       "before) returns something else than the same reader alone", 0)
            if bad is not None:
                seen = ctx.extra.setdefault("_c13_reported", [])
                if bad[0] not in seen:
                    seen.append(bad[0])
                    ctx.fail(bad[0], f"{kind} reader, " + ("interleaved with a second reader" if j < 2 else
                             "file name reused, new reader") + f": {bad[1]}",
                             {"kind": kind, "text": text, "cuts": sp[3], "stage": bad[2], "frames": frames,
                              "bounds": bounds, "note": "found in the interleaved/same-name scenario"})


# ----------------------------------------------------------------------------- TRR
TRR_KEYS = ["ir_size", "e_size", "box_size", "vir_size", "pres_size", "top_size", "sym_size", "x_size",
            "v_size", "f_size"]


def trr_frame(endian, double, natoms, step, rng, blocks="xv", zero=False):
    """one TRR frame (header + box + the blocks named in `blocks` ⊆ "xvf") in the layout read_trr_header expects"""
    fs = 8 if double else 4
    fc = "d" if double else "f"
    version = b"GMX_trn_file"
    vals = {"box": [0.0 if zero else float(rng.randrange(-40, 40)) / 4 for _ in range(9)]}
    for key, div in (("x", 8), ("v", 16), ("f", 32)):
        if key in blocks:
            vals[key] = [rng.choice((0.0, -0.0)) if zero else float(rng.randrange(-400, 400)) / div
                         for _ in range(3 * natoms)]
    sizes = {"ir_size": 0, "e_size": 0, "box_size": 9 * fs, "vir_size": 0, "pres_size": 0, "top_size": 0,
             "sym_size": 0, "x_size": 0, "v_size": 0, "f_size": 0}
    for key in "xvf":
        if key in blocks:
            sizes[key + "_size"] = 3 * natoms * fs
    h = struct.pack(endian + "1i", 1993)
    h += struct.pack(endian + "2i", 13, 12)
    h += struct.pack(endian + "12s", version)
    h += struct.pack(endian + "13i", *[sizes[k] for k in TRR_KEYS], natoms, step, 0)
    h += struct.pack(endian + "2" + fc, step * 0.5, 0.0)
    body = struct.pack(endian + "9" + fc, *vals["box"])
    for key in "xvf":
        if key in blocks:
            body += struct.pack(endian + f"{3 * natoms}{fc}", *vals[key])
    vals["step"] = step
    return h, body, vals


class _Spin(Exception):
    """the reader keeps sleeping although every byte is on disk and the process has ended"""


class _FileProxy:
    """wraps the TRR file object: records every read (offset, requested, returned, bytes visible)"""

    def __init__(self, fh, trace, state):
        self._fh, self._trace, self._state = fh, trace, state

    def read(self, n=-1):
        off = self._fh.tell()
        buf = self._fh.read(n)
        self._trace.append(("read", off, n, len(buf), self._state["prev"], self._state["running"]))
        return buf

    def __getattr__(self, name):
        return getattr(self._fh, name)


class _OsShim:
    """stands in for the name `os` inside gromacs.py: getsize calls are recorded, the rest is os"""

    class _Path:
        def __init__(self, trace, state):
            self._trace, self._state = trace, state

        def getsize(self, p):
            s = os.path.getsize(p)
            self._trace.append(("size", s, self._state["running"]))
            return s

        def __getattr__(self, name):
            return getattr(os.path, name)

    def __init__(self, trace, state):
        self.path = _OsShim._Path(trace, state)

    def __getattr__(self, name):
        return getattr(os, name)


def _trr_setup(gm, path, data, schedule, trace=None):
    cuts = list(schedule)
    state = {"i": 0, "prev": 0, "ticks": 0, "running": True}
    fh = open(path, "wb", buffering=0)

    def grow():
        state["ticks"] += 1
        if state["i"] >= len(cuts):
            # everything is on disk: a correct reader needs a handful of further polls at most
            state["idle"] = state.get("idle", 0) + 1
            if state["idle"] > 64:
                raise _Spin()
        if state["i"] < len(cuts):
            c = cuts[state["i"]]
            state["i"] += 1
            if c > state["prev"]:
                fh.write(data[state["prev"]:c])
                state["prev"] = c
            return False
        return True

    runner = object.__new__(gm.GromacsRunner)
    runner.trr_file = path
    runner.edr_file = path
    runner.SLEEP = 0
    runner.bytes_read = 0
    runner.header_size = 0
    runner.data_size = 0
    runner.stop_read = False
    runner.fileh = open(path, "rb")
    runner.ino = os.fstat(runner.fileh.fileno()).st_ino
    if trace is not None:
        runner.fileh = _FileProxy(runner.fileh, trace, state)
    runner.running = None      # nothing to stop in __del__
    runner.stdout = runner.stderr = None

    def check_poll():
        if grow():
            state["running"] = False
            return 0
        return None

    runner.check_poll = check_poll
    return {"runner": runner, "state": state, "grow": grow, "fh": fh, "out": []}


def _trr_frame_out(state, fr):
    try:
        return (state["prev"], {k: [float(z) for z in fr[k].reshape(-1)]
                                for k in ("box", "vir", "pres", "x", "v", "f") if k in fr})
    except Exception as e:  # noqa: BLE001
        return f"err:badresult:{type(e).__name__}"


def trr_run(tmpdir, data: bytes, schedule, trace=None):
    """drive the real get_gromacs_frames: every check_poll()/sleep() call makes the next chunk visible"""
    from infretis.classes.engines import gromacs as gm
    su = _trr_setup(gm, os.path.join(tmpdir, "traj.trr"), data, schedule, trace)
    runner, state, out = su["runner"], su["state"], su["out"]
    old_sleep = gm.sleep
    old_os = gm.os
    gm.sleep = lambda _t: su["grow"]()
    if trace is not None:
        gm.os = _OsShim(trace, state)
    try:
        try:
            for fr in runner.get_gromacs_frames():
                if trace is not None:
                    trace.append(("yield", list(fr.keys()) if isinstance(fr, dict) else []))
                out.append(_trr_frame_out(state, fr))
                if len(out) > 1000:
                    out.append("err:runaway:more than 1000 frames yielded")
                    break
        except _Spin:
            out.append("spin")
        except Exception as e:  # noqa: BLE001
            out.append(err_kind(e))
    finally:
        gm.sleep = old_sleep
        gm.os = old_os
        runner.fileh.close()
        su["fh"].close()
    return out


def trr_run_pair(tmpdir, jobs):
    """two GromacsRunner objects alive at once on two files, their generators advanced alternately"""
    from infretis.classes.engines import gromacs as gm
    sus = [_trr_setup(gm, os.path.join(tmpdir, f"pair{j}.trr"), data, sch) for j, (data, sch) in enumerate(jobs)]
    cur = {"j": 0}
    old_sleep = gm.sleep
    gm.sleep = lambda _t: sus[cur["j"]]["grow"]()
    gens = [su["runner"].get_gromacs_frames() for su in sus]
    alive = [True] * len(sus)
    try:
        guard = 0
        while any(alive) and guard < 5000:
            guard += 1
            for j, su in enumerate(sus):
                if not alive[j]:
                    continue
                cur["j"] = j
                try:
                    fr = next(gens[j])
                    su["out"].append(_trr_frame_out(su["state"], fr))
                except StopIteration:
                    alive[j] = False
                except _Spin:
                    su["out"].append("spin")
                    alive[j] = False
                except Exception as e:  # noqa: BLE001
                    su["out"].append(err_kind(e))
                    alive[j] = False
    finally:
        gm.sleep = old_sleep
        for su in sus:
            su["runner"].fileh.close()
            su["fh"].close()
    return [su["out"] for su in sus]


def trr_ticks(trace):
    """real trace -> (sizes seen by the guards while running, per-guard canonical events, bad reads)"""
    sizes, ticks, bad = [], [], []
    for ev in trace:
        if ev[0] == "size":
            if ev[2]:
                sizes.append(ev[1])
                ticks.append(None)
        elif ev[0] == "read":
            _, off, req, got, visible, running = ev
            if got != req or off + req > visible:
                bad.append(ev)
            if running and ticks:
                if ticks[-1] is None:
                    ticks[-1] = [off, req, sizes[-1]]
                else:
                    ticks[-1][1] += req
    return sizes, ["w" if t is None else f"r:{t[0]}:{t[1]}:{t[2]}" for t in ticks], bad


TRR_COMBOS = ["", "x", "v", "f", "xv", "xf", "vf", "xvf"]


def trr_scenarios(ctx):
    """(natoms, [blocks per frame], every_byte) — uniform and heterogeneous frame layouts
    (nstxout != nstvout != nstfout: frames with x only, x+v, x+v+f, a small first frame, a small last frame)"""
    rng = ctx.rng
    sc = [(1, ["xv", "xv"], True), (3, ["xv"] * 3, True), (40, ["xv"] * 3, False),
          (5, ["xv"], True), (50, ["xvf"], False),          # one frame only: small (< TRR_HEAD_SIZE) and large
          (14, ["x", "x"], False),                          # double precision: the file is exactly 1000 bytes
          (12, ["x", "xf", "f", "x"], False),               # forces only in some frames, a frame without positions
          (12, ["x", "xv", "xvf"], True), (12, ["xvf", "x", "x"], False), (12, ["xvf", "xv", "x", "xvf"], False),
          (16, ["", "xvf", "x"], False), (30, ["x", "xvf"], False), (30, ["xvf", "x"], False)]
    n_rand = 1 if ctx.quick else 12
    for _ in range(n_rand):
        sc.append((rng.randrange(8, 24), [rng.choice(TRR_COMBOS) for _ in range(rng.randrange(2, 5))], False))
    if not ctx.quick:
        sc += [(14, list(TRR_COMBOS), True), (14, list(reversed(TRR_COMBOS)), True)]
        sc = [(n, b, True) for n, b, _ in sc]
    return sc


def trr_predicate(out, frames, ends):
    got = []
    for st in out:
        if st == "spin":
            return ("C13:trr:frame-withheld",
                    f"frame {len(got)} is completely on disk and the MD program has ended, but it is never returned "
                    f"(the reader keeps waiting: > 64 further polls)")
        if isinstance(st, str):
            return ("C13:trr:partial-frame-raises", f"get_gromacs_frames raised {st}")
        visible, fr = st
        k = len(got)
        if k >= len(frames):
            return ("C13:trr:torn-or-wrong-frame", f"an extra frame {k} was yielded")
        want = {key: v for key, v in frames[k].items() if key != "step"}
        if fr != want:
            return ("C13:trr:torn-or-wrong-frame", f"yielded frame {k} differs from the written one")
        if ends[k] > visible:
            return ("C13:trr:torn-or-wrong-frame",
                    f"frame {k} yielded with {visible} bytes visible, it ends at {ends[k]}")
        got.append(fr)
    if len(got) != len(frames):
        return ("C13:trr:frame-withheld", f"{len(got)} of {len(frames)} frames yielded")
    return None


def check_trr_header(ctx):
    """real read_trr_header on header bytes (valid for all block combinations / byte orders / precisions, and
    malformed: wrong magic, wrong version, inconsistent sizes, natoms 0, every truncation) vs Lean `trrHeader`"""
    import io
    from infretis.classes.engines import gromacs as gm
    rng = ctx.rng
    cases = []
    for endian, double in itertools.product("<>", (False, True)):
        for blocks in TRR_COMBOS:
            h, b, _ = trr_frame(endian, double, rng.randrange(1, 50), rng.randrange(0, 10 ** 6), rng, blocks)
            cases.append(h + b[:rng.randrange(0, 9)])
        h, b, _ = trr_frame(endian, double, 7, 3, rng, "xv")
        cases += [h[:k] for k in range(0, len(h) + 1)]                       # every truncation
        cases.append(b"\x00\x00\x00\x01" + h[4:])                            # wrong magic both ways
        cases.append(h[:12] + b"GMX_trn_fil\x00" + h[24:])                   # wrong version
        cases.append(h[:12] + b"GMX\x00rn_file" + h[24:])
        sw = ">" if endian == "<" else "<"
        for pos, val in ((4, 1), (4, 0), (4, 5), (4, 40), (24 + 8, 70), (24 + 8, 0), (24 + 40, 0), (24 + 8, -72)):
            # slen[0]; box_size; natoms (with box 0 below)
            cases.append(h[:pos] + struct.pack(endian + "i", val) + h[pos + 4:])
        nobox = h[:24 + 8] + struct.pack(endian + "i", 0) + h[24 + 12:]
        cases.append(nobox)
        cases.append(nobox[:24 + 40] + struct.pack(endian + "i", 0) + nobox[24 + 44:])   # natoms 0 -> ZeroDivisionError
        cases.append(h[:4] + struct.pack(sw + "2i", 13, 12) + h[12:])          # slen in the other byte order
    code = []
    for bs in cases:
        f = io.BytesIO(bs)
        try:
            hd, n = gm.read_trr_header(f)
            ds = sum(hd[k] for k in gm.TRR_DATA_ITEMS)
            code.append(f"ok {hd['endian']} {1 if hd['double'] else 0} {n} {ds} {len(bs) - f.tell()} "
                        + ",".join(str(hd[k]) for k in TRR_KEYS + ["natoms", "step", "nre"]))
        except EOFError:
            code.append("err:eof")
        except struct.error:
            code.append("err:struct")
        except ZeroDivisionError:
            code.append("err:zerodiv")
        except ValueError:
            code.append("err:value")
    if ctx._driver_ok:
        model = ctx.driver([f"trrhdr {hexs(bs)}" for bs in cases])
        for bs, c, m in zip(cases, code, model):
            ctx.count(1, branch="trr:header-bytes:" + ("ok" if c.startswith("ok") else c))
            if c != m:
                ctx.disagree({"fn": "read_trr_header vs trrHeader", "bytes": bs.hex()}, c, m)
    # property on the real decoder: a well-formed header yields exactly the sizes that were written
    for endian, double in itertools.product("<>", (False, True)):
        for blocks in TRR_COMBOS:
            na = rng.randrange(1, 50)
            h, b, _ = trr_frame(endian, double, na, 1, rng, blocks)
            hd, n = gm.read_trr_header(io.BytesIO(h + b))
            ds = sum(hd[k] for k in gm.TRR_DATA_ITEMS)
            if n != len(h) or ds != len(b) or hd["endian"] != endian or hd["double"] != double:
                ctx.fail("C13:trr:header-decoding", f"header of a {blocks or 'box-only'} frame decoded to header size {n}, "
                         f"data size {ds}, endian {hd['endian']}, double {hd['double']}; written {len(h)}, {len(b)}, "
                         f"{endian}, {double}", {"kind": "trrhdr", "bytes": (h + b).hex(), "hsize": len(h),
                                                "dsize": len(b), "endian": endian, "double": double})


def check_trr(ctx, tmpdir):
    rng = ctx.rng
    ncase = 0
    scenarios = trr_scenarios(ctx)
    for endian, double in itertools.product("<>", (False, True)):
        for natoms, blocks, every in scenarios:
            nframes = len(blocks)
            parts = [trr_frame(endian, double, natoms, s, rng, blocks[s], zero=(s == 1 and natoms % 2 == 0))
                     for s in range(nframes)]
            data = b"".join(h + b for h, b, _ in parts)
            frames = [p[2] for p in parts]
            ends = list(itertools.accumulate(len(h) + len(b) for h, b, _ in parts))
            T = len(data)
            step = 1 if (every or T <= 700) else 7
            scheds = [[c, T] for c in range(0, T + 1, step)]
            # exact boundaries whatever the step: frame ends, header/data boundaries, TRR_HEAD_SIZE, the first
            # header guard of every frame (frame start + 1000 / + learned header size), each one byte around
            starts = [0] + ends[:-1]
            marks = {0, 1, T - 1, T, 999, 1000, 1001}
            for (h, _b, _), e0, e1 in zip(parts, starts, ends):
                for m in (e0, e0 + len(h), e1, e0 + 1000, e0 + 2 * len(h)):
                    marks |= {m - 1, m, m + 1}
            marks = sorted(m for m in marks if 0 <= m <= T)
            scheds += [[m, T] for m in marks if m % step]
            scheds += [[m, m, m, T] for m in marks] + [[a, b, T] for a in marks for b in marks if a < b][:400]
            # byte-by-byte growth, growth in random chunks, growth frame by frame / header by header
            scheds.append(list(range(1, T + 1)))
            scheds.append(list(ends))
            hb = []
            for (h, _b, _), e0 in zip(parts, [0] + ends[:-1]):
                hb += [e0 + len(h)]
            scheds.append(sorted(set(hb + list(ends))))
            for _ in range(3 if ctx.quick else 30):
                cs = sorted(rng.sample(range(1, T), min(T - 1, rng.randrange(1, 12)))) + [T]
                scheds.append(cs)
            hd = []
            for h, b, _ in parts:
                hd += [len(h), len(b)]
            label = {"kind": "trr", "endian": endian, "double": double, "natoms": natoms, "blocks": blocks,
                     "nframes": nframes}
            model_lines, model_ticks = [], []
            gmx_items = []
            from props import c13_ext
            for sch in scheds:
                ncase += 1
                trace = []
                out = trr_run(tmpdir, data, sch, trace)
                sizes, ticks, badreads = trr_ticks(trace)
                gmx_items.append((data, sch, c13_ext.gmx_events(trace, out, data), c13_ext.gmx_sizes(trace)))
                seen = ctx.extra.setdefault("_c13_reported", [])
                if badreads and "C13:trr:read-beyond-visible-bytes" not in seen:
                    seen.append("C13:trr:read-beyond-visible-bytes")
                    ctx.fail("C13:trr:read-beyond-visible-bytes",
                             f"read (offset, requested, returned, visible) = {badreads[0][1:5]}",
                             dict(label, data=data.hex(), schedule=sch))
                model_lines.append(f"trr {lst(hd)} {lst(sizes)}")
                model_ticks.append((sch, ticks))
                uniform = len(set(blocks)) == 1
                ctx.count(1, branch=f"trr:{'big' if endian == '>' else 'little'}:{'double' if double else 'single'}:"
                                    f"{'uniform' if uniform else 'heterogeneous'}")
                bad = trr_predicate(out, frames, ends)
                if bad:
                    ctx.hit(f"trr:predicate-fails:{bad[0]}")
                    if bad[0] not in seen:
                        seen.append(bad[0])
                        ctx.fail(bad[0], bad[1], dict(label, data=data.hex(), schedule=sch))
                if len(sch) > 1:
                    ctx.distinct(("trr", endian, double, natoms, tuple(blocks), tuple(sch)))
            # files that stop inside a frame (the program ended there) and damaged files: no property predicate (the
            # property speaks about well-formed output), only model = code for the whole generator incl. its
            # swallowed-EOFError branches and the unguarded final phase
            odd = []
            for _ in range(4 if ctx.quick else 40):
                c = rng.randrange(1, T)
                odd.append((data[:c], sorted(rng.sample(range(1, c + 1), min(c, rng.randrange(1, 4)))) + [c]))
            for _ in range(3 if ctx.quick else 30):
                bad = bytearray(data)
                k = rng.choice([0, 3, 4, 7, 8, 12, 23, 24 + 8 + 3, 24 + 28 + 3, 24 + 40 + 3] +
                               [rng.randrange(0, len(parts[0][0]))])
                off = rng.choice([0] + ends[:-1])
                if off + k < T:
                    bad[off + k] = rng.choice([0, 1, 255, bad[off + k] ^ 0x10])
                odd.append((bytes(bad), sorted(rng.sample(range(1, T), min(T - 1, rng.randrange(0, 5)))) + [T]))
            for fdata, sch in odd:
                trace = []
                out = trr_run(tmpdir, fdata, sch, trace)
                ctx.count(1, branch="trr:generator-on-truncated-or-damaged-file")
                gmx_items.append((fdata, sch, c13_ext.gmx_events(trace, out, fdata), c13_ext.gmx_sizes(trace)))
            c13_ext.compare_gmx(ctx, label, gmx_items)
            if ctx._driver_ok:
                ndis = 0
                for (sch, ticks), ans in zip(model_ticks, ctx.driver(model_lines)):
                    mt = [t for t in ans.split() if not t.startswith("y:")]
                    ctx.count(1, branch="trr:guard-trace-vs-model")
                    if mt != ticks and ndis < 2:
                        ndis += 1
                        ctx.disagree(dict(label, fn="get_gromacs_frames guards vs trrRun", schedule=sch[:20]),
                                     ticks[:40], mt[:40])
    # two runner objects alive at once (different byte order / precision / layouts), advanced alternately
    for _ in range(8 if ctx.quick else 80):
        jobs, exp = [], []
        for _j in range(2):
            endian, double = rng.choice("<>"), rng.random() < 0.5
            natoms, blocks, _e = rng.choice(scenarios)
            parts = [trr_frame(endian, double, natoms, s, rng, blocks[s]) for s in range(len(blocks))]
            data = b"".join(h + b for h, b, _ in parts)
            T = len(data)
            sch = sorted(rng.sample(range(1, T), min(T - 1, rng.randrange(1, 8)))) + [T]
            jobs.append((data, sch))
            exp.append(([p[2] for p in parts], list(itertools.accumulate(len(h) + len(b) for h, b, _ in parts)),
                        {"kind": "trr", "endian": endian, "double": double, "natoms": natoms, "blocks": blocks,
                         "nframes": len(blocks), "data": data.hex(), "schedule": sch}))
        outs = trr_run_pair(tmpdir, jobs)
        for out, (frames, ends, label) in zip(outs, exp):
            ctx.count(1, branch="trr:two-runners-interleaved")
            bad = trr_predicate(out, frames, ends)
            if bad:
                seen = ctx.extra.setdefault("_c13_reported", [])
                if bad[0] not in seen:
                    seen.append(bad[0])
                    ctx.fail(bad[0], "two runners alive at once: " + bad[1], label)
    return ncase


# ----------------------------------------------------------------------------- run / replay
WITNESS_TEXT = "2\ncomment\nH 1.0 2.0 3.0\nC 4.0 5.0 6.283185\n2\ncomment\nH 1.5 2.5 3.5\nC 4.5 5.5 6.5\n"
WITNESS_FRAMES = [[["1.0", "2.0", "3.0"], ["4.0", "5.0", "6.283185"]], [["1.5", "2.5", "3.5"], ["4.5", "5.5", "6.5"]]]
WITNESS_BOUNDS = [0, 43, 81]


def replay_corpus(ctx, ep, rf):
    """corpus/C13/*.json (witnesses of past findings) against the real readers, before anything else"""
    import json
    from common import CORPUS
    for f in sorted((CORPUS / "C13").glob("*.json")):
        obj = json.loads(f.read_text())
        r = obj.get("replay", {})
        kind = r.get("kind")
        if kind not in ("xyz", "lmp"):
            continue
        fn = ep.xyz_reader if kind == "xyz" else ep.lammpstrj_reader
        conv = conv_xyz if kind == "xyz" else conv_lmp
        frames = r["frames"] if kind == "xyz" else [tuple(x) for x in r["frames"]]
        stages = rf.polls(ep, fn, r["text"].encode(), r["cuts"], conv)
        bad = (pred_xyz(stages, r["cuts"], frames, r["bounds"]) if kind == "xyz"
               else pred_lmp(stages, r["cuts"], frames, r["bounds"],
                             r.get("slack") or lmp_slacks(r["text"], r["bounds"])))
        ctx.count(1, branch="corpus")
        ctx.distinct(("corpus", f.name))
        if bad is not None:
            sig = obj.get("signature", bad[0])
            seen = ctx.extra.setdefault("_c13_reported", [])
            if sig not in seen:
                seen.append(sig)
                ctx.fail(sig, f"corpus witness {f.name} fails again: {bad[1]}", dict(r, stage=bad[2]))


def run(ctx):
    ep = _imports()
    rng = ctx.rng
    os.makedirs("/var/tmp", exist_ok=True)
    tmpdir = tempfile.mkdtemp(prefix="verif-c13-", dir="/var/tmp")
    ctx.rule = ("generated trajectories (1–4 atoms, 1–4 frames, plus LAMMPS files with 11–12 atoms for multi-digit ids and xyz files with 10–104 atoms for multi-digit count lines; integer/fixed/exponent/signed/'5.'/'.5' literals; "
                "compact, CP2K-like padded and randomly padded layouts; unsorted ids, 2- and 3-column box lines): "
                "every single cut point 0..T (polls at c,T,T,T) for all of them and every pair of cut points "
                "(c1<c2, polls at c1,c2,T,T,T) for the small ones, against the real reader object on a real growing "
                "file; plus, per trajectory, one long-lived reader over schedules with several polls without growth "
                "(in the middle and as the last polls), polls before the file exists, cuts on / one byte around every "
                "frame boundary, multi-cut schedules with repeats, schedules that stop before the file is complete; "
                "two readers alive at once polled alternately, a file name reused by a new reader; every array handed "
                "out is overwritten with NaN after it was copied. TRR: uniform and heterogeneous frames (any subset "
                "of x/v/f, box-only, single-frame, zero-valued frames, a file of exactly 1000 bytes), all [c,T] cuts "
                "(every byte on the small files) plus every boundary ±1 (frame ends, header/data, TRR_HEAD_SIZE, the "
                "header guards), stutter and pair schedules, two runners alive at once; the whole generator (guards, reads, "
                "yields with raw block bytes, final phase) against gGen, also on files cut inside a frame and damaged "
                "headers; header+payload bytes for all 64 block-presence combinations x precision x byte order, "
                "complete and truncated at every block boundary, against trrData. Reader object: current_position and "
                "previous_position after every poll against rpRun; arbitrary file-state sequences (grown, truncated, "
                "replaced, removed). Object comparison on every 4th (quick) / 2nd (thorough) plain pair schedule and "
                "generator comparison on every 3rd / 2nd plain [c,T] schedule; all other schedules always. "
                "Non-trivial = at least one cut strictly inside a frame; distinct by (trajectory, cut sequence).")
    try:
        rf = RealFile(tmpdir)
        replay_corpus(ctx, ep, rf)
        # the recorded witness first (DESIGN C13 probe): 2 atoms, cut inside '6.283185'
        check_text(ctx, ep, rf, "xyz", WITNESS_TEXT, WITNESS_FRAMES, WITNESS_BOUNDS,
                   cut_seqs(len(WITNESS_TEXT), True), "witness")
        # reader polled before the file exists: must return nothing and not raise
        r0 = ep.ReadAndProcessOnTheFly(os.path.join(tmpdir, "absent.xyz"), ep.xyz_reader)
        try:
            if r0.read_and_process_content() != []:
                ctx.fail("C13:absent-file", "poll of a not yet existing file returned something", {"kind": "absent"})
        except Exception as e:  # noqa: BLE001
            ctx.fail("C13:absent-file", f"poll of a not yet existing file raised {err_kind(e)}", {"kind": "absent"})
        ctx.count(1, branch="absent-file")
        cr_probe(ctx, ep, rf)

        xyz_plan = []   # (natoms, nframes, style, pairs, max_pairs)
        lmp_plan = []
        if ctx.quick:
            xyz_plan = [(1, 2, 0, True, None), (2, 2, 1, True, 2000), (1, 3, 2, True, 2000), (3, 2, 2, False, None),
                        (4, 4, 1, False, None), (2, 3, 0, False, None), (1, 1, 1, True, None), (3, 4, 0, False, None),
                        (1, 2, 3, True, 2500), (2, 3, 3, True, 1500), (3, 4, 3, False, None)]
            lmp_plan = [(1, 2, 0, True, 2500), (2, 2, 1, True, 1200), (3, 3, 0, False, None), (4, 4, 1, False, None),
                        (1, 1, 0, True, None), (2, 4, 0, False, None), (12, 2, 0, False, None),
                        (1, 2, 2, True, 1500), (3, 3, 2, False, None),
                        (1, 2, 3, True, 1500), (2, 3, 3, False, None),
                        (1, 3, 4, True, 1500), (2, 4, 4, False, None), (3, 3, 4, False, None)]
        else:
            for na in range(1, 5):
                for nf in range(1, 5):
                    for style in range(4):
                        xyz_plan.append((na, nf, style, na * nf <= 4, 20000))
                    for style in range(3):
                        lmp_plan.append((na, nf, style, na * nf <= 2, 20000))
            lmp_plan += [(12, 2, 0, False, None), (11, 3, 1, False, None)]
            lmp_plan += [(na, nf, 3, na * nf <= 2, 20000) for na in range(1, 4) for nf in range(1, 4)]
            lmp_plan += [(na, nf, 4, na * nf <= 2, 20000) for na in range(1, 4) for nf in range(1, 5)]
        # carriage-return classes (since /repo d5ef98e): xyz style 4 = compact + CRLF, 5 = random blanks + mixed line
        # ends and lone '\r'; LAMMPS style 5 = compact + CRLF, 6 = trailing blanks + mixed line ends and lone '\r'
        if ctx.quick:
            xyz_plan += [(1, 2, 4, True, 1500), (2, 3, 5, False, None), (1, 2, 5, True, 1500)]
            lmp_plan += [(1, 2, 5, True, 1200), (2, 3, 6, False, None), (1, 2, 6, True, 1200)]
        else:
            xyz_plan += [(na, nf, st, na * nf <= 2, 20000) for na in range(1, 4) for nf in range(1, 4) for st in (4, 5)]
            lmp_plan += [(na, nf, st, na * nf <= 2, 20000) for na in range(1, 4) for nf in range(1, 4) for st in (5, 6)]
        pool = []
        for j, (na, nf, style, pairs, mp) in enumerate(xyz_plan):
            if style in (4, 5):
                text, frames, bounds = gen_xyz(rng, na, nf, 0 if style == 4 else 2)
                text, bounds = with_cr(rng, text, bounds, "crlf" if style == 4 else "mixed")
            else:
                text, frames, bounds = gen_xyz(rng, na, nf, style)
            pool.append(("xyz", text, frames, bounds, None))
            seqs = cut_seqs(blen(text), pairs, rng, mp) + extra_seqs(blen(text), bounds, rng)
            check_text(ctx, ep, rf, "xyz", text, frames, bounds, seqs, f"xyz{j}:{na}x{nf}:s{style}")
            if j < 2:
                ctx.sample({"kind": "xyz", "text": text, "n_cut_sequences": len(seqs)})
        # atom counts with two and three digits (a cut can fall strictly inside the digits of a count line — also of the
        # very first one — and the same reader object is polled again afterwards): every single cut on the small files,
        # on the large one every cut in the first 260 bytes, every 53rd beyond, and +-2 around every frame boundary
        big_plan = [(12, 2, 1), (10, 3, 0)] + ([(104, 2, 1)] if ctx.quick else [(104, 2, 1), (100, 3, 2), (23, 3, 3)])
        for j, (na, nf, style) in enumerate(big_plan):
            text, frames, bounds = gen_xyz(rng, na, nf, style)
            T = blen(text)
            if T <= 1600:
                seqs = cut_seqs(T, False)
            else:
                cs = set(range(0, 260)) | set(range(0, T + 1, 53)) | {T}
                for b in bounds:
                    cs |= {c for c in range(b - 2, b + 12) if 0 <= c <= T}
                seqs = [[c, T, T, T] for c in sorted(cs)]
            seqs += extra_seqs(T, bounds, rng, n_multi=4)
            check_text(ctx, ep, rf, "xyz", text, frames, bounds, seqs, f"xyzbig{j}:{na}x{nf}:s{style}")
        for j, (na, nf, style, pairs, mp) in enumerate(lmp_plan):
            if style in (5, 6):
                text, frames, bounds = gen_lmp(rng, na, nf, 0 if style == 5 else 3)
                text, bounds = with_cr(rng, text, bounds, "crlf" if style == 5 else "mixed")
            else:
                text, frames, bounds = gen_lmp(rng, na, nf, style)
            sl = lmp_slacks(text, bounds)
            pool.append(("lmp", text, frames, bounds, sl))   # trailing-blank classes included since fix dfb19e7
            seqs = cut_seqs(blen(text), pairs, rng, mp) + extra_seqs(blen(text), bounds, rng)
            if max(sl) > 1:         # every cut inside the white space behind every frame's last id, in pairs too
                T = blen(text)
                ins = [c for c in range(T + 1) if in_slack(c, bounds, sl)]
                seqs += [[a, b, T, T] for a in ins for b in ins if a <= b][:400]
                seqs += [[a, a + 1, a + 2, T, T] for a in ins]
            check_text(ctx, ep, rf, "lmp", text, frames, bounds, seqs, f"lmp{j}:{na}x{nf}:s{style}",
                       trailing=(sl if max(sl) > 1 else 0))
            if j < 1:
                ctx.sample({"kind": "lammpstrj", "text": text, "n_cut_sequences": len(seqs)})

        # malformed stream (complete files only: every line newline-terminated, so asIs == repaired)
        if ctx._driver_ok:
            bad_x = ["x\nc\nH 1 2 3\n", "2\nc\nH 1 2\nH 1 2 3\n", "1\nc\nH 1 2 e5\n", "\n1\nc\nH 1 2 3\n",
                     "1\nc\nH 1 2 3\n2\nc\nH 1 2 3\nH 4 5 6\n", "-1\nc\nH 1 2 3\n", "0\nc\n0\nc\n"]
            for t in bad_x:
                seqs = [[len(t), len(t)]]
                code = [show_code_stage(s, "xyz") for s in rf.polls(ep, ep.xyz_reader, t.encode(), seqs[0], conv_xyz)]
                for v in ("asIs", "repaired"):
                    m = canon_model(drive_model(ctx, f"xyz {v} {hexs(t)}", seqs)[0])
                    ctx.count(1, branch="xyz:malformed")
                    if code != m:
                        ctx.disagree({"fn": f"xyz_reader malformed vs model {v}", "text": t}, code, m)
            good = gen_lmp(rng, 2, 1, 0)[0]
            bad_l = [good.replace("\n2\n", "\nx\n", 1), good.replace("\n2\n", "\n1\n", 1),
                     good.replace("\n2\n", "\n-2\n", 1), good.replace("ITEM: ATOMS", "1 2 3 4\nITEM: ATOMS", 1),
                     good.replace("\n2\n", "\n3\n", 1), "\n" + good, good.replace("\n1 ", "\n0 ", 1)]
            for t in bad_l:
                seqs = [[len(t), len(t)]]
                code = [show_code_stage(s, "lmp") for s in rf.polls(ep, ep.lammpstrj_reader, t.encode(), seqs[0], conv_lmp)]
                m = canon_model(drive_model(ctx, f"lmp {hexs(t)}", seqs)[0])
                ctx.count(1, branch="lmp:malformed")
                if code != m:
                    ctx.disagree({"fn": "lammpstrj_reader malformed vs model", "text": t}, code, m)

        check_interleaved(ctx, ep, tmpdir, pool)
        from props import c13_ext
        c13_ext.check_states(ctx, ep, tmpdir, pool, (show_code_stage, canon_model, fl_rows,
                                                     {"xyz": conv_xyz, "lmp": conv_lmp}))
        check_trr_header(ctx)
        c13_ext.check_trr_data(ctx)
        ntrr = check_trr(ctx, tmpdir)
        ctx.extra["trr_schedules"] = ntrr
        ctx.extra["signatures_failing"] = ctx.extra.pop("_c13_reported", [])
    finally:
        shutil.rmtree(tmpdir, ignore_errors=True)
    ctx.exhaustive = False
    ctx.extra["exhaustive_part"] = ("per generated trajectory: all single cut points; all pairs of cut points for the "
                                    "small trajectories (sampled above the stated cap)")
    new_assumptions = [
        "text is modelled as bytes with '\\n' as the only structural byte; UTF-8 multi-byte characters are allowed in "
        "the free-text places (xyz comment line and atom names, LAMMPS header texts and type token) and cuts inside "
        "them are enumerated; '\\r' is an ordinary blank since /repo d5ef98e (open with newline='\\n': only '\\n' ends a "
        "line) — CRLF and lone-'\\r' classes are generated for both readers and the enforced predicate "
        "C13:text:carriage-return runs at every cut of three witness files; excluded: non-ASCII Unicode whitespace "
        "(U+0085, U+00A0, U+2000.., U+3000: str.split() would split there, the byte model does not), and a locale "
        "whose encoding is not UTF-8",
        "constant atom count over a trajectory (the readers learn N only from the first frame of each poll)",
        "LAMMPS atom lines may end in any white space before the newline (what dump custom writes: 'id \\n'; generator "
        "classes: the same white space on every line, and a different one on every line and frame, every cut; a frame "
        "may be returned while at most the white space and the newline behind the trailing id of its LAST atom line "
        "are missing — its slack —, never a byte of a value). Lean: exactness for EVERY cut list and any slack "
        "(lmp_exact_any_slack: poll by poll the per-frame-slack specification lmpStagesS; "
        "lmp_safety_complete_any_slack, lmp_no_frame_withheld_any_slack); the older one-byte-lag specification lmpStages (lmp_exact, "
        "*_trailing_partial) is compared too where its cut guard tbFree holds. The position specification "
        "lmpStagesPosS (current_position after every poll, any slack) is judged by the tie on every schedule; its "
        "Lean theorem exists for slack 1 / under tbFree only (rp_lmp_exact_pos[_trailing_partial]). The old "
        "late-newline rule (finding C13:lammps:trailing-blank-late-newline, fixed by /repo dfb19e7) is the model's asIs "
        "variant, kept as a record (lmp_trailing_blank_counterexample; corpus witness)",
        "number tokens restricted to [+-]digits[.digits][e[+-]digits] (no inf/nan/underscores); float()/numpy "
        "string-to-double conversion assumed correctly rounded and identical",
        "TRR: the Lean model is the whole get_gromacs_frames generator at byte level (gGen: size guards, read_trr_header, "
        "get_data/read_trr_data block layout for all 64 presence combinations and both precisions, bytes_read next to the "
        "file pointer, swallowed EOFErrors, read_remaining_trr); theorems for well-formed files: one precision per file "
        "(equal header sizes <= TRR_HEAD_SIZE), header ints < 2^31, every announced block has the size of its reals; the "
        "decoded reals are compared bit-for-bit by the tie only, on struct-written frames; on files that end inside a "
        "frame or are damaged only model = code is checked (there read_remaining_trr raises struct.error: GROMACS has "
        "exited normally, so the property does not speak about that state); reopen_file with a really replaced inode is "
        "not generated",
        "xyz: the model variant `repaired` IS xyz_reader as it is now (since /repo 807db24): xyz_repaired_exact is the "
        "unrestricted theorem about the current code; the variant `asIs` (code as it was found) is kept as a record and "
        "its theorems hold only for cuts at line ends (xyz_safety_partial)",
    ]
    new_assumptions += [
        "object-state scenarios (one reader over long schedules, two readers/runners alive at once, file name reused "
        "by a new reader, returned arrays poisoned after copying) are tie-only: the Lean model is a function of "
        "(content, position), it has no object identity to leak",
        "one reader object per trajectory, as the engines use it; re-using the SAME reader after the file was "
        "truncated/replaced/removed is not promised by the property: such file-state sequences are generated and "
        "compared with the object model rpRun (frames, current_position, previous_position, error kinds); the only "
        "predicate there is rp_poll_short_file (a file not reaching beyond current_position is inert)",
        "for a file that does not exist yet read_and_process_content returns a bare [] (also for the LAMMPS reader, "
        "whose normal result is a pair): taken as 'no frames'; the LAMMPS engine waits for the file before polling",
        "a reader that never returns from one call (infinite loop inside a poll) is only stopped by the framework's "
        "wall-clock limit (exit 2); all loops driven by the harness itself are bounded (TRR: 64 idle polls, "
        "1000 frames, 5000 alternations)",
    ]
    for a in new_assumptions:      # run() may be called again with further seeds
        if a not in ctx.assumptions:
            ctx.assumptions.append(a)


def replay(ctx, obj):
    ep = _imports()
    r = obj.get("replay", {})
    tmpdir = tempfile.mkdtemp(prefix="verif-c13-", dir="/var/tmp")
    try:
        if r.get("kind") in ("xyz", "lmp"):
            rf = RealFile(tmpdir)
            kind = r["kind"]
            fn = ep.xyz_reader if kind == "xyz" else ep.lammpstrj_reader
            conv = conv_xyz if kind == "xyz" else conv_lmp
            stages = rf.polls(ep, fn, r["text"].encode(), r["cuts"], conv)
            frames = r["frames"] if kind == "xyz" else [tuple(f) for f in r["frames"]]
            if kind == "xyz":
                bad = pred_xyz(stages, r["cuts"], frames, r["bounds"])
            else:   # per-frame slack: recorded, or read off the text (white space behind each frame's last id)
                sl = r.get("slack") or lmp_slacks(r["text"], r["bounds"])
                bad = (pred_lmp(stages, r["cuts"], frames, r["bounds"], sl)
                       or pred_lmp_spec(stages, r["cuts"], frames, r["bounds"],
                                        sl if isinstance(sl, list) else [sl] * len(frames)))
            for k, s in enumerate(stages):
                print(f"poll {k} visible={r['cuts'][k]}:", show_code_stage(s, kind))
            print("predicate:", bad)
            return 1 if bad else 0
        if r.get("kind") == "trr":
            trace = []
            out = trr_run(tmpdir, bytes.fromhex(r["data"]), r["schedule"], trace)
            bad = trr_ticks(trace)[2]
            print("last:", out[-1] if out else out, "| frames yielded:", sum(1 for s in out if not isinstance(s, str)),
                  "of", r["nframes"], "| short reads:", bad[:2])
            return 1 if bad or any(isinstance(s, str) for s in out) or len(out) != r["nframes"] else 0
        if r.get("kind") == "trrhdr":
            import io
            from infretis.classes.engines import gromacs as gm
            hd, n = gm.read_trr_header(io.BytesIO(bytes.fromhex(r["bytes"])))
            ds = sum(hd[k] for k in gm.TRR_DATA_ITEMS)
            return 0 if (n, ds, hd["endian"], hd["double"]) == (r["hsize"], r["dsize"], r["endian"], r["double"]) else 1
        if r.get("kind") == "absent":
            r0 = ep.ReadAndProcessOnTheFly(os.path.join(tmpdir, "absent.xyz"), ep.xyz_reader)
            try:
                return 0 if r0.read_and_process_content() == [] else 1
            except Exception:  # noqa: BLE001
                return 1
    finally:
        shutil.rmtree(tmpdir, ignore_errors=True)
    print(obj)
    return 1
