"""C13, extension pass: tie for the models of lean/Infretis/Model/ReadersObj.lean.

  A. `ReadAndProcessOnTheFly` as an object: `current_position` AND `previous_position` after every poll against
     `rpRun` (driver ops rpx / rpl), the position specs `exactStagesPos` / `lmpStagesPos` (xspecp / lspecp) against
     the implementation, and one reader object on ARBITRARY file states (absent, grown, truncated, replaced by
     another trajectory, removed, regrown) against `rpRun` (op rpf).
  B. TRR at byte level: `read_trr_header` + `get_data`/`read_trr_data` on header+payload bytes for all 64 presence
     combinations × both precisions × both byte orders, complete and truncated (op trrdata), and the whole
     `get_gromacs_frames` generator — guards, reads with offsets and lengths, yields with the raw blocks, swallowed
     EOFErrors, exceptions, the unguarded final phase `read_remaining_trr` — against `gGen` (op gmx).
"""
from __future__ import annotations

import io
import itertools
import os
import struct

from common import err_kind, hexs, lst

MOD = 1000000007


_HASH_CACHE = {}


def hash_bytes(bs: bytes) -> int:
    bs = bytes(bs)
    a = _HASH_CACHE.get(bs)
    if a is None:
        a = 7
        for b in bs:
            a = (a * 257 + b + 1) % MOD
        if len(_HASH_CACHE) > 20000:
            _HASH_CACHE.clear()
        _HASH_CACHE[bs] = a
    return a


def enc_ev(c):
    """-1 (file absent) -> 0, c bytes visible -> c + 1"""
    return 0 if c < 0 else c + 1


def drive(ctx, head, seqs, chunk=300):
    out, lines = [], []
    for i in range(0, len(seqs), chunk):
        part = seqs[i:i + chunk]
        lines.append(f"{head} {len(part)} " + " ".join(lst(s) for s in part))
    for ans in ctx.driver(lines):
        out += ans.split(" # ")
    return out


def report_once(ctx, sig, what, replay):
    seen = ctx.extra.setdefault("_c13_reported", [])
    if sig not in seen:
        seen.append(sig)
        ctx.fail(sig, what, replay)


# ----------------------------------------------------------------------------- A. the reader object
def obj_code_stage(stage, prev, show_code_stage, kind):
    if isinstance(stage, str):
        return "!" + stage.split(":", 1)[1]
    body = show_code_stage(stage, kind).partition(":")[2]
    return f"{stage[0]},{prev}:{body}"


def compare_object(ctx, kind, data, text, seqs, code, prevs, lens, frames, label, helpers, slack=0, bounds=()):
    """code: per schedule the stage list [(cur, frames) | 'err:..']; prevs: per schedule the previous_position
    after every poll that returned"""
    show_code_stage, canon_model, fl_rows = helpers
    # every schedule that is not a plain pair (c1, c2, T, T, T); of those every fourth (quick) / every second (thorough)
    T = len(data)
    every = 4 if ctx.quick else 2
    keep = [j for j, sq in enumerate(seqs)
            if not (len(sq) == 5 and sq[2:] == [T, T, T] and sq[0] < sq[1]) or j % every == 0]
    seqs, code, prevs = [seqs[j] for j in keep], [code[j] for j in keep], [prevs[j] for j in keep]
    evs = [[enc_ev(c) for c in sq] for sq in seqs]
    code_s = [[obj_code_stage(s, (pv[j] if j < len(pv) else None), show_code_stage, kind) for j, s in enumerate(st)]
              for st, pv in zip(code, prevs)]
    if kind == "xyz":
        models = {"repaired": [canon_model(r) for r in drive(ctx, f"rpx repaired {hexs(data)}", evs)]}
        if not all(c == mm for c, mm in zip(code_s, models["repaired"])):
            models["asIs"] = [canon_model(r) for r in drive(ctx, f"rpx asIs {hexs(data)}", evs)]
        spec = drive(ctx, f"xspecp {lst(lens)}", evs)
    else:
        models = {"repaired": [canon_model(r) for r in drive(ctx, f"rplv repaired {hexs(data)}", evs)]}
        if not all(c == mm for c, mm in zip(code_s, models["repaired"])):
            models["asIs"] = [canon_model(r) for r in drive(ctx, f"rplv asIs {hexs(data)}", evs)]
        # per-frame-slack position specification lmpStagesPosS: judged on EVERY schedule (no cut guard)
        sl = slack if isinstance(slack, list) else [1] * len(lens)
        spec = drive(ctx, "lspecps " + lst([x for pr in zip(lens, sl) for x in pr]), evs)
        spec_old = drive(ctx, f"lspecp {lst(lens)}", evs)
    agreeing = [v for v, m in models.items() if all(c == mm for c, mm in zip(code_s, m))]
    ctx.count(len(seqs), branch=f"{kind}:object-positions-vs-rpRun")
    if agreeing:
        ctx.hit(f"{kind}:object-agrees-with-model={agreeing[0]}")
    if "repaired" not in agreeing:     # the code as it is now is the variant `repaired`; `asIs` is a record only
        v0 = "repaired"
        for sq, c, m in zip(seqs, code_s, models[v0]):
            if c != m:
                ctx.disagree({"fn": f"ReadAndProcessOnTheFly({kind}) current/previous_position vs rpRun[{v0}]",
                              "label": label, "text": text, "cuts": sq}, c, m)
                break
    # the position spec (right-hand side of rp_xyz_exact_pos / rp_lmp_exact_pos) against the implementation
    exp_fr = ([fl_rows(f) for f in frames] if kind == "xyz" else [(fl_rows(c), fl_rows(b)) for c, b in frames])
    jobs = list(zip(seqs, code, spec))
    if kind != "xyz":
        # the one-byte-lag specification lmpStagesPos (rp_lmp_exact_pos[_trailing_partial]) where its guard holds
        jobs += [(sq, st, sp) for sq, st, sp in zip(seqs, code, spec_old)
                 if not any(bounds[i + 1] - sl[i] <= c <= bounds[i + 1] - 2 for c in sq for i in range(len(sl)))]
    for sq, st, sp in jobs:
        want = []
        for s in sp.split(" | "):
            pos, _, idx = s.strip().partition(":")
            want.append((int(pos), [exp_fr[int(i)] for i in idx.split(",") if i.strip()]))
        got = [s if isinstance(s, str) else (s[0], s[1]) for s in st]
        if got != want:
            k = next((j for j, (g, w) in enumerate(zip(got, want)) if g != w), min(len(got), len(want)))
            g = got[k] if k < len(got) else None
            w = want[k] if k < len(want) else None
            what = (f"poll {k}: " + (f"raised {g}" if isinstance(g, str) else
                    f"current_position {g[0] if g else None} with {len(g[1]) if g else None} frame(s) returned; the "
                    f"frames completely on disk put it at {w[0] if w else None} with {len(w[1]) if w else None} frame(s)"))
            sig = f"C13:{'xyz' if kind == 'xyz' else 'lammps'}:position-or-frames-not-as-specified"
            ctx.hit(f"{kind}:predicate-fails:{sig}")
            report_once(ctx, sig, f"{kind} reader object, {what}",
                        {"kind": kind, "text": text, "cuts": sq, "stage": k, "frames": frames,
                         "bounds": list(itertools.accumulate([0] + lens))})


def run_states(ep, path, fn, conv, states):
    """one reader object; before every poll the file is made to be exactly `states[k]` (None = removed)"""
    if os.path.exists(path):
        os.remove(path)
    reader = ep.ReadAndProcessOnTheFly(path, fn)
    out = []
    for s in states:
        if s is None:
            if os.path.exists(path):
                os.remove(path)
        else:
            with open(path, "wb") as fh:
                fh.write(s)
        before = (reader.current_position, reader.previous_position)
        try:
            res = reader.read_and_process_content()
            fr = conv(res)
        except Exception as e:  # noqa: BLE001
            out.append((before, err_kind(e)))
            break
        out.append((before, (reader.current_position, reader.previous_position, fr)))
    return out


def gen_states(rng, pool_kind):
    """file states of one name over time: growth of A, truncation, removal, replacement by B, regrowth"""
    a = rng.choice(pool_kind)[1].encode()
    b = rng.choice(pool_kind)[1].encode()
    states = []
    cur = a
    n = 0
    for _ in range(rng.randrange(3, 9)):
        r = rng.random()
        if r < 0.45:
            n = rng.randrange(n, len(cur) + 1)                       # growth
        elif r < 0.6:
            n = rng.randrange(0, n + 1)                              # truncation
        elif r < 0.7:
            states.append(None)                                      # removed
            continue
        elif r < 0.85:
            cur = b if cur is a else a                               # replaced by another trajectory
            n = rng.randrange(0, len(cur) + 1)
        else:
            n = len(cur)
        states.append(cur[:n])
    if rng.random() < 0.5:
        states += [cur, cur]
    return states


def check_states(ctx, ep, tmpdir, pool, helpers):
    show_code_stage, canon_model = helpers[0], helpers[1]
    rng = ctx.rng
    path = os.path.join(tmpdir, "states.txt")
    n = 150 if ctx.quick else 3000
    jobs = []
    for kind in ("xyz", "lmp"):
        pk = [p for p in pool if p[0] == kind]
        if not pk:
            continue
        fn = ep.xyz_reader if kind == "xyz" else ep.lammpstrj_reader
        for _ in range(n):
            states = gen_states(rng, pk)
            out = run_states(ep, path, fn, helpers[3][kind], states)
            jobs.append((kind, states, out))
            # predicate (rp_poll_short_file): a poll that finds the file absent, or not longer than
            # current_position, returns nothing, moves nothing and does not raise
            for s, (before, res) in zip(states, out):
                if s is None or len(s) <= before[0]:
                    ctx.count(1, branch=f"{kind}:states:absent-or-not-beyond-position")
                    if isinstance(res, str) or res[2] != [] or (res[0], res[1]) != before:
                        report_once(ctx, "C13:reader:poll-of-short-file-not-inert",
                                    f"{kind} reader with current_position {before[0]} polled a file of "
                                    f"{'no' if s is None else len(s)} bytes: {res if isinstance(res, str) else res[:2]}",
                                    {"kind": "states", "reader": kind,
                                     "states": [None if x is None else x.hex() for x in states]})
    if not ctx._driver_ok:
        return
    lines = []
    for kind, states, _ in jobs:
        lines.append(f"rpf {'x-repaired' if kind == 'xyz' else 'l'} {len(states)} "
                     + " ".join("~" if s is None else hexs(s) for s in states))
    alt = [f"rpf {'x-asIs' if kind == 'xyz' else 'l-asIs'} {len(states)} "
           + " ".join("~" if s is None else hexs(s) for s in states) for kind, states, _ in jobs]
    ans = ctx.driver(lines)
    ans_alt = iter(ctx.driver(alt)) if alt else iter(())
    agree = {"xyz": [True, True], "lmp": [True, True]}     # [repaired everywhere, asIs everywhere]
    first = {}
    for (kind, states, out), a in zip(jobs, ans):
        code = []
        for _before, res in out:
            code.append("!" + res.split(":", 1)[1] if isinstance(res, str)
                        else f"{res[0]},{res[1]}:" + show_code_stage((0, res[2]), kind).partition(":")[2])
        ctx.count(1, branch=f"{kind}:states-vs-rpRun")
        ctx.distinct(("states", kind, tuple(states)))
        m = canon_model(a)
        m2 = canon_model(next(ans_alt))
        if code != m:
            agree[kind][0] = False
            first.setdefault(kind, (states, code, m))
        if code != m2:
            agree[kind][1] = False
    for kind in ("xyz", "lmp"):
        if not agree[kind][0] and kind in first:      # the code as it is now = variant repaired
            ctx.disagree({"fn": f"{kind} reader object on arbitrary file states vs rpRun (variant repaired"
                          + ("; agrees with the recorded variant asIs)" if agree[kind][1] else ")"),
                          "states": [None if x is None else x.decode("utf-8", "replace") for x in first[kind][0]]},
                         first[kind][1], first[kind][2])


# ----------------------------------------------------------------------------- B. TRR data layout
KEYS6 = ["box", "vir", "pres", "x", "v", "f"]
HKEYS = ["ir_size", "e_size", "box_size", "vir_size", "pres_size", "top_size", "sym_size", "x_size", "v_size",
         "f_size"]


def raw_header(endian, double, sizes6, natoms, step=3):
    """header bytes with the six data size fields given verbatim (consistent or not)"""
    fc = "d" if double else "f"
    vals = {k: 0 for k in HKEYS}
    for k, s in zip(KEYS6, sizes6):
        vals[k + "_size"] = s
    h = struct.pack(endian + "1i", 1993) + struct.pack(endian + "2i", 13, 12) + struct.pack(endian + "12s", b"GMX_trn_file")
    h += struct.pack(endian + "13i", *[vals[k] for k in HKEYS], natoms, step, 0)
    h += struct.pack(endian + "2" + fc, step * 0.5, 0.0)
    return h


class _RecIO(io.BytesIO):
    def __init__(self, b):
        super().__init__(b)
        self.reads = []

    def read(self, n=-1):
        off = self.tell()
        buf = super().read(n)
        self.reads.append((off, n, len(buf)))
        return buf


def struct_kind(e):
    if isinstance(e, EOFError):
        return "eof"
    if isinstance(e, struct.error):
        return "struct"
    if isinstance(e, ZeroDivisionError):
        return "zerodiv"
    if isinstance(e, ValueError):
        return "value"
    return "other:" + type(e).__name__


def code_trrdata(gm, bs: bytes):
    f = _RecIO(bs)
    try:
        hd, n = gm.read_trr_header(f)
    except Exception as e:  # noqa: BLE001
        return "hdr:" + struct_kind(e), None
    ds = sum(hd[k] for k in gm.TRR_DATA_ITEMS)
    start = f.tell()
    f.reads = []
    try:
        data, nb = gm.get_data(f, hd)
    except Exception as e:  # noqa: BLE001
        return f"err:{struct_kind(e)} {ds} {f.tell() - start}", (hd, ds, None)
    blocks = ",".join(f"{KEYS6.index(k)}:{r[1]}:{hash_bytes(bs[r[0]:r[0] + r[1]])}" for k, r in zip(data.keys(), f.reads))
    return f"ok {ds} {f.tell() - start} {blocks}", (hd, ds, nb)


def check_trr_data(ctx):
    from infretis.classes.engines import gromacs as gm
    rng = ctx.rng
    cases = []      # (bytes, wellformed?, header length, payload length)
    for endian, double in itertools.product("<>", (False, True)):
        fs = 8 if double else 4
        for flags in itertools.product((0, 1), repeat=6):
            if not any(flags):
                continue
            na = rng.randrange(1, 9)
            sizes = [f * (9 * fs if j < 3 else 3 * na * fs) for j, f in enumerate(flags)]
            h = raw_header(endian, double, sizes, na)
            pay = bytes(rng.randrange(256) for _ in range(sum(sizes)))
            cases.append((h + pay + bytes(rng.randrange(256) for _ in range(rng.randrange(0, 6))), True, len(h), len(pay)))
            cuts = {0, 1, len(pay) - 1}
            for c in itertools.accumulate(sizes):
                cuts |= {c - 1, c, c + 1}
            picks = sorted(c for c in cuts if 0 <= c < len(pay))
            if ctx.quick and len(picks) > 4:
                picks = rng.sample(picks, 4)
            for c in picks:
                cases.append((h + pay[:c], True, len(h), c))
        # inconsistent headers: precision taken from the box, another block sized for the other precision; natoms 0
        # or negative with coordinate blocks; sizes that are not a multiple
        na = 5
        of = 4 if double else 8
        for sizes, n_at in (([9 * fs, 0, 0, 3 * na * of, 0, 0], na), ([9 * fs, 0, 0, 3 * na * fs, 7, 0], na),
                            ([9 * fs, 0, 0, 3 * fs, 0, 0], 0), ([9 * fs, 0, 0, 3 * fs, 0, 0], -1),
                            ([9 * fs, 9 * of, 0, 0, 0, 0], na), ([0, 0, 5, 3 * na * fs, 0, 0], na),
                            ([0, 9 * fs, 0, 3 * na * fs, 0, 0], na)):
            h = raw_header(endian, double, sizes, n_at)
            for extra in (0, 10, 200, 1000):
                cases.append((h + bytes(rng.randrange(256) for _ in range(extra)), False, len(h), extra))
    code = []
    for bs, wf, hl, pl in cases:
        c, info = code_trrdata(gm, bs)
        code.append(c)
        ctx.count(1, branch="trr:data-layout:" + c.split()[0])
        if wf and info is not None:
            hd, ds, nb = info
            # predicate: the data are returned iff all ds payload bytes are there; then exactly ds bytes are consumed
            ok = c.startswith("ok")
            if ok != (pl >= ds) or (ok and (int(c.split()[2]) != ds or nb != ds)):
                report_once(ctx, "C13:trr:data-layout",
                            f"header announces {ds} data bytes, {pl} are there: get_data gave '{c[:60]}'",
                            {"kind": "trrdata", "bytes": bs.hex(), "hlen": hl})
    if ctx._driver_ok:
        model = ctx.driver([f"trrdata {hexs(bs)}" for bs, *_ in cases])
        nd = 0
        for (bs, *_), c, m in zip(cases, code, model):
            cc, mm = c, m
            if c.startswith("err:struct") and m.startswith("err:struct"):
                cc, mm = " ".join(c.split()[:2]), " ".join(m.split()[:2])   # file position after struct.error: unused
            if cc != mm and nd < 3:
                nd += 1
                ctx.disagree({"fn": "read_trr_header+get_data vs trrHeader+trrData", "bytes": bs.hex()}, c, m)


# ----------------------------------------------------------------------------- B. the whole generator
def gmx_events(trace, out, data):
    """the real trace (size / read / yield records) in the event alphabet of the Lean model `gGen`"""
    evs = []
    tick = None          # running phase: {"size": s, "reads": [(off, req, got)]}
    final = None         # final phase: reads since the last yield
    last_kind = None

    def blocks(keys, reads):
        rs = reads[len(reads) - len(keys):] if keys else []
        return "y:" + ",".join(f"{KEYS6.index(k)}:{r[1]}:{hash_bytes(data[r[0]:r[0] + r[1]])}" for k, r in zip(keys, rs))

    def flush():
        nonlocal tick, last_kind
        if tick is None:
            return
        rs = tick["reads"]
        if not rs:
            evs.append("w")
            last_kind = "w"
        elif any(g == 0 for _, _, g in rs):
            evs.append("s")
            last_kind = "t"
        else:
            evs.append(f"r:{rs[0][0]}:{sum(r[1] for r in rs)}:{tick['size']}")
            last_kind = "t"
        tick = None

    for ev in trace:
        if ev[0] == "size":
            flush()
            if ev[2]:
                tick = {"size": ev[1], "reads": []}
            elif final is None:
                final = []
        elif ev[0] == "read":
            _, off, req, got, _vis, _running = ev
            if final is not None:
                final.append((off, req, got))
            elif tick is not None:
                tick["reads"].append((off, req, got))
        else:   # yield
            keys = ev[1]
            if final is not None:
                evs.append(f"r:{final[0][0]}:{sum(r[1] for r in final)}:{len(data)}")
                evs.append(blocks(keys, final))
                final = []
            elif tick is not None:
                rs = tick["reads"]
                flush()
                evs.append(blocks(keys, rs))
    if final is None:
        flush()
    died = out and isinstance(out[-1], str) and out[-1] not in ("spin",)
    if died:
        kind = out[-1].split(":", 1)[1]
        kind = "struct" if kind.startswith("other:error") else kind
        if final is None and evs and last_kind == "t" and not evs[-1].startswith("y:"):
            evs.pop()
        evs.append("!" + kind)
    elif out and out[-1] == "spin":
        evs.append("spin")
    return evs


def gmx_sizes(trace):
    return [ev[1] for ev in trace if ev[0] == "size" and ev[2]]


def compare_gmx(ctx, label, items):
    """items: (file bytes at the end, schedule, real events, sizes)"""
    if not ctx._driver_ok or not items:
        return
    # every special schedule; of the plain [c, T] ones every third (quick) / every second (thorough)
    every = 3 if ctx.quick else 2
    items = [it for j, it in enumerate(items) if len(it[1]) != 2 or j % every == 0]
    by_file = {}
    for it in items:
        by_file.setdefault(it[0], []).append(it)
    ndis = 0
    lines, parts = [], []
    for data, its in by_file.items():
        for i in range(0, len(its), 200):
            part = its[i:i + 200]
            parts.append(part)
            lines.append(f"gmx {hexs(data)} {len(part)} " + " ".join(lst(it[3]) for it in part))
    for part, answer in zip(parts, ctx.driver(lines)):
        for it, a in zip(part, answer.split(" # ")):
            ctx.count(1, branch="trr:generator-vs-gGen")
            m = a.split()
            if m != it[2] and ndis < 2:
                ndis += 1
                k = next((j for j, (x, y) in enumerate(zip(it[2], m)) if x != y), min(len(m), len(it[2])))
                ctx.disagree(dict(label, fn="get_gromacs_frames (whole generator) vs gGen", schedule=it[1][:20],
                                  first_difference=k), it[2][max(0, k - 3):k + 4], m[max(0, k - 3):k + 4])
