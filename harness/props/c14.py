"""C14 — stored paths read back unchanged; live paths never lose files.

Tie, part A (codec): the real `PathStorage().output` + `load_path` on generated paths with real
(tiny) trajectory files against `Infretis.Store.store` / `load` at token level, plus a stream of
damaged archives (missing files, torn rows, non-numeric tokens) through `load_path`.
Tie, part B (deletion): the real `REPEX_state.treat_output` with the real PathStorage driven
through accept/reject histories for every (delete_old, delete_old_all, keep_traj_fnames)
combination and 2..5 ensembles; after every call the files below load/, the live set, the
pn_olds queue and restart.toml's `active` are compared with `Infretis.Store.run`.
Part C: the real moves (shooting, wire fencing, zero swap) with TurtleMD through the real
scheduler with delete_old on: after every treat_output every live path must load.
The property predicates are evaluated on the implementation's own files, independent of the model.
"""
from __future__ import annotations

import contextlib
import copy
import itertools
import math
import os
import re
import shutil
import tempfile

from common import err_kind, hexs, lst

ROOT = "/var/tmp"
CORPUS_IN_RUN = True     # run() replays corpus/C14 itself (with model comparison)
SIG_RMDIR = "C14:delete_old_all:rmdir-nonempty-with-kept-files"


def _imports():
    import importlib.util  # noqa: F401
    import numpy as np
    from infretis.classes.formatter import PathStorage
    from infretis.classes.path import Path, load_path
    from infretis.classes.repex import REPEX_state
    from infretis.classes.system import System
    return np, PathStorage, Path, load_path, REPEX_state, System


def ekind(e):
    if isinstance(e, StopIteration):
        return "err:stop"
    return err_kind(e)


# --------------------------------------------------------------------------- tokens
INT_RE = re.compile(r"^-?[0-9]+$")
FIX_RE = re.compile(r"^-?[0-9]+\.[0-9]{6}$")


def classify(tok, first):
    """typed token of the model for one whitespace-separated token of a file"""
    if first and tok.startswith("#"):
        return "h" if tok == "#" else None
    if INT_RE.match(tok):
        return "i" + str(int(tok))
    if FIX_RE.match(tok):
        neg = tok.startswith("-")
        a, b = tok.lstrip("-").split(".")
        v = int(a) * 1000000 + int(b)
        return "f" + str(-v if neg else v)
    if tok == "nan":
        return "n"
    return "w" + hexs(tok)


def file_tokens(path):
    """None if absent, else list of lines, each a list of raw tokens (as load's strip/split sees them)"""
    if not os.path.isfile(path):
        return None
    with open(path, encoding="utf-8") as fh:
        return [ln.strip().split() for ln in fh]


def file_arg(lines):
    if lines is None:
        return "-"
    out = [str(len(lines))]
    for ln in lines:
        toks = [classify(t, k == 0) for k, t in enumerate(ln)]
        if any(t is None for t in toks):
            return None
        out.append(lst(toks))
    return " ".join(out)


# --------------------------------------------------------------------------- part A
def gen_path_case(rng, big=False):
    nfr = rng.choice([1, 1, 2, 3, 4, 5, 8, 13] + ([40] if big else []))
    nfiles = rng.randint(1, min(3, nfr))
    ndirs = rng.randint(1, 2)
    files = [(f"w{rng.randrange(ndirs)}", f"e{rng.randrange(100)}_{k}_traj{'BF'[k % 2]}.{rng.choice(['xyz', 'trr', 'lammpstrj'])}")
             for k in range(nfiles)]
    ncol = rng.choice([1, 1, 2, 3, 0]) if nfr > 1 else rng.choice([1, 2])
    pat = rng.choice(["blocks", "mixed"])
    frames = []
    for i in range(nfr):
        fi = (i * nfiles) // nfr if pat == "blocks" else rng.randrange(nfiles)
        d, b = files[fi]
        idx = rng.choice([None, 0, i, rng.randrange(0, 5000)]) if rng.random() < 0.3 else i
        order = [rng.choice([0, 1, -1, 999999, -1000000, 500000, rng.randrange(-10**7, 10**7), rng.randrange(-10**10, 10**10)])
                 for _ in range(ncol)]
        emode = rng.choice(["both", "both", "none", "mix"])
        if emode == "both":
            vp, ek = rng.randrange(-10**9, 10**9), rng.randrange(0, 10**9)
        elif emode == "none":
            vp, ek = None, None
        else:
            vp, ek = rng.choice([None, rng.randrange(-10**6, 10**6)]), rng.choice([None, 0, 123456])
        frames.append({"dir": d, "base": b, "idx": idx, "rev": rng.random() < 0.4, "order": order, "vpot": vp, "ekin": ek})
    gen = rng.choice([("sh", 0.5, 3, 10), ("wf", 1.25, 0, 7), ("s+", 0, 0, 0), ("ld", float("nan"), 0, 0), "ki"])
    return {"step": rng.randrange(0, 100000), "pn": rng.randrange(0, 500), "gen": gen, "frames": frames}


def build_path(case, root, Path, System):
    p = Path(maxlen=case.get("maxlen", 10000))
    made = set()
    for fr in case["frames"]:
        d = os.path.join(root, fr["dir"])
        os.makedirs(d, exist_ok=True)
        full = os.path.join(d, fr["base"])
        if full not in made:
            with open(full, "w") as fh:
                fh.write(f"content of {fr['dir']}/{fr['base']}\n")
            made.add(full)
        s = System()
        s.order, s.vpot, s.ekin = frame_floats(fr)
        s.config = (full, fr["idx"])
        s.vel_rev = fr["rev"]
        p.phasepoints.append(s)
    p.generated = case["gen"]
    p.path_number = case["pn"]
    p.status = "ACC"
    return p


def store_line(case):
    mv = str(case["gen"]).split()
    out = ["store", str(case["step"]), lst(mv, hexs), str(len(case["frames"]))]
    for fr in case["frames"]:
        out += [hexs(fr["dir"]), hexs(fr["base"]), "-" if fr["idx"] is None else str(fr["idx"]), "1" if fr["rev"] else "0",
                lst(fr["order"]), "-" if fr["vpot"] is None else str(fr["vpot"]), "-" if fr["ekin"] is None else str(fr["ekin"])]
    return " ".join(out)


def num_tok(x):
    if x is None:
        return "-"
    x = float(x)
    if math.isnan(x):
        return "nan"
    return str(round(x * 1e6))


def show_loaded(path, accdir):
    """canonical text of a reloaded path; also checks that every frame lives under accdir"""
    out = []
    for s in path.phasepoints:
        d, b = os.path.split(s.config[0])
        if os.path.normpath(d) != os.path.normpath(accdir):
            b = "OUTSIDE:" + s.config[0]
        out.append(f"{b},{s.config[1]},{1 if s.vel_rev else 0},{':'.join(num_tok(o) for o in s.order)},{num_tok(s.vpot)},{num_tok(s.ekin)}")
    return " ".join([str(len(out))] + out)


def roundtrip_predicate(case, path, accdir, root):
    """the property itself: same length, (basename, index, vel dir), energies where present, orders
    (exact by construction: float(f'{k/1e6:.6f}') == k/1e6), files exist under the path's own dir"""
    fr = case["frames"]
    if path.length != len(fr):
        return f"length {path.length} ≠ {len(fr)}"
    for i, (f, s) in enumerate(zip(fr, path.phasepoints)):
        d, b = os.path.split(s.config[0])
        if b != f["base"]:
            return f"frame {i}: file {b} ≠ {f['base']}"
        if os.path.normpath(d) != os.path.normpath(accdir):
            return f"frame {i}: {s.config[0]} not under {accdir}"
        if not os.path.isfile(s.config[0]):
            return f"frame {i}: {s.config[0]} does not exist"
        with open(s.config[0]) as fh:
            if fh.read() != f"content of {f['dir']}/{f['base']}\n":
                return f"frame {i}: {b} holds another file's content"
        if s.config[1] != (0 if f["idx"] is None else f["idx"]):
            return f"frame {i}: index {s.config[1]} ≠ {f['idx']}"
        if bool(s.vel_rev) != f["rev"]:
            return f"frame {i}: vel_rev {s.vel_rev} ≠ {f['rev']}"
        order, vpot, ekin = frame_floats(f)
        want = [six(o) for o in order]
        got = [float(o) for o in s.order]
        if len(got) != len(want) or not all(same_float(a, b) for a, b in zip(got, want)):
            return f"frame {i}: order {got} ≠ {want} (the six decimals written)"
        for key, val in (("vpot", vpot), ("ekin", ekin)):
            if val is not None and not math.isnan(val) and (getattr(s, key) is None or float(getattr(s, key)) != six(val)):
                return f"frame {i}: {key} {getattr(s, key)} ≠ {six(val)}"
    return None


# --------------------------------------------------------------------------- text level (characters)
NAMES3 = ("traj.txt", "order.txt", "energy.txt")


def frame_floats(fr):
    """the Python floats a frame of a case stands for: 'order'/'vpot'/'ekin' are integers k (the float k/1e6),
    'of'/'vf'/'kf' (if present) are float.hex() strings or None / 'nan' — used for values that are not k·10⁻⁶"""
    def one(h):
        return None if h is None else float("nan") if h == "nan" else float.fromhex(h)
    order = [one(h) for h in fr["of"]] if "of" in fr else [k / 1e6 for k in fr["order"]]
    vpot = one(fr["vf"]) if "vf" in fr else (None if fr["vpot"] is None else fr["vpot"] / 1e6)
    ekin = one(fr["kf"]) if "kf" in fr else (None if fr["ekin"] is None else fr["ekin"] / 1e6)
    return order, vpot, ekin


def fin(x):
    """a float as the text-level model takes it: NaN, or sign bit and exact magnitude"""
    from fractions import Fraction
    if x is None:
        return "-"
    x = float(x)
    if math.isnan(x):
        return "n"
    if math.isinf(x):
        return "+inf" if x > 0 else "-inf"
    fr = Fraction(abs(x))
    return ("-" if math.copysign(1.0, x) < 0 else "+") + f"{fr.numerator}/{fr.denominator}"


def six(x):
    """what the property demands of a reloaded number: the float of the six decimals written"""
    return float(f"{float(x):.6f}")


def same_float(a, b):
    return (math.isnan(a) and math.isnan(b)) or a == b


def fval_tok(x):
    """a loaded float as the text-level driver shows it: sign and magnitude ×10⁶"""
    if x is None:
        return "-"
    x = float(x)
    if math.isnan(x):
        return "nan"
    if math.isinf(x):
        return "+inf" if x > 0 else "-inf"
    return ("-" if math.copysign(1.0, x) < 0 else "+") + str(round(abs(x) * 1e6))


def show_loaded_t(path, accdir):
    out = []
    for s in path.phasepoints:
        d, b = os.path.split(s.config[0])
        if os.path.normpath(d) != os.path.normpath(accdir):
            b = "OUTSIDE:" + s.config[0]
        out.append(f"{hexs(b)},{s.config[1]},{1 if s.vel_rev else 0},{':'.join(fval_tok(o) for o in s.order)},{fval_tok(s.vpot)},{fval_tok(s.ekin)}")
    return " ".join([("-" if path.maxlen is None else str(path.maxlen)), str(len(out))] + out)


def raw_files(pdir):
    out = {}
    for n in NAMES3:
        f = os.path.join(pdir, n)
        if os.path.isfile(f):
            with open(f, "rb") as fh:
                out[n] = fh.read()
        else:
            out[n] = None
    return out


def hexb(b):
    return "-" if not b else b.hex()


def storeT_line(case, maxlen, deflim, fill="p"):
    out = ["storeT", "-" if maxlen is None else str(maxlen), "-" if deflim is None else str(deflim), fill,
           str(case["step"]), hexs(str(case["gen"])), str(len(case["frames"]))]
    for fr in case["frames"]:
        order, vpot, ekin = frame_floats(fr)
        out += [hexs(fr["dir"]), hexs(fr["base"]), "-" if fr["idx"] is None else str(fr["idx"]), "1" if fr["rev"] else "0",
                lst(order, fin), fin(vpot), fin(ekin)]
    return " ".join(out)


def loadT_line(acc, raw, deflim=None, fill="p"):
    return " ".join(["loadT", "-" if deflim is None else str(deflim), fill, lst(acc, hexs)]
                    + ["!" if raw[n] is None else hexb(raw[n]) for n in NAMES3])


def in_reader_domain(raw):
    """False if some token is accepted by Python's int()/float() but lies outside the model's reader domain
    (−?ASCII digits, −?digits.dddddd, nan, inf, -inf), or the bytes are not valid UTF-8 (Python: UnicodeDecodeError)"""
    import io
    for n in NAMES3:
        if raw[n] is None:
            continue
        try:
            text = raw[n].decode("utf-8")
        except UnicodeDecodeError:
            return False
        for line in io.StringIO(text, newline=None):
            sl = line.strip()
            if sl.startswith("#"):
                continue
            toks = sl.split()
            for k, t in enumerate(toks):
                if INT_RE.match(t) or FIX_RE.match(t) or t == "nan":
                    continue
                if n == "traj.txt" and k == 1:
                    continue
                if t in ("inf", "-inf") and not (n == "traj.txt" or k == 0):
                    continue        # float() columns only: int('inf') is a ValueError in model and code alike
                try:
                    float(t)
                    return False
                except ValueError:
                    pass
                try:
                    int(t)
                    return False
                except ValueError:
                    pass
    return True


def compare_text_store(ctx, case, raw, acc, moved, loaded_t, out_line, fn="storeT"):
    """byte-for-byte comparison of the three files with the text-level model, plus accepted/, the returned path and
    the reloaded path"""
    secs = dict((x[:1], x[2:].strip()) for x in out_line.split(" | "))
    for name, key in (("traj.txt", "T"), ("order.txt", "O"), ("energy.txt", "E")):
        if hexb(raw[name]) != secs[key]:
            model_text = bytes.fromhex("" if secs[key] == "-" else secs[key]).decode("utf-8", "replace")
            ctx.disagree({"fn": fn + ":" + name + " (text)", "case": case}, (raw[name] or b"").decode("utf-8", "replace"), model_text)
    model_acc = sorted(bytes.fromhex(x).decode("utf-8") for x in secs["A"].split())
    if model_acc != acc:
        ctx.disagree({"fn": fn + ":accepted", "case": case}, acc, model_acc)
    if moved is not None and secs["M"] != moved:
        ctx.disagree({"fn": fn + ":returned-path(maxlen,length)", "case": case}, moved, secs["M"])
    if loaded_t is not None and secs["L"] != loaded_t:
        ctx.disagree({"fn": "loadT∘storeT", "case": case}, loaded_t, secs["L"])


DAMAGE = ["no-energy", "no-order", "no-traj", "drop-moved-file", "drop-order-row", "drop-traj-row", "word-in-order",
          "word-idx", "word-vel", "short-traj-row", "short-energy-rows", "empty-order", "empty-energy", "only-comments",
          "blank-line", "extra-order-col", "second-block", "word-in-energy", "drop-energy-rows"]


def damage(kind, pdir, rng):
    """damage a stored archive in place"""
    def rd(name):
        with open(os.path.join(pdir, name)) as fh:
            return fh.read().split("\n")[:-1]

    def wr(name, lines):
        with open(os.path.join(pdir, name), "w") as fh:
            fh.write("".join(ln + "\n" for ln in lines))

    def retok(line, k, new):
        t = line.split()
        if k < len(t):
            t[k] = new
        return " ".join(t)

    if kind in ("no-energy", "no-order", "no-traj"):
        os.remove(os.path.join(pdir, kind[3:] + ".txt"))
    elif kind == "drop-moved-file":
        fs = sorted(os.listdir(os.path.join(pdir, "accepted")))
        os.remove(os.path.join(pdir, "accepted", rng.choice(fs)))
    elif kind in ("drop-order-row", "drop-traj-row", "drop-energy-rows"):
        name = {"drop-order-row": "order.txt", "drop-traj-row": "traj.txt", "drop-energy-rows": "energy.txt"}[kind]
        ls = rd(name)
        if len(ls) > 2:
            k = rng.randrange(2, len(ls))
            ls = ls[:k] if kind == "drop-energy-rows" else ls[:k] + ls[k + 1:]
        wr(name, ls)
    elif kind in ("word-in-order", "word-in-energy"):
        name = "order.txt" if kind == "word-in-order" else "energy.txt"
        ls = rd(name)
        k = rng.randrange(2, len(ls))
        ls[k] = retok(ls[k], rng.randrange(0, 3), "oops")
        wr(name, ls)
    elif kind in ("word-idx", "word-vel"):
        ls = rd("traj.txt")
        k = rng.randrange(2, len(ls))
        ls[k] = retok(ls[k], 2 if kind == "word-idx" else 3, "oops")
        wr("traj.txt", ls)
    elif kind == "short-traj-row":
        ls = rd("traj.txt")
        cut = rng.randrange(1, 4)
        ls = ls[:2] + [" ".join(l.split()[:cut]) for l in ls[2:]]
        wr("traj.txt", ls)
    elif kind == "short-energy-rows":
        ls = rd("energy.txt")
        cut = rng.randrange(1, 3)
        ls = ls[:2] + [" ".join(l.split()[:cut]) for l in ls[2:]]
        wr("energy.txt", ls)
    elif kind in ("empty-order", "empty-energy"):
        wr(kind[6:] + ".txt", [])
    elif kind == "only-comments":
        name = rng.choice(["order.txt", "energy.txt", "traj.txt"])
        wr(name, rd(name)[:2])
    elif kind == "blank-line":
        name = rng.choice(["order.txt", "energy.txt", "traj.txt"])
        ls = rd(name)
        k = rng.randrange(0, len(ls) + 1)
        wr(name, ls[:k] + ["   "] + ls[k:])
    elif kind == "extra-order-col":
        ls = rd("order.txt")
        k = rng.randrange(2, len(ls))
        ls[k] = ls[k] + "     0.250000"
        wr("order.txt", ls)
    elif kind == "second-block":
        name = rng.choice(["order.txt", "energy.txt", "traj.txt"])
        ls = rd(name)
        wr(name, ls + ls)


def snap_path(p):
    """everything of a Path that output() has no business changing"""
    def r(x):
        return "None" if x is None else repr(float(x))
    return (p.path_number, repr(p.generated), p.status, p.maxlen, p.time_origin,
            [(tuple(s.config), [r(o) for o in s.order], bool(s.vel_rev), r(s.vpot), r(s.ekin)) for s in p.phasepoints])


def forced_cases():
    """falsy-but-valid values: path number 0, cycle 0, index 0, order 0.0, energies exactly 0.0, lengths 1 and 2"""
    def fr(i, **kw):
        d = {"dir": "w0", "base": "e0_0_trajB.xyz", "idx": 0, "rev": False, "order": [0], "vpot": 0, "ekin": 0}
        d.update(kw)
        return d
    return [
        {"step": 0, "pn": 0, "gen": ("sh", 0, 0, 0), "frames": [fr(0)]},
        {"step": 0, "pn": 0, "gen": ("ld", 0.0, 0, 0), "frames": [fr(0), fr(1, idx=0, rev=True)]},
        {"step": 0, "pn": 0, "gen": "", "frames": [fr(0, vpot=None, ekin=0), fr(1, vpot=0, ekin=None, order=[0]), fr(2, idx=None, order=[0])]},
        {"step": 1, "pn": 0, "gen": ("sh", 0, 0, 0), "frames": [fr(0, order=[0, 0, 0]), fr(1, order=[0, 0, 1], base="e0_1_trajF.xyz")]},
        {"step": 0, "pn": 1, "gen": ("s-", 0, 0, 0), "frames": [fr(0, order=[], vpot=None, ekin=None), fr(1, order=[], vpot=None, ekin=None)]},
        {"step": 5, "pn": 0, "gen": ("wf", 0, 0, 0), "frames": [fr(i, vpot=None, ekin=None, rev=bool(i % 2)) for i in range(3)]},
    ]


# --------------------------------------------------------------------------- part A, limits
@contextlib.contextmanager
def default_maxlen(value):
    """Lower the DEFAULT limit of `Path()` from the harness side for the duration of one call.
    The default is bound at definition time (`def __init__(self, maxlen=DEFAULT_MAXLEN, …)`), so it lives in
    `Path.__init__.__defaults__`; the module constant is patched as well in case the code looks it up at run time.
    `value=None`: leave everything as it is (the real 100 000)."""
    if value is None:
        yield True
        return
    import infretis.classes.path as pmod
    Path = pmod.Path
    old_def = Path.__init__.__defaults__
    old_const = getattr(pmod, "DEFAULT_MAXLEN", None)
    try:
        if old_def:
            Path.__init__.__defaults__ = (value,) + tuple(old_def[1:])
        if old_const is not None:
            pmod.DEFAULT_MAXLEN = value
        try:
            ok = Path().maxlen == value
        except Exception:  # noqa: BLE001
            ok = False
        yield ok
    finally:
        Path.__init__.__defaults__ = old_def
        if old_const is not None:
            pmod.DEFAULT_MAXLEN = old_const


def expand_case(case):
    """a case is either written out (`frames`) or, for the long paths, a compact spec that is expanded
    deterministically (so that a replay file stays small)"""
    if "frames" in case:
        return case
    sp = case["spec"]
    n, nfiles, ncv = sp["n"], sp["nfiles"], sp.get("ncv", 1)
    frames = []
    for i in range(n):
        k = (i * nfiles) // n
        first = (k * n + nfiles - 1) // nfiles
        nxt = ((k + 1) * n + nfiles - 1) // nfiles
        back = k == 0
        frames.append({"dir": f"w{k % 2}", "base": f"e1_{k}_traj{'B' if back else 'F'}.xyz",
                       "idx": (nxt - 1 - i) if back else (i - first), "rev": back,
                       "order": [((i * 7919) % 2000003) - 1000000 + c for c in range(ncv)],
                       "vpot": None if sp.get("energies") == "some" and i % 3 else -10000000 + 250000 * (i % 17),
                       "ekin": None if sp.get("energies") == "some" and i % 3 else 125000 * (i % 11)})
    out = dict(case, frames=frames)
    return out


def limit_roundtrip(case, root, ps=None):
    """store `case` with the real PathStorage.output, load it with load_path under the (possibly lowered)
    default limit `case['deflim']`; returns a record with the predicate's verdict and what the tie compares"""
    np, PathStorage, Path, load_path, REPEX_state, System = _imports()
    full = expand_case(case)
    load = os.path.join(root, "load")
    pdir = os.path.join(load, str(full["pn"]))
    acc = os.path.join(pdir, "accepted")
    rec = {"case": case, "nfr": len(full["frames"])}
    try:
        p = build_path(full, root, Path, System)
        moved = (ps or PathStorage()).output(full["step"], {"path": p, "dir": load})
        rec["moved"] = f"{'-' if moved.maxlen is None else moved.maxlen} {moved.length}"
        rec["acc"] = sorted(os.listdir(acc))
        rec["files"] = {n: file_tokens(os.path.join(pdir, n)) for n in ("traj.txt", "order.txt", "energy.txt")} \
            if len(full["frames"]) <= 2000 else None
    except Exception as e:  # noqa: BLE001
        rec["store_err"] = ekind(e)
        rec["pred"] = f"PathStorage.output raised {type(e).__name__}: {e}"
        return rec
    try:
        with default_maxlen(case.get("deflim")) as patched:
            rec["patched"] = patched
            lp = load_path(pdir)
        rec["lp_maxlen"] = "-" if lp.maxlen is None else str(lp.maxlen)
        rec["loaded"] = show_loaded(lp, acc) if len(full["frames"]) <= 2000 else f"{lp.length} …"
        rec["pred"] = roundtrip_predicate(full, lp, acc, root)
    except Exception as e:  # noqa: BLE001
        rec["loaded"] = ekind(e)
        rec["lp_maxlen"] = None
        rec["pred"] = f"load_path raised {type(e).__name__}: {e}"
    return rec


def gen_limit_case(rng, k):
    """short paths that cross a lowered default limit D: lengths D-1, D, D+1, D+2, 2D+1 …; the stored path's own
    maxlen None / = length / length+1 / large; every 9th case an object LONGER than its own maxlen (no code path
    builds one; model comparison only)"""
    D = rng.choice([1, 2, 3, 4, 5, 8])
    n = max(1, rng.choice([D - 1, D, D + 1, D + 1, D + 2, 2 * D + 1, D + rng.randint(1, 9)]))
    nfiles = rng.randint(1, min(3, n))
    ncol = rng.choice([1, 1, 2, 3])
    frames = []
    for i in range(n):
        fi = (i * nfiles) // n
        frames.append({"dir": f"w{fi % 2}", "base": f"e{k % 7}_{fi}_traj{'BF'[fi % 2]}.xyz", "idx": i, "rev": fi == 0 and nfiles > 1,
                       "order": [rng.randrange(-10**7, 10**7) for _ in range(ncol)],
                       "vpot": rng.choice([None, rng.randrange(-10**6, 10**6)]), "ekin": rng.choice([None, 0, 123456])})
    over = k % 9 == 8 and n >= 2
    maxlen = rng.randint(1, n - 1) if over else rng.choice([None, n, n, n + 1, 10000])
    return {"step": rng.randrange(0, 1000), "pn": rng.randrange(0, 50), "gen": ("sh", 0.5, 3, 10), "frames": frames,
            "deflim": D, "maxlen": maxlen, "overlong": over}


def part_a_limits(ctx, tmp):
    """boundary class around the default limit of `Path()`: load_path must return ALL stored frames"""
    rng = ctx.rng
    np, PathStorage, Path, load_path, REPEX_state, System = _imports()
    ps = PathStorage()
    recs = []
    for k in range(90 if ctx.quick else 600):
        case = gen_limit_case(rng, k)
        root = os.path.join(tmp, f"l{k}")
        os.makedirs(root)
        recs.append(limit_roundtrip(case, root, ps))
        shutil.rmtree(root, ignore_errors=True)
    # the real default (100 000): one path just above it in the quick tier, the whole boundary in the thorough tier
    big = [{"n": 100001, "nfiles": 2}] if ctx.quick else \
        [{"n": 99999, "nfiles": 3}, {"n": 100000, "nfiles": 4}, {"n": 100001, "nfiles": 4}, {"n": 100002, "nfiles": 1},
         {"n": 120500, "nfiles": 6, "energies": "some", "ncv": 2}]
    for j, sp in enumerate(big):
        case = {"step": 3 + j, "pn": 60 + j, "gen": ("sh", 0.5, 3, 10), "spec": sp, "maxlen": sp["n"] + (j % 2), "deflim": None}
        root = os.path.join(tmp, f"L{j}")
        os.makedirs(root)
        recs.append(limit_roundtrip(case, root, ps))
        shutil.rmtree(root, ignore_errors=True)
    outs = None
    if ctx._driver_ok:
        small = [r for r in recs if "frames" in r["case"]]
        outs = dict(zip([id(r) for r in small], ctx.driver([
            "storeP " + ("-" if r["case"]["maxlen"] is None else str(r["case"]["maxlen"])) + " " + str(r["case"]["deflim"]) + " p "
            + store_line(r["case"])[len("store "):] for r in small])))
    for r in recs:
        case = r["case"]
        n, D = r["nfr"], case.get("deflim")
        Dv = 100000 if D is None else D
        where = "below" if n < Dv else "at" if n == Dv else "above"
        ctx.count(1, branch=f"A:limit:{'real-default' if D is None else 'lowered-default'}:{where}" + (":overlong-object" if case.get("overlong") else ""))
        ctx.distinct(("Alim", repr(case)))
        rep = {"part": "A", "case": case}
        if r.get("patched") is False:
            ctx.hit("A:limit:patch-ineffective")
        if not case.get("overlong") and r["pred"] is not None:
            ctx.fail("C14:roundtrip", r["pred"] + (f" (default limit of Path() lowered to {D} for this load)" if D is not None else ""), rep)
        if outs is not None and id(r) in outs and "store_err" not in r:
            secs = dict((x[:1], x[2:].strip()) for x in outs[id(r)].split(" | "))
            for name, key in (("traj.txt", "T"), ("order.txt", "O"), ("energy.txt", "E")):
                model_t = [ln.split() for ln in secs[key].split(" ; ")]
                if r["files"][name] != model_t:
                    ctx.disagree({"fn": "storeObj:" + name, "case": case}, r["files"][name], model_t)
            if sorted(secs["A"].split()) != r["acc"]:
                ctx.disagree({"fn": "storeObj:accepted", "case": case}, r["acc"], secs["A"])
            if secs["M"] != r["moved"]:
                ctx.disagree({"fn": "storeObj:returned-path(maxlen,length)", "case": case}, r["moved"], secs["M"])
            code_l = r["loaded"] if r["lp_maxlen"] is None else r["lp_maxlen"] + " " + r["loaded"]
            if secs["L"] != code_l and r.get("patched") is not False:
                ctx.disagree({"fn": "loadPath∘storeObj", "case": case}, code_l, secs["L"])
        if len(recs) and r is recs[0] or r is recs[-1]:
            ctx.sample({"part": "A:limit", "frames": n, "deflim": D, "maxlen": case["maxlen"], "loaded": r["loaded"][:80]})



# --------------------------------------------------------------------------- part A, text level classes
def gen_float(rng):
    """floats that are NOT k·10⁻⁶: dyadic ties of '{:.6f}' (odd multiples of 2⁻⁷·5⁻⁶·… e.g. 1/128), tiny negatives
    ('-0.000000'), −0.0, values that overflow the column width, NaN; ≤ 15 significant digits in the file"""
    kind = rng.choice(["tie", "tie", "dyadic", "dyadic", "tiny", "negzero", "wide", "nan", "plain", "half-ulp", "inf"])
    if kind == "inf":       # '{:.6f}' prints inf / -inf, float() reads them back
        return rng.choice([float("inf"), float("-inf")])
    if kind == "tie":       # x·10⁶ = n + ½ exactly  ⇔  x = (2n+1)·5⁶/(2⁷·5⁶·…): odd multiples of 1/128 are representable
        return rng.choice([-1, 1]) * (2 * rng.randrange(0, 5000) + 1) / 128.0
    if kind == "dyadic":
        return rng.choice([-1, 1]) * rng.randrange(0, 2 ** 20) / 2.0 ** rng.randint(1, 30)
    if kind == "tiny":
        return rng.choice([-1, 1]) * rng.choice([1e-7, 4.9e-7, 5e-7, 5.1e-7, 1e-300, 2.5e-7])
    if kind == "negzero":
        return -0.0
    if kind == "wide":
        return rng.choice([-1, 1]) * (rng.randrange(10 ** 6, 10 ** 8) + rng.randrange(0, 10 ** 6) / 1e6)
    if kind == "nan":
        return float("nan")
    if kind == "half-ulp":
        return rng.randrange(-10 ** 6, 10 ** 6) / 1e6 + rng.choice([-1, 1]) * 4.999e-7
    return rng.uniform(-50, 50)


def fhex(x):
    return None if x is None else "nan" if math.isnan(x) else float(x).hex()


# every character str.split()/strip() treat as white space that can stand in a file name (no '\n', '\r', '/')
WS_IN_NAMES = ["\u00a0", "\u0085", "\u1680", "\u2000", "\u2003", "\u200a", "\u2028", "\u2029", "\u202f", "\u205f", "\u3000",
               "\x1c", "\x1f", "\x0b", "\x0c", "\t", " "]
LETTERS_IN_NAMES = ["é", "ß", "Ω", "中", "😀", "\u200b", "\u180e", "\ufeff", "\u00ad", "ı̇"]   # NOT white space for Python


def gen_text_case(rng, k, names="ascii"):
    """names: 'ascii' | 'letters' (non-ASCII, not white space: must round-trip) | 'ws' (a white-space character of
    Python's complete set inside / at the end / at the start of one basename: the archive must fail to load in the
    model exactly as in the code)"""
    nfr = rng.choice([1, 2, 3, 5, 8])
    nfiles = rng.randint(1, min(3, nfr))
    long_name = rng.random() < 0.3
    files = [(f"w{j % 2}", (f"a_very_long_trajectory_file_name_{k}_{j}_trajF.lammpstrj" if long_name else f"e{k % 10}_{j}_traj{'BF'[j % 2]}.xyz"))
             for j in range(nfiles)]
    if names == "letters":
        files = [(d, rng.choice(LETTERS_IN_NAMES) + b[:3] + rng.choice(LETTERS_IN_NAMES) + b[3:] + rng.choice(["", rng.choice(LETTERS_IN_NAMES)]))
                 for d, b in files]
    elif names == "ws":
        j = rng.randrange(nfiles)
        d, b = files[j]
        w = WS_IN_NAMES[k % len(WS_IN_NAMES)]
        where = ("inside", "end", "start")[(k // len(WS_IN_NAMES)) % 3]
        files[j] = (d, b[:4] + w + b[4:] if where == "inside" else b + w if where == "end" else w + b)
    ncol = rng.choice([1, 2, 3])
    frames = []
    for i in range(nfr):
        d, b = files[(i * nfiles) // nfr]
        idx = rng.choice([i, 0, None, -1, 12345678901, rng.randrange(0, 10 ** 6)])
        vp = rng.choice([None, gen_float(rng)])
        ek = rng.choice([None, gen_float(rng)])
        frames.append({"dir": d, "base": b, "idx": idx, "rev": rng.random() < 0.4, "order": [], "vpot": None, "ekin": None,
                       "of": [fhex(gen_float(rng)) for _ in range(ncol)], "vf": fhex(vp), "kf": fhex(ek)})
    gen = rng.choice([("sh", 0.5, 3, 10), ("wf", 1.25, 0, 7), ("ld", float("nan"), 0, 0), "ki", None, ("s+", -0.0, 1, 2)])
    if names != "ascii":
        gen = rng.choice([gen, ("shé", 0.5, "\u00a0x", 1), "中\u2003文"])      # non-ASCII text in the comment line is harmless
    out = {"step": rng.choice([0, 7, 123456789, rng.randrange(0, 10 ** 5)]), "pn": rng.randrange(0, 500), "gen": gen, "frames": frames}
    if names != "ascii":
        out["names"] = names
    return out


TEXT_DAMAGE = ["tabs", "crlf", "cr-only", "no-final-newline", "trailing-blank-lines", "leading-blank-lines", "comment-mid-rows",
               "hash-token-row", "triple-comment", "ws-only-line-mid", "vt-ff-whitespace", "extra-token-traj-row",
               "indented-rows", "trailing-spaces", "negative-step-col", "empty-file", "comment-after-rows", "hash-glued-header"]


def text_damage(kind, pdir, rng):
    """character-level variants of a stored archive (what read_some_lines' strip / startswith / split see)"""
    name = rng.choice(list(NAMES3))
    f = os.path.join(pdir, name)
    with open(f, "rb") as fh:
        b = fh.read()
    lines = b.split(b"\n")[:-1]
    k = rng.randrange(2, len(lines)) if len(lines) > 2 else None
    if kind == "tabs":
        b = re.sub(rb" +", b"\t", b)
    elif kind == "crlf":
        b = b.replace(b"\n", b"\r\n")
    elif kind == "cr-only":
        b = b.replace(b"\n", b"\r")
    elif kind == "no-final-newline":
        b = b[:-1]
    elif kind == "trailing-blank-lines":
        b = b + rng.choice([b"\n", b"\n\n", b"   \n", b" \n\t\n"])
    elif kind == "leading-blank-lines":
        b = rng.choice([b"\n", b"  \n\n"]) + b
    elif kind == "comment-mid-rows" and k is not None:
        b = b"\n".join(lines[:k] + [rng.choice([b"# note", b"#", b"  # indented", b"#12 not a row"])] + lines[k:]) + b"\n"
    elif kind == "hash-token-row" and k is not None:
        lines[k] = b"#" + lines[k].lstrip()
        b = b"\n".join(lines) + b"\n"
    elif kind == "triple-comment":
        b = b"\n".join(lines[:1] + [b"# another comment line"] + lines[1:]) + b"\n"
    elif kind == "ws-only-line-mid" and k is not None:
        b = b"\n".join(lines[:k] + [rng.choice([b"", b"   ", b"\t"])] + lines[k:]) + b"\n"
    elif kind == "vt-ff-whitespace" and k is not None:
        lines[k] = lines[k].replace(b"  ", b"\x0b\x0c", 1) + b"\x1f"
        b = b"\n".join(lines) + b"\n"
    elif kind == "extra-token-traj-row" and k is not None:
        lines[k] = lines[k] + b"  extra"
        b = b"\n".join(lines) + b"\n"
    elif kind == "indented-rows":
        b = b"\n".join([b"   " + ln for ln in lines]) + b"\n"
    elif kind == "trailing-spaces":
        b = b"\n".join([ln + b"   " for ln in lines]) + b"\n"
    elif kind == "negative-step-col" and k is not None:
        t = lines[k].split()
        t[0] = b"-" + t[0]
        lines[k] = b" ".join(t)
        b = b"\n".join(lines) + b"\n"
    elif kind == "empty-file":
        b = b""
    elif kind == "comment-after-rows":
        b = b + b"# Cycle: 9, status: ACC\n# header\n" + b"\n".join(lines[2:]) + b"\n"
    elif kind == "hash-glued-header":
        b = b.replace(b"# ", b"#", 2)
    with open(f, "wb") as fh:
        fh.write(b)
    return name


def part_a_text(ctx, tmp):
    """(1) floats beyond k·10⁻⁶ — rounding ties, −0.0, NaN, fields wider than their column, long names, odd indices —
    stored and loaded twice, the files compared byte for byte with the text-level model; (2) character-level variants
    of stored archives through load_path against the model's reader"""
    rng = ctx.rng
    np, PathStorage, Path, load_path, REPEX_state, System = _imports()
    ps = PathStorage()
    recs = []
    n_float = 80 if ctx.quick else 800
    n_dmg = 180 if ctx.quick else 1800
    n_ws = 51 if ctx.quick else 510          # 17 white-space characters × 3 positions
    n_let = 20 if ctx.quick else 200
    for k in range(n_float + n_dmg + n_ws + n_let):
        if k < n_float + n_dmg:
            case = gen_text_case(rng, k, "letters" if k % 9 == 4 else "ascii")
        elif k < n_float + n_dmg + n_ws:
            case = gen_text_case(rng, k - n_float - n_dmg, "ws")
        else:
            case = gen_text_case(rng, k, "letters")
        root = os.path.join(tmp, f"t{k}")
        os.makedirs(root)
        load = os.path.join(root, "load")
        pdir = os.path.join(load, str(case["pn"]))
        acc = os.path.join(pdir, "accepted")
        rec = {"case": case}
        try:
            p = build_path(case, root, Path, System)
            moved = ps.output(case["step"], {"path": p, "dir": load})
            rec["moved"] = f"{'-' if moved.maxlen is None else moved.maxlen} {moved.length}"
            if n_float <= k < n_float + n_dmg:
                rec["damage"] = TEXT_DAMAGE[(k - n_float) % len(TEXT_DAMAGE)]
                rec["damaged_file"] = text_damage(rec["damage"], pdir, rng)
            rec["raw"] = raw_files(pdir)
            rec["acc"] = sorted(os.listdir(acc))
            lp = load_path(pdir)
            rec["loaded_t"] = show_loaded_t(lp, acc)
            if case.get("names") == "ws":
                rec["ws_loaded"] = True      # judged below: a name that str.split() cuts cannot come back whole
            elif "damage" not in rec:
                rec["pred"] = roundtrip_predicate(case, lp, acc, root)
                # second trip: the LOADED floats (the doubles nearest to the decimals) are written again
                pn2 = case["pn"] + 1000
                lp.path_number, lp.generated, lp.status, lp.maxlen = pn2, case["gen"], "ACC", 10000
                case2 = {"step": case["step"] + 1, "pn": pn2, "gen": case["gen"], "frames": [
                    dict(f, dir=os.path.relpath(acc, root), idx=0 if f["idx"] is None else f["idx"],
                         of=[fhex(float(o)) for o in s.order], vf=fhex(s.vpot), kf=fhex(s.ekin))
                    for f, s in zip(case["frames"], lp.phasepoints)]}
                ps.output(case2["step"], {"path": lp, "dir": load})
                pd2 = os.path.join(load, str(pn2))
                rec["case2"], rec["raw2"], rec["acc2"] = case2, raw_files(pd2), sorted(os.listdir(os.path.join(pd2, "accepted")))
                lp2 = load_path(pd2)
                rec["loaded2_t"] = show_loaded_t(lp2, os.path.join(pd2, "accepted"))
                if rec["raw2"]["order.txt"].split(b"\n")[2:] != rec["raw"]["order.txt"].split(b"\n")[2:] or \
                        rec["raw2"]["energy.txt"].split(b"\n")[2:] != rec["raw"]["energy.txt"].split(b"\n")[2:]:
                    rec["pred2"] = "the rows of order.txt / energy.txt written from the loaded path differ from the first archive's"
        except Exception as e:  # noqa: BLE001
            rec.setdefault("loaded_t", ekind(e))
            if "damage" not in rec and case.get("names") != "ws":
                rec["pred"] = f"raised {type(e).__name__}: {e}"
        recs.append(rec)
        shutil.rmtree(root, ignore_errors=True)
    outs = {}
    if ctx._driver_ok:
        lines, keys = [], []
        for k, rec in enumerate(recs):
            if "raw" not in rec:
                continue
            if "damage" in rec:
                if in_reader_domain(rec["raw"]):
                    lines.append(loadT_line(rec["acc"], rec["raw"], deflim=100000))
                    keys.append((k, 0))
                else:
                    ctx.hit("A:text:outside-reader-domain")
            else:
                lines.append(storeT_line(rec["case"], 10000, 100000))
                keys.append((k, 0))
                if "raw2" in rec:
                    lines.append(storeT_line(rec["case2"], 10000, 100000))
                    keys.append((k, 1))
        outs = dict(zip(keys, ctx.driver(lines))) if lines else {}
    for k, rec in enumerate(recs):
        case, dmg = rec["case"], rec.get("damage")
        ctx.count(1, branch="A:text:" + (dmg or ("floats" if "names" not in case else "names-" + case["names"])))
        if rec.get("ws_loaded"):
            # the real load_path returned a path although a basename holds white space: then it cannot be the stored one
            ctx.hit("A:text:ws-name-loaded-anyway")
        ctx.distinct(("Atext", dmg, repr(case)))
        rep = {"part": "A", "case": case}
        if dmg is None:
            if rec.get("pred") is not None:
                ctx.fail("C14:roundtrip", rec["pred"], rep)
            if rec.get("pred2") is not None:
                ctx.fail("C14:roundtrip", "second round trip: " + rec["pred2"], rep)
        if (k, 0) in outs:
            if dmg is None:
                compare_text_store(ctx, case, rec["raw"], rec["acc"], rec.get("moved"), rec["loaded_t"], outs[(k, 0)])
            elif outs[(k, 0)] != rec["loaded_t"]:
                ctx.disagree({"fn": "load_path(text variant)", "damage": dmg, "file": rec.get("damaged_file"), "case": case,
                              "files": {n: None if b is None else b.decode("latin1") for n, b in rec["raw"].items()}},
                             rec["loaded_t"], outs[(k, 0)])
        if (k, 1) in outs:
            compare_text_store(ctx, rec["case2"], rec["raw2"], rec["acc2"], None, rec.get("loaded2_t"), outs[(k, 1)], fn="storeT(second trip)")
        if k % 61 == 0:
            ctx.sample({"part": "A:text", "damage": dmg, "order.txt": (rec.get("raw", {}).get("order.txt") or b"").decode("latin1")[:240],
                        "loaded": rec.get("loaded_t", "")[:120]})
    # the rounding rule itself on further floats: '{:.6f}' against round6
    xs = [gen_float(rng) for _ in range(300 if ctx.quick else 5000)]
    xs = [abs(x) for x in xs if math.isfinite(x)]
    if ctx._driver_ok and xs:
        from fractions import Fraction
        ans = ctx.driver([f"round6 {Fraction(x).numerator} {Fraction(x).denominator}" for x in xs])
        for x, a in zip(xs, ans):
            ctx.count(1, branch="A:text:round6")
            code = f"{x:.6f}".replace(".", "").lstrip("0") or "0"
            if a != code:
                ctx.disagree({"fn": "'{:.6f}'.format", "x": x.hex()}, code, a)


def part_a_tables(ctx):
    """two small total tables of the model against Python itself, exhaustively on every run:
    (1) the white-space set of the text model = {c : chr(c).isspace()} = what str.split() separates at = what str.strip()
        removes, over ALL code points; (2) stemOf = os.path.splitext(name)[0] for every name of length ≤ 5 (6 in the
        thorough tier) over the alphabet . a b _ (dots at every position, several dots, leading dots, no dot)"""
    py_ws = [c for c in range(0x110000) if not 0xD800 <= c < 0xE000 and chr(c).isspace()]
    py_split = [c for c in range(0x110000) if not 0xD800 <= c < 0xE000 and ("a" + chr(c) + "b").split() != ["a" + chr(c) + "b"]]
    py_strip = [c for c in range(0x110000) if not 0xD800 <= c < 0xE000 and (chr(c) + "b" + chr(c)).strip() != chr(c) + "b" + chr(c)]
    ctx.count(1, branch="A:table:white-space-set")
    if not (py_ws == py_split == py_strip):
        ctx.fail("C14:python-white-space-sets-differ", "str.isspace / split() / strip() disagree on the white-space set", {"part": "A-tables"})
    names = ["".join(t) for L in range(1, 6 if ctx.quick else 7) for t in itertools.product(".ab_", repeat=L)]
    if ctx._driver_ok:
        out = ctx.driver(["wsset"] + ["stem " + hexs(n) for n in names])
        model_ws = [int(x) for x in out[0].split()]
        if model_ws != py_ws:
            ctx.disagree({"fn": "isWs (white-space set of strip/split)"}, [hex(c) for c in py_ws], [hex(c) for c in model_ws])
        for n, o in zip(names, out[1:]):
            if os.path.splitext(n)[0] != o:
                ctx.disagree({"fn": "os.path.splitext (stemOf)", "name": n}, os.path.splitext(n)[0], o)
    ctx.count(len(names), branch="A:table:splitext")


# --------------------------------------------------------------------------- part A, file operations of _move_path
MOVE_NAMES = ["s_0_trajB.xyz", "s_1_trajF.xyz", "s_2_trajF.xyz", "a.b.trr", ".hidden", "noext", "x..y", "conf.g96", "t.lammpstrj"]
MOVE_KEEPS = [[], [], [".adp"], [".adp", ".log"], [".xyz"], [".edr", ".adp", ".log"], ["_extra.txt"], [".adp", ".adp"]]


def gen_move_case(rng, k):
    ndirs = rng.randint(1, 3)
    nfiles = rng.randint(1, 4)
    collide = k % 7 == 6 and ndirs > 1 and nfiles > 1
    pn = rng.randrange(0, 30)
    # src == dest: a frame's file (and maybe its side files) already lies in the target directory load/<pn>/accepted
    indest = k % 11 == 10 and not collide
    names = rng.sample(MOVE_NAMES, nfiles)
    files = []
    for j in range(nfiles):
        d = f"w{rng.randrange(ndirs)}"
        if indest and j == 0:
            d = os.path.join("load", str(pn), "accepted")
        files.append([d, names[j]])
    if collide:
        files[1][1] = files[0][1]
        files[1][0] = "w1" if files[0][0] != "w1" else "w0"
    files = [tuple(f) for f in dict.fromkeys(tuple(f) for f in files)]
    nfr = rng.randint(len(files), len(files) + 4)
    order = [files[(i * len(files)) // nfr] if rng.random() < 0.8 else rng.choice(files) for i in range(nfr)]
    keep = rng.choice(MOVE_KEEPS)
    side = sorted({(d, os.path.splitext(n)[0] + e) for d, n in files for e in (".adp", ".log", ".edr", "_extra.txt", ".xyz")
                   if rng.random() < 0.45} - set(files))
    used = list(dict.fromkeys(order))
    stale = sorted({rng.choice(used)[1] for _ in range(1)} | ({os.path.splitext(rng.choice(used)[1])[0] + ".adp"} if rng.random() < 0.5 else set())) \
        if rng.random() < 0.25 and not indest else []
    missing = rng.choice(used) if k % 19 == 18 and not indest else None
    return {"files": files, "frames": order, "keep": keep, "side": side, "stale": stale, "missing": missing,
            "collide": collide, "indest": indest, "maxlen": rng.choice([None, nfr, nfr + 1, 10000]), "pn": pn}


def run_move_case(case, root):
    """the real PathStorage(keep_traj_fnames).output on a real source tree; returns the tree afterwards with contents"""
    np, PathStorage, Path, load_path, REPEX_state, System = _imports()
    tag = {}
    cnt = 1
    for d, n in list(case["files"]) + [tuple(x) for x in case["side"]]:
        os.makedirs(os.path.join(root, d), exist_ok=True)
        if (d, n) == (tuple(case["missing"]) if case["missing"] else None):
            continue
        with open(os.path.join(root, d, n), "w") as fh:
            fh.write(f"{cnt}\n")
        tag[(d, n)] = cnt
        cnt += 1
    load = os.path.join(root, "load")
    accrel = os.path.join("load", str(case["pn"]), "accepted")
    acc = os.path.join(root, accrel)
    os.makedirs(acc, exist_ok=True)
    for n in case["stale"]:
        with open(os.path.join(acc, n), "w") as fh:
            fh.write(f"{cnt}\n")
        tag[(accrel, n)] = cnt
        cnt += 1
    p = Path(maxlen=case["maxlen"])
    for i, (d, n) in enumerate(case["frames"]):
        s = System()
        s.order = [float(i)]
        s.config = (os.path.join(root, d, n), i)
        p.phasepoints.append(s)
    p.path_number, p.generated, p.status = case["pn"], ("sh", 0, 0, 0), "ACC"
    rec = {"before": dict(tag), "accrel": accrel}
    try:
        moved = PathStorage(keep_traj_fnames=list(case["keep"])).output(1, {"path": p, "dir": load})
        rec["err"] = "ok"
        rec["moved"] = f"{'-' if moved.maxlen is None else moved.maxlen} {moved.length}"
        rec["moved_cfg"] = [(os.path.relpath(os.path.dirname(s.config[0]), root), os.path.basename(s.config[0])) for s in moved.phasepoints]
    except Exception as e:  # noqa: BLE001
        rec["err"] = ekind(e)
    # the end-to-end function: load what was just stored
    if rec["err"] == "ok":
        try:
            lp = load_path(os.path.join(load, str(case["pn"])))
            rec["loaded"] = ("-" if lp.maxlen is None else str(lp.maxlen)) + " " + show_loaded(lp, acc)
        except Exception as e:  # noqa: BLE001
            rec["loaded"] = ekind(e)
    else:
        rec["loaded"] = rec["err"]
    after = {}
    for d, _dirs, fls in os.walk(root):
        rel = os.path.relpath(d, root)
        for f in fls:
            if rel == os.path.join("load", str(case["pn"])):
                continue        # the three text files
            with open(os.path.join(d, f)) as fh:
                after[(rel, f)] = int(fh.read().strip())
    rec["after"] = after
    return rec


def part_a_move(ctx, tmp):
    """_move_path as file operations: sources in 1–3 directories, keep_traj_fnames side files present or not, names
    with several / leading / no dots, stale files already in accepted/, a missing source, two sources with one basename"""
    rng = ctx.rng
    cases, recs = [], []
    for k in range(120 if ctx.quick else 1500):
        case = gen_move_case(rng, k)
        root = os.path.join(tmp, f"m{k}")
        os.makedirs(root)
        try:
            rec = run_move_case(case, root)
        except Exception as e:  # noqa: BLE001
            rec = {"harness": f"{type(e).__name__}: {e}"}
        shutil.rmtree(root, ignore_errors=True)
        cases.append(case)
        recs.append(rec)
    outs = None
    if ctx._driver_ok:
        lines = []
        for case, rec in zip(cases, recs):
            if "harness" in rec:
                lines.append("noop")
                continue
            fsl = [(d, n, c) for (d, n), c in rec["before"].items()]
            lines.append(" ".join(["move", lst(case["keep"], hexs), hexs(rec["accrel"]), "-" if case["maxlen"] is None else str(case["maxlen"]),
                                   str(len(fsl))] + [f"{hexs(d)} {hexs(n)} {c}" for d, n, c in fsl]
                                  + [str(len(case["frames"]))] + [f"{hexs(d)} {hexs(n)}" for d, n in case["frames"]]))
        outs = ctx.driver(lines)
        lines2 = []
        for case, rec in zip(cases, recs):
            if "harness" in rec:
                lines2.append("noop")
                continue
            fsl = [(d, n, c) for (d, n), c in rec["before"].items()]
            lines2.append(" ".join(["e2e", lst(case["keep"], hexs), hexs(rec["accrel"]), "-" if case["maxlen"] is None else str(case["maxlen"]),
                                    "100000", "1", lst(str(("sh", 0, 0, 0)).split(), hexs), str(len(fsl))]
                                   + [f"{hexs(d)} {hexs(n)} {c}" for d, n, c in fsl] + [str(len(case["frames"]))]
                                   + [f"{hexs(d)} {hexs(n)} {i} 0 1 {i * 1000000} - -" for i, (d, n) in enumerate(case["frames"])]))
        outs2 = ctx.driver(lines2)
        for case, rec, o2 in zip(cases, recs, outs2):
            if "harness" not in rec and o2 != rec.get("loaded"):
                ctx.disagree({"fn": "outputThenLoad (PathStorage.output on the file system, then load_path)", "case": case}, rec.get("loaded"), o2)
    for k, (case, rec) in enumerate(zip(cases, recs)):
        kind = "missing-source" if case["missing"] else "same-basename" if case["collide"] else "src-is-dest" if case.get("indest") else \
            "stale-dest" if case["stale"] else "keep" if case["keep"] else "plain"
        ctx.count(1, branch="A:move:" + kind)
        ctx.distinct(("Amove", repr(case)))
        if "harness" in rec:
            ctx.extra.setdefault("harness_errors", []).append(rec["harness"])
            continue
        rep = {"part": "A-move", "case": case}
        # ---- the property on the real tree: every frame's file is under accepted/ with the content its source had
        if not case["missing"] and not case["collide"]:
            bad = None
            if rec["err"] != "ok":
                bad = f"PathStorage.output raised {rec['err']}"
            else:
                for (d, n), (md, mn) in zip(case["frames"], rec["moved_cfg"]):
                    if md != rec["accrel"] or mn != n:
                        bad = f"frame file {d}/{n} is referenced as {md}/{mn}, not under {rec['accrel']}"
                    elif rec["after"].get((rec["accrel"], n)) != rec["before"].get((d, n)):
                        bad = f"{rec['accrel']}/{n} is missing or holds another file's content"
                    elif (d, n) in rec["after"] and d != rec["accrel"]:
                        bad = f"source {d}/{n} is still there (copied, not moved)"
                    if bad:
                        break
                if bad is None and len(rec["moved_cfg"]) != len(case["frames"]):
                    bad = f"returned path has {len(rec['moved_cfg'])} frames, stored one {len(case['frames'])}"
                if bad is None:
                    for d, n in dict.fromkeys(tuple(x) for x in case["frames"]):
                        for e in case["keep"]:
                            sn = os.path.splitext(n)[0] + e
                            if (d, sn) in rec["before"] and rec["after"].get((rec["accrel"], sn)) != rec["before"][(d, sn)]:
                                bad = f"kept side file {sn} was not moved to accepted/"
            if bad:
                ctx.fail("C14:stored-files-not-under-own-dir", bad, rep)
        if outs is not None:
            mo = outs[k].split(" | ")
            model_after = {}
            for t in (mo[2].split() if len(mo) > 2 else []):
                nm, c = t.rsplit("=", 1)
                d, n = nm.split("/")
                model_after[(bytes.fromhex(d).decode(), bytes.fromhex(n).decode())] = int(c)
            if mo[0] != rec["err"]:
                ctx.disagree({"fn": "_move_path:error", "case": case}, rec["err"], mo[0])
            elif rec["err"] == "ok" and mo[1] != rec["moved"]:
                ctx.disagree({"fn": "_move_path:returned-path", "case": case}, rec["moved"], mo[1])
            elif model_after != rec["after"]:
                ctx.disagree({"fn": "_move_path:files", "case": case},
                             sorted(f"{d}/{n}={c}" for (d, n), c in rec["after"].items()),
                             sorted(f"{d}/{n}={c}" for (d, n), c in model_after.items()))
        if k % 37 == 0:
            ctx.sample({"part": "A:move", "case": case, "err": rec.get("err"), "after": sorted(f"{d}/{n}" for d, n in rec.get("after", {}))[:12]})


# --------------------------------------------------------------------------- part A, load_paths_from_disk
def part_a_lpfd(ctx, tmp):
    """load_paths_from_disk on a load directory with several stored paths: every active path comes back whole with
    maxlen = the configured maxlength (also when it is longer than the — lowered — default limit of Path()), its number
    and generated[0] = 're'/'ld'; a missing / damaged archive raises (compared with the model)"""
    rng = ctx.rng
    np, PathStorage, Path, load_path, REPEX_state, System = _imports()
    from infretis.classes.path import load_paths_from_disk
    ps = PathStorage()
    recs = []
    for k in range(40 if ctx.quick else 400):
        root = os.path.join(tmp, f"d{k}")
        os.makedirs(root)
        load = os.path.join(root, "load")
        npaths = rng.randint(1, 4)
        cases = []
        for j in range(npaths):
            c = gen_path_case(rng)
            c["pn"] = 3 * j + rng.randrange(3)
            if all(len(f["order"]) == 0 for f in c["frames"]) and len(c["frames"]) > 1:
                pass
            cases.append(c)
        D = rng.choice([None, 2, 3, 5])
        maxlength = rng.choice([1, 7, 2000, 100000])
        restarted = rng.random() < 0.5
        bad = rng.choice(["missing-dir", "no-order", "drop-moved-file"]) if k % 5 == 4 else None
        rec = {"cases": cases, "deflim": D, "maxlength": maxlength, "restarted": restarted, "bad": bad}
        try:
            for c in cases:
                sub = os.path.join(root, f"src{c['pn']}")
                os.makedirs(sub)
                ps.output(c["step"], {"path": build_path(c, sub, Path, System), "dir": load})
            active = [c["pn"] for c in cases]
            rng.shuffle(active)
            if bad == "missing-dir":
                active.insert(rng.randrange(len(active) + 1), 99)
            elif bad is not None:
                damage(bad, os.path.join(load, str(active[-1])), rng)
            rec["active"] = active
            rec["arch"] = {pn: ({n: file_tokens(os.path.join(load, str(pn), n)) for n in NAMES3},
                                sorted(os.listdir(os.path.join(load, str(pn), "accepted")))) for pn in set(active) if pn != 99}
            cfg = {"simulation": {"load_dir": load, "tis_set": {"maxlength": maxlength}}, "current": {"active": list(active)}}
            if restarted:
                cfg["current"]["restarted_from"] = 5
            with default_maxlen(D) as patched:
                rec["patched"] = patched
                paths = load_paths_from_disk(cfg)
            rec["out"] = " ; ".join(f"{p.path_number}:{p.generated[0]}:{'-' if p.maxlen is None else p.maxlen}:"
                                    + show_loaded(p, os.path.join(load, str(p.path_number), "accepted")) for p in paths)
            if bad is None:
                preds = [roundtrip_predicate(c, p, os.path.join(load, str(c["pn"]), "accepted"), os.path.join(root, f"src{c['pn']}"))
                         for c, p in zip(sorted(cases, key=lambda c: active.index(c["pn"])), paths)]
                preds += ["path numbers " + str([p.path_number for p in paths]) + f" ≠ active {active}"] if [p.path_number for p in paths] != active else []
                rec["pred"] = next((x for x in preds if x is not None), None)
        except Exception as e:  # noqa: BLE001
            rec["out"] = ekind(e)
            if bad is None:
                rec["pred"] = f"load_paths_from_disk raised {type(e).__name__}: {e}"
        recs.append(rec)
        shutil.rmtree(root, ignore_errors=True)
    outs = None
    if ctx._driver_ok:
        lines = []
        for rec in recs:
            if "arch" not in rec:
                lines.append("noop")
                continue
            parts = ["lpfd", "100000" if rec["deflim"] is None else str(rec["deflim"]), "p", str(rec["maxlength"]),
                     "1" if rec["restarted"] else "0", lst(rec["active"]), str(len(rec["arch"]))]
            ok = True
            for pn, (files, acc) in rec["arch"].items():
                fa = [file_arg(files[n]) for n in NAMES3]
                ok = ok and all(a is not None for a in fa)
                parts += [str(pn), lst(acc, hexs)] + ["-" if a is None else a for a in fa]
            lines.append(" ".join(parts) if ok else "noop")
        outs = ctx.driver(lines)
    for k, rec in enumerate(recs):
        ctx.count(1, branch="A:lpfd:" + (rec["bad"] or "ok") + (":lowered-default" if rec["deflim"] else ""))
        ctx.distinct(("Alpfd", repr(rec["cases"]), rec["deflim"], rec["maxlength"]))
        if rec.get("pred") is not None:
            ctx.fail("C14:roundtrip", "load_paths_from_disk: " + rec["pred"],
                     {"part": "A", "case": dict(rec["cases"][0], deflim=rec["deflim"]), "lpfd": {k2: rec[k2] for k2 in ("deflim", "maxlength", "restarted")}})
        if outs is not None and outs[k] != "bad-op" and "arch" in rec and rec.get("patched") is not False and outs[k] != rec["out"]:
            ctx.disagree({"fn": "load_paths_from_disk", "active": rec.get("active"), "deflim": rec["deflim"], "maxlength": rec["maxlength"],
                          "bad": rec["bad"], "cases": rec["cases"]}, rec["out"], outs[k])


def part_a(ctx, tmp):
    np, PathStorage, Path, load_path, REPEX_state, System = _imports()
    rng = ctx.rng
    n_ok = 300 if ctx.quick else 2000
    n_bad = 450 if ctx.quick else 3000
    cases, code, lines = [], [], []
    ps_long = PathStorage()      # ONE storage object for every path of this run (REPEX_state.pstore is even class-level)
    forced = forced_cases()
    prev = None                  # (loaded path, its canonical text) of the previous case: must survive later loads
    for k in range(n_ok + n_bad):
        case = forced[k] if k < len(forced) else gen_path_case(rng, big=not ctx.quick)
        if k % 7 == 3 and k >= len(forced):
            case["pn"] = rng.choice([0, 1])
        root = os.path.join(tmp, f"a{k}")
        os.makedirs(root)
        load = os.path.join(root, "load")
        pdir = os.path.join(load, str(case["pn"]))
        acc = os.path.join(pdir, "accepted")
        rec = {"case": case, "extra": []}
        damaged = k >= n_ok
        try:
            p = build_path(case, root, Path, System)
            before = snap_path(p)
            srcs = sorted({s.config[0] for s in p.phasepoints})
            moved = ps_long.output(case["step"], {"path": p, "dir": load})
            if snap_path(p) != before:
                rec["extra"].append(("C14:output-modifies-input-path", "PathStorage.output changed the path object it was given"))
            rec["moved_ok"] = all(not os.path.exists(s) for s in srcs) and \
                sorted(os.listdir(acc)) == sorted({os.path.basename(s) for s in srcs}) and \
                all(os.path.dirname(s.config[0]) == acc for s in moved.phasepoints) and moved.length == p.length and \
                [(os.path.basename(s.config[0]), s.config[1], s.vel_rev) for s in moved.phasepoints] == \
                [(os.path.basename(s.config[0]), s.config[1], s.vel_rev) for s in p.phasepoints]
            rec["files"] = {n: file_tokens(os.path.join(pdir, n)) for n in ("traj.txt", "order.txt", "energy.txt")}
            rec["raw"] = raw_files(pdir)
            rec["moved"] = f"{'-' if moved.maxlen is None else moved.maxlen} {moved.length}"
            rec["acc"] = sorted(os.listdir(acc))
            if not damaged:
                # the same path through a FRESH storage object: byte-identical archive
                rootf = os.path.join(root, "fresh")
                os.makedirs(rootf)
                pf = build_path(case, rootf, Path, System)
                PathStorage().output(case["step"], {"path": pf, "dir": os.path.join(rootf, "load")})
                pdf = os.path.join(rootf, "load", str(case["pn"]))
                for n in ("traj.txt", "order.txt", "energy.txt"):
                    if open(os.path.join(pdir, n)).read() != open(os.path.join(pdf, n)).read():
                        rec["extra"].append(("C14:store-depends-on-object-history", f"{n} written by the long-lived PathStorage differs from a fresh one's"))
                if sorted(os.listdir(os.path.join(pdf, "accepted"))) != rec["acc"]:
                    rec["extra"].append(("C14:store-depends-on-object-history", "moved files differ between long-lived and fresh PathStorage"))
        except Exception as e:  # noqa: BLE001
            rec["store_err"] = ekind(e)
        if damaged and "store_err" not in rec:
            rec["damage"] = DAMAGE[(k - n_ok) % len(DAMAGE)]
            damage(rec["damage"], pdir, rng)
            rec["files"] = {n: file_tokens(os.path.join(pdir, n)) for n in ("traj.txt", "order.txt", "energy.txt")}
            rec["raw"] = raw_files(pdir)
            rec["acc"] = sorted(os.listdir(acc))
        try:
            lp = load_path(pdir)
            rec["loaded"] = show_loaded(lp, acc)
            rec["loaded_t"] = show_loaded_t(lp, acc)
            if "damage" not in rec:
                rec["pred"] = roundtrip_predicate(case, lp, acc, root)
        except Exception as e:  # noqa: BLE001
            lp = None
            rec["loaded"] = ekind(e)
            rec["loaded_t"] = ekind(e)
            rec["pred"] = f"load_path raised {type(e).__name__}: {e}"
        # ---- aliasing: an earlier loaded path is not changed by later loads / stores
        try:
            if prev is not None and show_loaded(prev[0], prev[2]) != prev[1]:
                rec["extra"].append(("C14:loaded-path-aliases-buffer", "a path loaded earlier changed when another path was stored/loaded"))
        except Exception as e:  # noqa: BLE001
            rec["extra"].append(("C14:loaded-path-aliases-buffer", f"an earlier loaded path became unreadable: {type(e).__name__}"))
        prev = None
        # ---- second round trip: store the LOADED path again (same storage object), load it again
        if lp is not None and "damage" not in rec and rec.get("pred") is None:
            try:
                pn2 = case["pn"] + 1000
                case2 = {"step": case["step"] + 1, "pn": pn2, "gen": case["gen"],
                         "frames": [dict(f, idx=0 if f["idx"] is None else f["idx"]) for f in case["frames"]]}
                lp.path_number, lp.generated, lp.status = pn2, case["gen"], "ACC"
                text1 = show_loaded(lp, acc)
                b2 = snap_path(lp)
                ps_long.output(case2["step"], {"path": lp, "dir": load})
                if snap_path(lp) != b2 or show_loaded(lp, acc) != text1:
                    rec["extra"].append(("C14:output-modifies-input-path", "PathStorage.output changed the (loaded) path object it was given"))
                acc2 = os.path.join(load, str(pn2), "accepted")
                lp2 = load_path(os.path.join(load, str(pn2)))
                rec["loaded2"] = show_loaded(lp2, acc2)
                rec["case2"] = case2
                pred2 = roundtrip_predicate(case2, lp2, acc2, root)
                if pred2 is not None:
                    rec["extra"].append(("C14:roundtrip", "second round trip (store the loaded path, load again): " + pred2))
                # in-place change of the second object must not reach the first
                if lp2.length and len(lp2.phasepoints[0].order):
                    lp2.phasepoints[0].order[0] = 12345.0
                    if show_loaded(lp, acc) != text1:
                        rec["extra"].append(("C14:loaded-path-aliases-buffer", "two loaded paths share an order array"))
                prev = (lp, text1, acc)
            except Exception as e:  # noqa: BLE001
                rec["extra"].append(("C14:roundtrip", f"second round trip raised {type(e).__name__}: {e}"))
        cases.append(rec)
        shutil.rmtree(root, ignore_errors=True)
    # ---- two paths whose source files have the same basenames (different directories), one load dir
    for k in range(12 if ctx.quick else 120):
        ca = gen_path_case(rng)
        cb = {"step": ca["step"] + 1, "pn": ca["pn"] + 1, "gen": ca["gen"],
              "frames": [dict(f, dir="v" + f["dir"], order=[o + 1 for o in f["order"]]) for f in ca["frames"]]}
        root = os.path.join(tmp, f"p{k}")
        os.makedirs(root)
        load = os.path.join(root, "load")
        ctx.count(1, branch="A:same-basenames-two-paths")
        try:
            for c in (ca, cb):
                ps_long.output(c["step"], {"path": build_path(c, root, Path, System), "dir": load})
            for c in (ca, cb):
                pd_ = os.path.join(load, str(c["pn"]))
                pr = roundtrip_predicate(c, load_path(pd_), os.path.join(pd_, "accepted"), root)
                if pr is not None:
                    ctx.fail("C14:roundtrip", "two stored paths with equal basenames: " + pr, {"part": "A", "case": c, "other": ca if c is cb else cb})
        except Exception as e:  # noqa: BLE001
            ctx.fail("C14:roundtrip", f"two stored paths with equal basenames: {type(e).__name__}: {e}", {"part": "A", "case": ca, "other": cb})
        shutil.rmtree(root, ignore_errors=True)
    # ---- model
    if ctx._driver_ok:
        for rec in cases:
            if "damage" in rec:
                fa = [file_arg(rec["files"][n]) for n in ("traj.txt", "order.txt", "energy.txt")]
                rec["skip"] = any(a is None for a in fa)
                lines.append("load " + lst(rec["acc"], hexs) + " " + " ".join("-" if a is None else a for a in fa))
            else:
                lines.append(store_line(rec["case"]))
        out = ctx.driver(lines)
        # the same cases through the TEXT-level model: the files byte for byte, load_path on the raw text
        tl, tk = [], []
        for k, rec in enumerate(cases):
            if "raw" not in rec:
                continue
            if "damage" in rec:
                if in_reader_domain(rec["raw"]):
                    tl.append(loadT_line(rec["acc"], rec["raw"], deflim=100000))
                    tk.append(k)
                else:
                    ctx.hit("A:text:outside-reader-domain")
            else:
                tl.append(storeT_line(rec["case"], rec["case"].get("maxlen", 10000), 100000))
                tk.append(k)
        out_t = dict(zip(tk, ctx.driver(tl))) if tl else {}
        idx2 = [k for k, rec in enumerate(cases) if "case2" in rec]
        out2 = dict(zip(idx2, ctx.driver([store_line(cases[k]["case2"]) for k in idx2]))) if idx2 else {}
    for k, rec in enumerate(cases):
        case = rec["case"]
        dmg = rec.get("damage")
        ctx.count(1, branch=("A:" + (dmg or "roundtrip")))
        nf = len({(f["dir"], f["base"]) for f in case["frames"]})
        rep = {"part": "A", "case": case, "damage": dmg}
        for sig, what in rec["extra"]:
            ctx.fail(sig, what, rep)
        if ctx._driver_ok and "case2" in rec:
            l2 = dict((x[:1], x[2:].strip()) for x in out2[k].split(" | "))["L"]
            if l2 != rec["loaded2"]:
                ctx.disagree({"fn": "load∘store∘load∘store", "case": rec["case2"]}, rec["loaded2"], l2)
        if dmg is None:
            if nf > 1 or any(f["rev"] for f in case["frames"]) or any(f["vpot"] is None for f in case["frames"]):
                ctx.distinct(("A", repr(case)))
            if rec.get("store_err"):
                ctx.fail("C14:store-raises", f"PathStorage.output raised {rec['store_err']}", rep)
                continue
            if rec["pred"] is not None:
                ctx.fail("C14:roundtrip", rec["pred"], rep)
            if not rec["moved_ok"]:
                ctx.fail("C14:stored-files-not-under-own-dir", "moved files are not exactly the referenced files under accepted/", rep)
        else:
            ctx.distinct(("Abad", dmg, repr(case)))
        if ctx._driver_ok:
            if dmg is None:
                secs = dict((s[:1], s[2:].strip()) for s in out[k].split(" | "))
                for name, key in (("traj.txt", "T"), ("order.txt", "O"), ("energy.txt", "E")):
                    code_t = [ln for ln in rec["files"][name]]
                    model_t = [ln.split() for ln in secs[key].split(" ; ")]
                    if code_t != model_t:
                        ctx.disagree({"fn": "store:" + name, "case": case}, code_t, model_t)
                if sorted(secs["A"].split()) != rec["acc"]:
                    ctx.disagree({"fn": "store:accepted", "case": case}, rec["acc"], secs["A"])
                if secs["L"] != rec["loaded"]:
                    ctx.disagree({"fn": "load∘store", "case": case}, rec["loaded"], secs["L"])
            elif not rec["skip"] and out[k] != rec["loaded"]:
                ctx.disagree({"fn": "load_path(damaged)", "damage": dmg, "case": case, "files": rec["files"]}, rec["loaded"], out[k])
            if k in out_t:
                ctx.hit("A:text:compared")
                if dmg is None:
                    compare_text_store(ctx, case, rec["raw"], rec["acc"], rec.get("moved"), rec["loaded_t"], out_t[k])
                elif out_t[k] != rec["loaded_t"]:
                    ctx.disagree({"fn": "load_path(damaged, text)", "damage": dmg, "case": case,
                                  "files": {n: None if b is None else b.decode("latin1") for n, b in rec["raw"].items()}},
                                 rec["loaded_t"], out_t[k])
        if k % 97 == 0:
            ctx.sample({"part": "A", "damage": dmg, "frames": len(case["frames"]), "files": nf, "loaded": rec["loaded"][:160]})


# --------------------------------------------------------------------------- part B
def mkstate(REPEX_state, n_ens, workers, out, seed):
    cfg = {"current": {"size": n_ens, "cstep": 0, "active": list(range(n_ens)), "locked": [], "traj_num": n_ens, "frac": {}},
           "runner": {"workers": workers},
           "simulation": {"seed": seed, "steps": 10 ** 9, "interfaces": [float(i) for i in range(n_ens)],
                          "shooting_moves": ["sh"] * n_ens, "tis_set": {"lambda_minus_one": False, "maxlength": 100},
                          "load_dir": "load", "ensemble_engines": [["engine"]] * n_ens},
           "output": dict({"screen": 0, "data_dir": "./", "data_file": "./infretis_data.txt", "pattern": False}, **out)}
    st = REPEX_state(cfg, minus=True)
    st.initiate_ensembles()
    st.engine_occ = {"engine": [-1] * workers}
    return st


def new_path(Path, System, wdir, tag, orders, nfiles, extra, alternate=False):
    """a trial path owning `nfiles` real files in wdir; extra[k] = extensions of side files of file k;
    alternate: frame i uses file i mod nfiles (the path comes BACK to a file after using another one, as a
    backward + forward + backward-file path does) instead of block-wise"""
    p = Path(maxlen=100)
    names = [os.path.join(wdir, f"{tag}_f{k}.xyz") for k in range(nfiles)]
    for k, nm in enumerate(names):
        with open(nm, "w") as fh:
            fh.write(nm + "\n")
        for e in extra[k]:
            with open(os.path.splitext(nm)[0] + e, "w") as fh:
                fh.write("side\n")
    for i, o in enumerate(orders):
        s = System()
        s.order = [float(o)]
        s.config = (names[i % nfiles if alternate else (i * nfiles) // len(orders)], i)
        s.vel_rev = bool(i % 2)
        p.phasepoints.append(s)
    p.generated = ("sh", 0.5, 1, len(orders))
    return p


def listing(load):
    out = []
    for d, _dirs, files in os.walk(load):
        rel = os.path.relpath(d, load)
        if rel != ".":
            out.append(rel + "/")
        for f in files:
            out.append(os.path.normpath(os.path.join(rel, f)))
    return sorted(out)


def traj_txt_names(load):
    """pn -> the file names the rows of the real load/pn/traj.txt refer to (second column of the non-comment lines)"""
    out = {}
    for d in os.listdir(load):
        f = os.path.join(load, d, "traj.txt")
        if d.isdigit() and os.path.isfile(f):
            with open(f, encoding="utf-8") as fh:
                rows = [ln.split() for ln in fh if ln.strip() and not ln.strip().startswith("#")]
            out[int(d)] = sorted({r[1] for r in rows if len(r) > 1})
    return out


def run_history(h, mods, tmp):
    """drive the real treat_output through history h; returns the per-call observations"""
    np, PathStorage, Path, load_path, REPEX_state, System = mods
    import tomli
    n_ens = h["n_ens"]
    root = tempfile.mkdtemp(dir=tmp)
    cwd = os.getcwd()
    os.chdir(root)
    real_fsync = os.fsync
    os.fsync = lambda fd: None      # FileIO.close fsyncs even read-only files; durability is not what is checked here
    obs = {"ops": [], "states": [], "fails": [], "init": []}
    try:
        out = {"delete_old": h["delete_old"], "delete_old_all": h["delete_old_all"]}
        if h["keep"] is not None:
            out["keep_traj_fnames"] = list(h["keep"])
        if h["delete_old"] is None:
            del out["delete_old"], out["delete_old_all"]
        if h.get("screen"):
            # output.screen = k > 0: every k-th step is printed (print_shooted / print_state run inside treat_output,
            # between the deletions and write_toml); the restart file must be rewritten after EVERY call all the same
            out["screen"] = h["screen"]
        st = mkstate(REPEX_state, n_ens, h["workers"], out, h["seed"])
        st.traj_data = {}      # REPEX_state.traj_data is a class-level dict: a real run starts with it empty
        os.makedirs("w")
        ps = PathStorage()
        paths = []
        for pn in range(n_ens):
            orders = [0.5, -0.5, 0.5] if pn == 0 else [-0.5, pn - 0.5, -0.5]
            p = new_path(Path, System, "w", f"init{pn}", orders, 1 + pn % 2, [[], []])
            p.path_number = pn
            ps.output(0, {"path": p, "dir": os.path.join(os.getcwd(), "load")})
            lp = load_path(os.path.join(os.getcwd(), "load", str(pn)))
            lp.path_number, lp.maxlen, lp.generated = pn, 100, ("ld", 0, 0, 0)
            paths.append(lp)
        st.load_paths(paths)
        st.write_toml()
        obs["init"] = [(pn, sorted(os.path.basename(a) for a in st.traj_data[pn]["adress"])) for pn in range(n_ens)]
        init_files = {f: open(os.path.join("load", f)).read() for f in listing("load") if not f.endswith("/")}
        base = {"mc_moves": st.mc_moves, "interfaces": st.interfaces, "cap": None}
        inflight = []
        while st.initiate() and len(inflight) < 8:
            inflight.append(st.prep_md_items(copy.deepcopy(base)))
        frozen = set()    # paths queued before a restart: pn_olds is not persisted, they are never deleted
        lag = {}          # pn -> (files, number of qualifying replacements still to come)
        stored = {}       # pn -> files referenced by its traj.txt
        for pn, names in obs["init"]:
            stored[pn] = names
        # the restart file on disk must name loadable paths at every moment: check at the most
        # exposed one, after all deletions of a call and just before restart.toml is rewritten
        real_write_toml = st.write_toml
        mid = {"bad": None}

        def holder_call():
            return holder["real"]()

        def checked_write_toml():
            try:
                with open("restart.toml", "rb") as fh:
                    act = tomli.load(fh)["current"]["active"]
                for pn in act:
                    try:
                        load_path(os.path.join("load", str(pn)))
                    except Exception as e:  # noqa: BLE001
                        mid["bad"] = f"path {pn} named by the restart.toml on disk does not load while treat_output runs: {type(e).__name__} {e}"
                        break
            except FileNotFoundError:
                pass
            return holder_call()
        st.write_toml = checked_write_toml
        holder = {"real": real_write_toml}
        for k, step in enumerate(h["steps"]):
            acc, which, shape = step[0], step[1], step[2]
            stale_sel = step[3] if len(step) > 3 else None
            md = inflight.pop(which % len(inflight))
            md["status"] = "ACC" if acc else "REJ"
            # what run_md would have added (only read by print_shooted on printed steps)
            md.setdefault("moves", ["sh"] * len(md["picked"]))
            md.setdefault("trial_len", [3] * len(md["picked"]))
            md.setdefault("trial_op", [(-0.5, 0.5)] * len(md["picked"]))
            md.setdefault("md_start", 0.0)
            ops_here = [("X",)] if obs.pop("pending_x", False) else []     # the restart taken after the previous call
            if stale_sel is not None:
                # a stale file (as left by an interrupted store) appears in some existing accepted/ directory
                dirs_now = sorted(int(x) for x in os.listdir("load") if os.path.isdir(os.path.join("load", x, "accepted")))
                pn_s = dirs_now[stale_sel % len(dirs_now)]
                nm = f"stale{k}.tmp"
                with open(os.path.join("load", str(pn_s), "accepted", nm), "w") as fh:
                    fh.write("stale\n")
                ops_here.append(("S", pn_s, nm))
            mid["bad"] = None
            if acc:
                for j, ens_num in enumerate(md["picked"]):
                    nfiles, extra = shape[j % len(shape)]
                    if ens_num == -1:
                        p = new_path(Path, System, md["w_folder"], f"s{k}e{j}", [0.5, -0.5, 0.5], nfiles, extra, alternate=k % 2 == 1)
                        p.weights = (1.0,)
                    else:
                        p = new_path(Path, System, md["w_folder"], f"s{k}e{j}", [-0.5, n_ens - 0.5, -0.5], nfiles, extra, alternate=k % 2 == 1)
                        p.weights = tuple([1.0] * (n_ens - 1) + [0.0])
                    pn_old = md["picked"][ens_num]["pn_old"]
                    files = sorted({os.path.basename(s.config[0]) for s in p.phasepoints})
                    kept = sorted({os.path.splitext(f"s{k}e{j}_f{m}.xyz")[0] + e for m in range(nfiles) for e in extra[m]
                                   if e in (h["keep"] or []) and f"s{k}e{j}_f{m}.xyz" in files})
                    md["picked"][ens_num]["traj"] = p
                    ops_here.append(("R", pn_old, files, kept))
            ops_here.append(("F",))
            err = None
            try:
                md = st.treat_output(md)
            except Exception as e:  # noqa: BLE001
                err = e
            # ---- observation after the call
            with open("restart.toml", "rb") as fh:
                try:
                    active = tomli.load(fh)["current"]["active"]
                except Exception as e:  # noqa: BLE001
                    active = ekind(e)
            state = {"err": None if err is None else ekind(err), "live": sorted(st.live_paths()),
                     "olds": [int(x) for x in st.pn_olds], "restart": active if isinstance(active, str) else sorted(active),
                     "disk": listing("load"), "txt": traj_txt_names("load")}
            obs["ops"].append(ops_here)
            obs["states"].append(state)
            # ---- property predicates on the real files
            where = {"step": k}
            if mid["bad"]:
                obs["fails"].append(("C14:restart-referenced-path-lost-file", mid["bad"], where))
            if h["delete_old"] and n_ens == 2 and sum(1 for op in ops_here if op[0] == "R") == 2:
                obs["zero_swaps_n3"] = obs.get("zero_swaps_n3", 0) + 1
            if err is not None:
                errno_ = getattr(err, "errno", None)
                if isinstance(err, OSError) and errno_ == 39 and h["delete_old_all"] and h["keep"]:
                    obs["fails"].append((SIG_RMDIR, f"treat_output raised {type(err).__name__}: {err} (kept side files are not in adress)", where))
                elif isinstance(err, OSError) and errno_ == 39 and h["delete_old_all"]:
                    obs["fails"].append(("C14:delete_old_all:rmdir-nonempty-with-stale-files",
                                         f"treat_output raised {type(err).__name__}: {err} (a stale file lies in accepted/)", where))
                else:
                    obs["fails"].append((f"C14:delete-block-raises:{ekind(err)}", f"treat_output raised {type(err).__name__}: {err}", where))
            live_now = list(st.live_paths()) if err is None else []
            loads = {}
            for pn in sorted(set(live_now) | set([] if isinstance(active, str) else active)):
                try:
                    load_path(os.path.join("load", str(pn)))
                    loads[pn] = None
                except Exception as e:  # noqa: BLE001
                    loads[pn] = f"{type(e).__name__} {e}"
            for pn in live_now:
                miss = [a for a in st.traj_data[pn]["adress"] if not os.path.isfile(a)]
                if loads[pn] is not None or miss:
                    obs["fails"].append(("C14:live-path-lost-file", f"live path {pn}: load_path → {loads[pn]}, missing {miss}", where))
            # the live path OBJECT (what PathStorage.output returned and add_traj installed) and its stored form agree
            # frame by frame: same file, index, velocity direction, all under the path's own directory
            if err is None:
                for tr in st._trajs[:-1]:
                    pn = tr.path_number
                    if loads.get(pn, 1) is not None:
                        continue
                    try:
                        lp_ = load_path(os.path.join("load", str(pn)))
                        obj = [(os.path.realpath(s_.config[0]), 0 if s_.config[1] is None else s_.config[1], bool(s_.vel_rev)) for s_ in tr.phasepoints]
                        sto = [(os.path.realpath(s_.config[0]), s_.config[1], bool(s_.vel_rev)) for s_ in lp_.phasepoints]
                        if obj != sto:
                            bad_i = next((i for i, (a_, b_) in enumerate(zip(obj, sto)) if a_ != b_), min(len(obj), len(sto)))
                            obs["fails"].append(("C14:live-path-object-differs-from-stored-form",
                                                 f"live path {pn}: frame {bad_i} of the object in memory is {obj[bad_i] if bad_i < len(obj) else None}, "
                                                 f"of load_path(load/{pn}) {sto[bad_i] if bad_i < len(sto) else None}", where))
                    except Exception as e:  # noqa: BLE001
                        obs["fails"].append(("C14:live-path-object-differs-from-stored-form", f"live path {pn}: {type(e).__name__}: {e}", where))
            for pn in ([] if isinstance(active, str) else active):
                if loads[pn] is not None:
                    obs["fails"].append(("C14:restart-referenced-path-lost-file",
                                         f"restart.toml lists path {pn} which does not load: {loads[pn]}", where))
            for f, content in init_files.items():
                full = os.path.join("load", f)
                if not os.path.isfile(full) or open(full).read() != content:
                    obs["fails"].append(("C14:initial-path-touched", f"initial file load/{f} removed or changed", where))
                    break
            # lag: every qualifying replacement queues pn_old; its files must survive exactly n_ens-1 … see `expect`
            if err is None:
                for op in ops_here:
                    if op[0] != "R":
                        continue
                    _, pn_old, files, kept = op
                    pn_new = max(stored) + 1
                    stored[pn_new] = files
                    if h["delete_old"] and pn_old >= n_ens:
                        for q in lag:
                            lag[q] -= 1
                        lag[pn_old] = n_ens      # = self.n - 1 later qualifying replacements
                for q in sorted(lag):
                    present = [os.path.isfile(os.path.join("load", str(q), "accepted", a)) for a in stored[q]]
                    if lag[q] > 0 and not all(present):
                        obs["fails"].append(("C14:deleted-before-lag", f"files of replaced path {q} removed {lag[q]} replacements early", where))
                    if lag[q] <= 0 and any(present):
                        obs["fails"].append(("C14:not-deleted-after-lag", f"files of replaced path {q} still there {-lag[q]} replacements after the lag", where))
                if not h["delete_old"]:
                    for q in stored:
                        if not all(os.path.isfile(os.path.join("load", str(q), "accepted", a)) for a in stored[q]):
                            obs["fails"].append(("C14:deleted-without-delete_old", f"files of path {q} removed", where))
            if err is not None:
                break
            for q in sorted(frozen):
                if not all(os.path.isfile(os.path.join("load", str(q), "accepted", a)) for a in stored[q]):
                    obs["fails"].append(("C14:deleted-before-lag", f"files of path {q}, queued before the restart, were removed", where))
            if len(step) > 4 and step[4] and h["workers"] == 1:
                # ---- restart between two calls: a new REPEX_state from restart.toml and the paths on disk
                from infretis.classes.path import load_paths_from_disk
                with open("restart.toml", "rb") as fh:
                    cfg = tomli.load(fh)
                cfg["current"]["restarted_from"] = cfg["current"]["cstep"]
                try:
                    st = REPEX_state(cfg, minus=True)
                    st.traj_data = {}
                    st.initiate_ensembles()
                    st.load_paths(load_paths_from_disk(cfg))
                except Exception as e:  # noqa: BLE001
                    obs["fails"].append(("C14:restart-referenced-path-lost-file",
                                         f"restart from the restart.toml on disk failed: {type(e).__name__}: {e}", where))
                    break
                st.engine_occ = {"engine": [-1] * h["workers"]}
                holder["real"] = st.write_toml
                st.write_toml = checked_write_toml
                base = {"mc_moves": st.mc_moves, "interfaces": st.interfaces, "cap": None}
                inflight = []
                while st.initiate() and len(inflight) < 8:
                    inflight.append(st.prep_md_items(copy.deepcopy(base)))
                frozen |= {q for q in lag if lag[q] > 0}
                lag = {}
                obs["pending_x"] = True
                obs["restarts"] = obs.get("restarts", 0) + 1
                continue
            if h.get("screen") is not None:
                st.loop()        # the scheduler's `while state.loop():` — advances cstep, which printing() looks at
            inflight.append(st.prep_md_items(md))
    except Exception as e:  # noqa: BLE001   (a harness-side surprise must not hide what was already judged)
        obs["harness_error"] = f"{type(e).__name__}: {e}"
    finally:
        os.fsync = real_fsync
        os.chdir(cwd)
        shutil.rmtree(root, ignore_errors=True)
    return obs


def hist_line(h, obs, variant="r"):
    """variant: r = the repaired delete_old_all branch (current /repo), a = as it was before commit 867b445"""
    n = h["n_ens"] + 1
    out = ["hist", str(n), "1" if h["delete_old"] else "0", "1" if h["delete_old_all"] else "0", variant,
           lst(list(h["keep"] or []), hexs), str(len(obs["init"]))]
    for pn, names in obs["init"]:
        out += [str(pn), lst(names)]
    flat = [op for ops in obs["ops"][:obs.get("cut")] for op in ops]
    out.append(str(len(flat)))
    for op in flat:
        if op[0] == "F":
            out.append("F")
        elif op[0] == "X":
            out.append("X")
        elif op[0] == "S":
            out += ["S", str(op[1]), op[2]]
        else:
            out += ["R", str(op[1]), lst(op[2]), lst(op[3])]
    return " ".join(out)


def model_states(line_out, obs):
    """model state after the last op of each treat_output call (or at the error)"""
    sts = line_out.split(" | ") if line_out else []
    res, pos = [], 0
    for ops in obs["ops"][:obs.get("cut")]:
        take = sts[pos:pos + len(ops)]
        pos += len(ops)
        if not take:
            res.append(None)
            continue
        s = take[-1]
        m = re.match(r"^(\S+) live:(\S*) olds:(\S*) restart:(\S*) disk:(\S*) txt:(\S*)$", s)
        nums = lambda x: [int(v) for v in x.split(",") if v]  # noqa: E731
        disk = sorted(set(v for v in m.group(5).split(",") if v))
        # the model's record of what load/pn/traj.txt refers to, for the traj.txt files that exist in the model's disk
        txt = {}
        for ent in m.group(6).split(";"):
            if ent:
                pn, names = ent.split("=", 1)
                if f"{pn}/traj.txt" in disk:
                    txt[int(pn)] = sorted(set(n for n in names.split("+") if n))
        res.append({"err": None if m.group(1) == "ok" else m.group(1), "live": sorted(nums(m.group(2))), "olds": nums(m.group(3)),
                    "restart": sorted(nums(m.group(4))), "disk": disk, "txt": txt})
    return res


def gen_histories(ctx):
    rng = ctx.rng
    hs = []
    settings = [(d, a, k) for d in (False, True) for a in (False, True) for k in (None, (".adp",))]
    settings.append((None, None, (".adp", ".log")))     # keys absent from the config
    settings.append((True, True, (".adp", ".log")))     # several kept extensions
    settings.append((True, True, ()))                   # keep_traj_fnames = []
    settings.append((True, False, (".log",)))

    def shape():
        out = []
        for _ in range(2):
            nf = rng.randint(1, 3)
            out.append((nf, [rng.choice([[], [".adp"], [".adp", ".log"], [".log"]]) for _ in range(nf)]))
        return out
    # exhaustive accept/reject patterns, small
    L = 5 if ctx.quick else 7
    for (d, a, k) in (settings[:8] if ctx.quick else settings):
        if d is None:
            continue
        if not ctx.quick and not d:
            continue
        for n_ens in ((2,) if ctx.quick else (2, 3)):
            for pat in itertools.product((1, 0), repeat=L if n_ens == 2 else L - 1):
                if ctx.quick and (not d) and sum(pat) not in (L, L - 1):
                    continue
                hs.append({"n_ens": n_ens, "workers": 1, "seed": 0, "delete_old": d, "delete_old_all": a, "keep": k,
                           "steps": [(bool(x), 0, [(1, [[".adp"]]), (2, [[], [".adp"]])]) for x in pat], "kind": "exhaustive"})
    # random
    nrand = 5 if ctx.quick else 30
    for (d, a, k) in settings:
        for n_ens in (2, 3, 4, 5):
            for r in range(nrand if n_ens < 5 else max(3, nrand // 3)):
                workers = rng.choice([1, max(1, n_ens // 2)])   # 2·W ≤ n_ens: a zero swap locks two ensembles
                nsteps = rng.randint(n_ens + 2, 5 * n_ens + 6)
                pacc = rng.choice([0.5, 0.8, 1.0])
                restart_here = workers == 1 and rng.random() < 0.3
                hs.append({"n_ens": n_ens, "workers": workers, "seed": rng.randrange(1000), "delete_old": d, "delete_old_all": a,
                           "keep": k, "steps": [(rng.random() < pacc, rng.randrange(8), shape(),
                                                 rng.randrange(50) if rng.random() < 0.25 else None,
                                                 restart_here and rng.random() < 0.15) for _ in range(nsteps)],
                           "kind": "random"})
                if r % 2 == 1:
                    # the step counter runs (state.loop() before every job) and only every screen-th step is printed
                    hs[-1]["screen"] = rng.choice([0, 1, 2, 3, 5, 7])
    # output.screen: printed and unprinted steps, long accept runs with delete_old (every call must rewrite restart.toml)
    for n_ens in ((2, 3) if ctx.quick else (2, 3, 4, 5)):
        for screen in ((3, 5) if ctx.quick else (2, 3, 5, 10)):
            for a in (False, True):
                nsteps = 4 * n_ens + 8
                hs.append({"n_ens": n_ens, "workers": 1, "seed": rng.randrange(1000), "delete_old": True, "delete_old_all": a,
                           "keep": (".adp",), "screen": screen,
                           "steps": [(rng.random() < 0.9, rng.randrange(8), shape(), None, False) for _ in range(nsteps)],
                           "kind": "screen"})
    return hs


def part_b(ctx, tmp, only=None):
    mods = _imports()
    hs = gen_histories(ctx) if only is None else only
    allobs = [run_history(h, mods, tmp) for h in hs]
    outs = ctx.driver([hist_line(h, o, "r") for h, o in zip(hs, allobs)]) if ctx._driver_ok else None
    outs_old = ctx.driver([hist_line(h, o, "a") for h, o in zip(hs, allobs)]) if ctx._driver_ok else None
    nfail = 0
    fields = ("err", "live", "olds", "restart", "disk", "txt")
    for k, (h, obs) in enumerate(zip(hs, allobs)):
        key = f"B:n={h['n_ens']},del={h['delete_old']},all={h['delete_old_all']},keep={'y' if h['keep'] else 'n'}"
        if h.get("screen"):
            ctx.hit("B:histories-with-unprinted-steps(screen>1)" if h["screen"] > 1 else "B:histories-every-step-printed(screen=1)")
        ctx.count(len(obs["states"]), branch=key)
        ctx.hit("B:histories")
        if obs.get("restarts"):
            ctx.hit("B:restarts-between-calls", obs["restarts"])
        if obs.get("harness_error"):
            ctx.extra.setdefault("harness_errors", []).append(obs["harness_error"])
        if obs.get("zero_swaps_n3"):
            ctx.hit("B:accepted-zero-swap-calls,2-interfaces,delete_old", obs["zero_swaps_n3"])
        if any(st_[0] for st_ in h["steps"]):
            ctx.distinct(("B", repr(h)))
        rep = {"part": "B", "history": h}
        sigs = set()
        for sig, what, where in obs["fails"]:
            ctx.fail(sig, what, dict(rep, **where))
            sigs.add(sig)
            nfail += 1
        if outs is not None:
            ms = model_states(outs[k], obs)
            mo = model_states(outs_old[k], obs)
            for i, (c, m) in enumerate(zip(obs["states"], ms)):
                if m is None or any(c[f] != m[f] for f in fields):
                    diff = None if m is None else {f: (c[f], m[f]) for f in fields if c[f] != m[f]}
                    old = mo[i] if i < len(mo) else None
                    as_old = old is not None and all(c[f] == old[f] for f in fields)
                    ctx.disagree({"fn": "treat_output", "history": h, "call": i, "ops": obs["ops"][i]}, diff,
                                 "model(repaired) differs" + ("; the code behaves like the model of the code before the repair (asIs)" if as_old else ""))
                    if as_old and SIG_RMDIR not in sigs:
                        ctx.fail(SIG_RMDIR, "treat_output behaves like the delete_old_all branch before the repair "
                                            "(kept side files left behind / rmdir on a non-empty directory)", dict(rep, step=i))
                        nfail += 1
                    break
        if k % 211 == 0:
            ctx.sample({"part": "B", "n_ens": h["n_ens"], "delete_old": h["delete_old"], "delete_old_all": h["delete_old_all"],
                        "keep": h["keep"], "calls": len(obs["states"]), "last": obs["states"][-1] if obs["states"] else None})
    return nfail


def replay_corpus(ctx, tmp):
    """corpus/C14/*.json first: witnesses of past findings, as recorded replay files"""
    import json
    from common import CORPUS
    files = sorted((CORPUS / "C14").glob("*.json")) if (CORPUS / "C14").is_dir() else []
    for f in files:
        r = json.loads(f.read_text()).get("replay", {})
        ctx.hit("corpus")
        if r.get("part") == "B":
            part_b(ctx, tmp, only=[r["history"]])
        elif r.get("part") == "A":
            case = r["case"]
            root = tempfile.mkdtemp(dir=tmp)
            pred = limit_roundtrip(case, root)["pred"]      # honours the case's own maxlen / lowered default limit
            shutil.rmtree(root, ignore_errors=True)
            ctx.count(1, branch="A:corpus")
            if pred is not None:
                ctx.fail("C14:roundtrip", pred, r)
    ctx.extra["corpus_files"] = [f.name for f in files]


def run(ctx):
    ctx.rule = ("A: seeded random paths (1–13 frames, 40 in thorough; 1–3 files in 1–2 source dirs, block-wise or interleaved frame→file "
                "maps, idx None/any, reversed frames, 0–3 order columns, energies both/none/mixed) stored by the real "
                "PathStorage.output and reloaded by load_path, then the same with one of 19 kinds of damage to the archive; "
                "non-trivial = multi-file or reversed or missing energy, or any damaged case; distinct by the whole case. "
                "B: accept/reject histories through the real treat_output: exhaustive patterns of length 5 (7, 6) for 2 (2, 3) "
                "ensembles and every (delete_old, delete_old_all, keep_traj_fnames) setting, then seeded random histories for "
                "2–5 ensembles, 1–2 workers; non-trivial = at least one accepted move; distinct by the whole history.")
    os.makedirs(ROOT, exist_ok=True)
    tmp = tempfile.mkdtemp(prefix="verif-c14-", dir=ROOT)
    try:
        replay_corpus(ctx, tmp)
        part_a(ctx, tmp)
        ctx.extra["part_a_s"] = round(ctx.elapsed(), 1)
        part_a_limits(ctx, tmp)
        ctx.extra["part_a_limits_s"] = round(ctx.elapsed(), 1)
        part_a_text(ctx, tmp)
        ctx.extra["part_a_text_s"] = round(ctx.elapsed(), 1)
        part_a_tables(ctx)
        part_a_move(ctx, tmp)
        ctx.extra["part_a_move_s"] = round(ctx.elapsed(), 1)
        part_a_lpfd(ctx, tmp)
        ctx.extra["part_a_lpfd_s"] = round(ctx.elapsed(), 1)
        part_b(ctx, tmp)
        ctx.extra["part_b_s"] = round(ctx.elapsed(), 1)
    finally:
        shutil.rmtree(tmp, ignore_errors=True)
    ctx.exhaustive = False
    ctx.assumptions += [
        "file basenames are single tokens — none of the 29 characters str.split() separates at (ASCII white space AND U+0085, U+00A0, U+1680, U+2000–200A, U+2028/9, U+202F, U+205F, U+3000; the model's set is compared with chr(c).isspace()/split()/strip() over all code points on every run) — and unique per source file within a path (engine names carry ensemble, pid and a counter); names with such a character are generated too: the archive must fail to load (or lose the frame) in model and code alike; non-ASCII letters in names must round-trip",
        "text is Unicode (files are UTF-8); digits are ASCII: tokens of non-ASCII digits that int()/float() accept are outside the model's reader domain and not compared",
        "±inf order parameters / energies are inside the text model (written inf / -inf, read back); the token-level model (Infretis.Store) carries finite k·10⁻⁶ values and NaN only",
        "order parameters / energies fed are k·10⁻⁶ with |k| < 10¹⁰, so float(f'{x:.6f}') == x exactly; str.format/int()/float()/split() are not modelled (typed tokens)",
        "os.path.splitext(basename) splits the generated names at their single dot",
        "every frame of a path has the same number of order parameters (rows with another column count are skipped by read_some_lines)",
        "trial paths own fresh files in the worker directory (true of shoot / wire_fencing / retis_swap_zero: propagate and dump_phasepoint write new files)",
        "at most n−1 replacements per treat_output call (the code picks one or two ensembles; n ≥ 3)",
        "the model's ghost record St.txt (what load/pn/traj.txt refers to — the `Intact` theorems speak about it) is compared with the names in the real traj.txt files after every call",
        "the live path OBJECT in memory (returned by PathStorage.output, installed by add_traj) is compared frame by frame with load_path of its directory after every call; trial paths use their files block-wise or alternating (coming back to a file after another one)",
        "output.screen: histories with 0, 1 and k > 1 (state.loop() advances cstep before every job, so only every k-th step is printed); os.fsync is stubbed during histories (FileIO.close fsyncs read handles; durability is C08's subject)",
        "pn_olds is not persisted: after a restart queued paths are never deleted (checked: their files must stay)",
        "object state is tie-only (the model is functional): ONE PathStorage stores every path of part A and each archive is compared byte-wise with a fresh object's; the loaded path is stored and loaded a second time; earlier loaded paths are re-read after later stores/loads (no aliasing)",
        "restarts between calls (1 worker): a new REPEX_state is built from restart.toml + load_paths_from_disk; the model takes the same restart (Infretis.Store.restartSt) and the state-for-state comparison goes on across it",
        "two source files with the SAME basename inside one path overwrite each other in accepted/ (unchanged code; engines name files by ensemble, pid and counter) — not generated, reported separately",
    ]


def replay_move(case, tmp):
    """re-run one recorded _move_path case; 1 if a referenced file is still not under accepted/ with its content"""
    root = os.path.join(tmp, "mv")
    os.makedirs(root)
    rec = run_move_case(case, root)
    if rec["err"] != "ok":
        print("PathStorage.output raised", rec["err"])
        return 1
    for (d, n), (md, mn) in zip(case["frames"], rec["moved_cfg"]):
        if md != rec["accrel"] or mn != n or rec["after"].get((rec["accrel"], n)) != rec["before"].get((d, n)) \
                or (d, n) in rec["after"]:
            print("frame file", d, n, "→", md, mn, "content", rec["after"].get((rec["accrel"], n)), "expected", rec["before"].get((d, n)))
            return 1
    for d, n in dict.fromkeys(tuple(x) for x in case["frames"]):
        for e in case["keep"]:
            sn = os.path.splitext(n)[0] + e
            if (d, sn) in rec["before"] and rec["after"].get((rec["accrel"], sn)) != rec["before"][(d, sn)]:
                print("kept side file not moved:", sn)
                return 1
    return 0 if len(rec["moved_cfg"]) == len(case["frames"]) else 1


def replay(ctx, obj):
    r = obj.get("replay", {})
    os.makedirs(ROOT, exist_ok=True)
    tmp = tempfile.mkdtemp(prefix="verif-c14-replay-", dir=ROOT)
    try:
        if r.get("part") == "B":
            mods = _imports()
            obs = run_history(r["history"], mods, tmp)
            for sig, what, where in obs["fails"]:
                print(sig, what, where)
            want = obj.get("signature")
            return 1 if any(sig == want for sig, _w, _x in obs["fails"]) or (want is None and obs["fails"]) else 0
        if r.get("part") == "A-move":
            return replay_move(r["case"], tmp)
        if r.get("part") == "A":
            case = r["case"]
            root = os.path.join(tmp, "a")
            os.makedirs(root)
            pred = limit_roundtrip(case, root)["pred"]      # honours the case's own maxlen / lowered default limit
            print("predicate:", pred)
            return 0 if pred is None else 1
        print("no concrete failing input recorded:", obj.get("kind"))
        return 1
    finally:
        shutil.rmtree(tmp, ignore_errors=True)
