"""C15 — path algebra: paste, reverse, copy and classification are consistent.

Tie (DESIGN §6 C15):
 1. random op programs (prelude + ≤ 12 ops from paste / reverse / copy / iadd / append / assign-field /
    in-place order[0] / assign-path-field) run on REAL `Path` / `System` objects; object identity is
    canonicalised into reference numbers (order of first appearance, paths in order, frames in
    order), identity of the `order` list objects likewise, all fields dumped; the Lean driver
    (Infretis.PathAlg.Machine) replays the same program and must print the same line;
 2. exhaustive classification (ordermin / ordermax / check_interfaces / get_start_point /
    get_end_point) over a 5-level alphabet up to length 6 for several interface triples
    (ordered, with equal members, unordered), plus short / empty interface lists;
 2b. multi-step histories on ONE Path object: build → classify (ordermin / ordermax / check_interfaces /
    success / get_start_point / get_end_point) → change it in place without changing its length (order
    re-assignment on a frame, frame replacement, the extender idiom `phasepoints[:-1] + seg`, `+=` /
    append then delete, reverse() / copy() of a classified path) → classify again; every answer is
    compared with the Lean model on the CURRENT frames and with the extreme values of the current
    order list (C15:stale-classification when the object answers differently from a fresh path);
 3. the property predicates are evaluated directly on the real objects while a program runs
    (paste length / order / head / time origin; reverse order / flags / twice; mutate a copy →
    nothing else changes; classification vs min / max of the sequence).
 4. extension pass: `__eq__` / `__ne__`, `get_shooting_point` (stub generator recording the request; real numpy
    Generator for the predicate "never an end point"), `update_energies`, `empty_path` with omitted keywords,
    `adress`, `reverse_velocities`, `set_pos`, subclasses of Path (class kept by copy / reverse / paste /
    empty_path) are ops of the same machine; the identity of the pos / vel / box arrays and of the temperature
    dict is part of the dump and in-place mutation of them is an op (who sees it = who shares the container);
    the warnings of paste_paths / += / update_energies (which loop gave up, at which length) are captured and
    compared with the model.
 5. audit follow-up: every program runs at a dyadic scale S (order values / interfaces / targets are h/S, read back
    exactly; the model gets the integers h), so threshold shifts below 1 are visible; a family of LONG paths
    (64 / 200 / 1000 frames, limits around the length); paste_paths has no legitimate exception any more (fix
    960b399; the witness is replayed from corpus/C15); reversing an over-limit path twice is evaluated, judged
    against the model's closed form and counted.
"""
from __future__ import annotations

import itertools
import json

from common import err_kind, lst

FIELDS = ("config", "order", "velrev", "ekin", "vpot", "pos", "vel", "box", "temp")


def _imports():
    import importlib.util  # noqa: F401
    import numpy as np
    from infretis.classes import path as pathmod
    from infretis.classes.path import Path, paste_paths
    from infretis.classes.system import System
    return np, pathmod, Path, paste_paths, System


# --------------------------------------------------------------------------- values <-> tokens
# Order values, interfaces and classification targets are DYADIC: an op program starts with ("scale", S) (S a power
# of two, default 1) and every order-like integer h in it means the real value h / S (exact as a float).  The Lean
# model is unchanged: it is fed the integers h, i.e. S times the real values (all comparisons are scale invariant; an
# order function a*pos ± b*vel + c is sent as (a*S, b*S, c)).  Values read back from the real objects are converted
# EXACTLY (fractions), never rounded: a threshold shifted by less than 1 in the code cannot hide behind int().
_SC = [1]


def set_scale(S):
    _SC[0] = int(S)


def real(h):
    """the real value h / S as the code sees it: a Python int when integral and even (as before: ints and floats are
    mixed on purpose), else an exact float"""
    S = _SC[0]
    if h % S == 0 and (h // S) % 2 == 0:
        return int(h // S)
    return h / S


def exact(x, S=1):
    """x*S as an int when integral, else as an exact Fraction; 'nan' / 'inf' for non-finite values"""
    if type(x) is int:
        return x * S
    try:
        y = x * S                      # S is a power of two: exact unless it overflows
        if y == y and abs(y) < 1e300 and float(y).is_integer():
            return int(y)
    except Exception:  # noqa: BLE001
        pass
    from fractions import Fraction
    try:
        f = Fraction(x) * S
    except (ValueError, OverflowError):
        return "nonfinite:" + repr(float(x))
    except TypeError:
        f = Fraction(float(x)) * S
    return int(f.numerator) if f.denominator == 1 else f


def sc(x):
    return exact(x, _SC[0])


def tok(x):
    return str(sc(x))


def opt(x):
    return "-" if x is None else str(exact(x))


class LinOrder:
    """order function [a*pos + (±b)*vel + c]; the sign is − when vel_rev (velocity dependence)"""

    def __init__(self, a, b, c, vd):
        self.a, self.b, self.c = a, b, real(c)      # c comes in scaled units
        self.velocity_dependent = bool(vd)

    def calculate(self, system):
        sign = -1 if system.vel_rev else 1
        return [float(self.a * system.pos[0] + sign * self.b * system.vel[0] + self.c)]


def set_field(np, s, field, value):
    if field == "config":
        if (int(value[0]) + int(value[1])) % 2 == 0:
            s.set_pos((str(value[0]), int(value[1])))      # System.set_pos: `self.config = (pos[0], pos[1])`
        else:
            s.config = (str(value[0]), int(value[1]))
    elif field == "order":
        # integer-valued order parameters: even values are stored as Python ints, odd ones as floats
        s.order = [real(x) for x in value]
    elif field == "velrev":
        s.vel_rev = bool(value)
    elif field == "ekin":
        s.ekin = None if value is None else float(value)
    elif field == "vpot":
        s.vpot = None if value is None else float(value)
    elif field == "pos":
        s.pos = np.array([float(value)])
    elif field == "vel":
        s.vel = np.array([float(value)])
    elif field == "box":
        s.box = np.array([float(value)])
    elif field == "temp":
        s.temperature = {"t": float(value)}
    else:
        raise KeyError(field)


def field_token(field, value):
    if field == "config":
        return f"config {value[0]} {value[1]}"
    if field == "order":
        return "order " + lst(value)
    if field == "velrev":
        return f"velrev {int(bool(value))}"
    if field in ("ekin", "vpot"):
        return f"{field} {opt(value)}"
    return f"{field} {value}"


def sys_fields(s):
    """all fields of a System as a tuple of plain values (no identities)"""
    return (int(s.config[0]), int(s.config[1]), tuple(sc(x) for x in s.order), int(bool(s.vel_rev)),
            opt(s.ekin), opt(s.vpot), exact(s.pos[0]), exact(s.vel[0]), exact(s.box[0]), exact(s.temperature["t"]))


def sys_token(s, oo, ids=""):
    f = sys_fields(s)
    return f"S {f[0]} {f[1]} o{oo} {lst(f[2])} {f[3]} {f[4]} {f[5]} {f[6]} {f[7]} {f[8]} {f[9]} {ids}"


ARRS = ("pos", "vel", "box", "temp")


def arr_obj(s, a):
    return s.temperature if a == "temp" else getattr(s, a)


def set_arr_item(s, a, x, how=0):
    """in-place mutation of the container object held in field `a` (no re-assignment of the attribute)"""
    if a == "temp":
        if how % 2:
            s.temperature.update({"t": float(x)})
        else:
            s.temperature["t"] = float(x)
    else:
        arr = getattr(s, a)
        if how % 3 == 0:
            arr[0] = float(x)
        elif how % 3 == 1:
            arr[...] = float(x)
        else:
            arr.fill(float(x))


_SUBS = {}


def path_class(Path, c):
    """class number c: 0 = Path itself, c >= 1 = a (cached) direct subclass"""
    if c == 0:
        return Path
    key = (id(Path), c)
    if key not in _SUBS:
        _SUBS[key] = type(f"SubPath{c}", (Path,), {})
    return _SUBS[key]


class StubGen:
    """stands in for numpy's Generator: records every request, answers `low + u mod (high − low)`;
    like numpy it raises ValueError when low >= high"""

    def __init__(self, u):
        self.u = int(u)
        self.calls = []

    def integers(self, low, high=None, *a, **kw):
        self.calls.append((low, high))
        if high is None:
            low, high = 0, low
        low, high = int(low), int(high)
        if low >= high:
            raise ValueError("low >= high")
        return low + self.u % (high - low)


class Capture:
    """collects the WARNING records of infretis.classes.path while a program runs (which loop of paste_paths /
    __iadd__ / update_energies gave up is only visible there)"""

    def __init__(self):
        import logging

        class H(logging.Handler):
            def __init__(hs):
                super().__init__(level=logging.WARNING)
                hs.msgs = []

            def emit(hs, record):
                try:
                    hs.msgs.append(record.getMessage())
                except Exception:  # noqa: BLE001
                    hs.msgs.append("unformattable")
        self.h = H()
        self.logger = logging.getLogger("infretis.classes.path")

    def __enter__(self):
        import logging
        self.saved = (self.logger.level, self.logger.propagate)
        self.logger.setLevel(logging.WARNING)
        self.logger.propagate = False
        self.logger.addHandler(self.h)
        return self

    def __exit__(self, *a):
        self.logger.removeHandler(self.h)
        self.logger.setLevel(self.saved[0])
        self.logger.propagate = self.saved[1]
        return False

    def take(self):
        out, self.h.msgs = self.h.msgs, []
        return out


def warn_tokens(msgs):
    import re
    toks = []
    for m in msgs:
        for pat, t in ((r"Unequal length: Using (\S+) for", "uneq"), (r"Truncated while pasting backwards at: (\S+)", "tb"),
                       (r"Truncated path at: (\S+)", "tf"), (r"Truncated path at (\S+) while adding", "ti")):
            mm = re.search(pat, m)
            if mm:
                toks.append(f"{t}:{mm.group(1)}")
                break
    return toks


PFIELDS = ("maxlen", "status", "generated", "pathnum", "weights", "weight", "torigin")


def set_pfield(p, field, value):
    if field == "maxlen":
        p.maxlen = value
    elif field == "status":
        p.status = "" if value == 0 else f"s{value}"
    elif field == "generated":
        p.generated = None if value is None else ("sh", value)
    elif field == "pathnum":
        p.path_number = value
    elif field == "weights":
        p.weights = None if value is None else (float(value),)
    elif field == "weight":
        p.weight = float(value)
    elif field == "torigin":
        p.time_origin = value
    else:
        raise KeyError(field)


def path_token(p, refs):
    status = 0 if p.status == "" else int(p.status[1:])
    gen = None if p.generated is None else p.generated[1]
    wts = None if p.weights is None else p.weights[0]
    return (f"P {opt(p.maxlen)} {status} {opt(gen)} {opt(p.path_number)} {opt(wts)} {exact(p.weight)} "
            f"{exact(p.time_origin)} " + lst(p.phasepoints, lambda s: f"r{refs[id(s)]}"))


def op_tokens(op, S=1):
    k = op[0]
    if k == "scale":
        return ""
    if k == "new":
        return f"new {opt(op[1])} {op[2]}"
    if k == "sys":
        v = op[2]
        return (f"sys {op[1]} {v['config'][0]} {v['config'][1]} {lst(v['order'])} {int(v['velrev'])} "
                f"{opt(v['ekin'])} {opt(v['vpot'])} {v['pos']} {v['vel']} {v['box']} {v['temp']}")
    if k == "app":
        return f"app {op[1]} {op[2]} {op[3]}"
    if k == "iadd":
        return f"iadd {op[1]} {op[2]}"
    if k == "copy":
        return f"copy {op[1]}"
    if k == "rev":
        of = "-" if op[2] is None else "f {} {} {} {}".format(op[2][0] * S, op[2][1] * S, op[2][2], int(op[2][3]))
        return f"rev {op[1]} {of} {int(op[3])}"
    if k == "paste":
        return f"paste {op[1]} {op[2]} {int(op[3])} {opt(op[4])}"
    if k == "set":
        return f"set {op[1]} {op[2]} " + field_token(op[3], op[4])
    if k == "seti":
        return f"seti {op[1]} {op[2]} {op[3]}"
    if k == "pset":
        return f"pset {op[1]} {op[2]} {opt(op[3]) if op[2] in ('maxlen', 'generated', 'pathnum', 'weights') else op[3]}"
    if k == "classify":
        return f"classify {op[1]} {op[2]} " + lst(op[3])
    if k == "repl":
        return f"repl {op[1]} {op[2]} {op[3]} {op[4]}"
    if k == "ext":
        return f"ext {op[1]} {op[2]}"
    if k == "del":
        return f"del {op[1]} {op[2]}"
    if k == "cpa":
        return f"cpa {op[1]} {op[2]} {op[3]}"
    if k == "empty":
        return f"empty {op[1]} {opt(op[2])} {op[3]}"
    if k == "newsub":
        return f"newsub {opt(op[1])} {op[2]} {op[3]}"
    if k == "pattr":
        return f"pattr {op[1]} {op[2]}"
    if k in ("eq", "ne"):
        return f"{k} {op[1]} {op[2]}"
    if k == "shoot":
        return f"shoot {op[1]} {op[2]}"
    if k == "upd":
        return f"upd {op[1]} {lst(op[2])} {lst(op[3])}"
    if k == "emptyd":
        return f"emptyd {op[1]} {'omit' if op[2] == 'omit' else opt(op[2])} {'omit' if op[3] == 'omit' else op[3]}"
    if k == "seta":
        return f"seta {op[1]} {op[2]} {op[3]} {op[4]}"
    if k == "adr":
        return f"adr {op[1]}"
    if k == "revvel":
        return f"revvel {op[1]} {op[2]}"
    raise KeyError(k)


def classify_obj(p, intf, target):
    """every classification method of the path object, canonical text (= Infretis.PathAlg.showCls); `intf` and
    `target` are in scaled units"""
    def vi(get):
        try:
            v, i = get()
            return f"{tok(v)},{int(i)}"
        except Exception as e:  # noqa: BLE001
            return err_kind(e)
    try:
        s, e, m, c = p.check_interfaces([real(x) for x in intf])
        chk = f"{s},{e},{m}," + ("".join("1" if b else "0" for b in c) if c else "-")
    except Exception as ex:  # noqa: BLE001
        chk = err_kind(ex)
    try:
        suc = str(bool(p.success(real(target))))
    except Exception as ex:  # noqa: BLE001
        suc = err_kind(ex)
    sp = ep = "-"
    if intf:
        try:
            sp = str(p.get_start_point(real(intf[0]), real(intf[-1])))
        except Exception as ex:  # noqa: BLE001
            sp = err_kind(ex)
        try:
            ep = str(p.get_end_point(real(intf[0]), real(intf[-1])))
        except Exception as ex:  # noqa: BLE001
            ep = err_kind(ex)
    return f"min={vi(lambda: p.ordermin)};max={vi(lambda: p.ordermax)};chk={chk};suc={suc};sp={sp};ep={ep}"


def expected_parts(ops, intf, target):
    """what the property demands of a classification of the order sequence `ops` (non-empty): only the
    parts the property speaks about are returned"""
    lo, hi = min(ops), max(ops)
    want = {"min": f"{lo},{ops.index(lo)}", "max": f"{hi},{ops.index(hi)}", "suc": str(any(x > target for x in ops))}
    if len(intf) >= 2:
        _, _, chk = want_cls(list(ops), list(intf))
        want["chk"] = f"{chk[0]},{chk[1]},{chk[2]}," + "".join("1" if b else "0" for b in chk[3])
    if intf and intf[0] <= intf[-1]:
        l, r = intf[0], intf[-1]
        want["sp"] = "L" if ops[0] <= l else "R" if ops[0] >= r else "?"
        want["ep"] = "L" if ops[-1] <= l else "R" if ops[-1] >= r else "None"
    return want


# --------------------------------------------------------------------------- the real machine
class Real:
    """runs an op program on real Path/System objects; evaluates the property predicates on the way"""

    def __init__(self, mods, check=True):
        self.np, self.pathmod, self.Path, self.paste_paths, self.System = mods
        self.paths = []
        self.log = []
        self.fails = []      # (signature, what)
        self.check = check
        self.branches = []
        self.classified = set()
        self.cap = None       # Capture of the module's warnings (set by run_program)
        self.notes = []       # evaluated but not judged (recorded in the evidence)
        set_scale(1)

    def warns(self):
        return warn_tokens(self.cap.take()) if self.cap is not None else []

    def _same_class(self, src, new, what):
        if type(new) is not type(src):
            self.bad("C15:class-not-kept", f"{what} of a {type(src).__name__} returned a {type(new).__name__} "
                     "(empty_path promises a path of the same class)")

    # ---- dump with canonical identities
    def state(self):
        refs, objs = {}, []
        for p in self.paths:
            for s in p.phasepoints:
                if id(s) not in refs:
                    refs[id(s)] = len(objs)
                    objs.append(s)
        oos = {}
        ids = {a: {} for a in ARRS}
        for s in objs:
            oos.setdefault(id(s.order), len(oos))
            for a in ARRS:
                ids[a].setdefault(id(arr_obj(s, a)), len(ids[a]))
        toks = [path_token(p, refs) for p in self.paths]
        toks += [sys_token(s, oos[id(s.order)], " ".join(f"{a[0]}{ids[a][id(arr_obj(s, a))]}" for a in ARRS)) for s in objs]
        return " ; ".join(toks)

    def line(self):
        try:
            return " ".join(self.log) + " | " + self.state()
        except Exception as e:  # noqa: BLE001  — objects so broken that they cannot be dumped
            self.bad("C15:op-raises", f"the paths cannot be read back: {type(e).__name__}: {e}")
            return " ".join(self.log) + " | undumpable:" + type(e).__name__

    def bad(self, sig, what):
        self.fails.append((sig, what))

    # ---- predicates
    def _fits(self, p):
        return p.maxlen is None or len(p.phasepoints) <= p.maxlen

    MUT = (("config", (99, 99)), ("order", [77, 78]), ("velrev", None), ("ekin", 91), ("vpot", 92),
           ("pos", 93), ("vel", 94), ("box", 95), ("temp", 96))

    def _mutate_all(self, s):
        for f, v in self.MUT:
            set_field(self.np, s, f, (not s.vel_rev) if f == "velrev" else v)

    def snapshot(self, p):
        """attributes, frame identities and frame values of one path (for 'does not modify its argument')"""
        return (p.maxlen, p.status, p.generated, p.path_number, p.weights, p.weight, p.time_origin,
                id(p.phasepoints), [id(s) for s in p.phasepoints], self.state_of(p))

    def _scratch_mutation_leaves_state(self, scratch, sig, what, make=None, sources=()):
        """(result → sources) re-assign every field of every frame of the throw-away path `scratch`, then grow and
        shrink its frame list: nothing reachable from the program's paths may change;
        (sources → result) re-assign every field of every frame of the source paths (restored afterwards): a second
        throw-away result `make()` must keep its values."""
        before = self.state()
        shared = {id(s) for p in self.paths for s in p.phasepoints}
        for s in scratch.phasepoints:
            if id(s) in shared:
                self.bad(sig, what + ": a frame object of the result is a frame object of an existing path")
                return
            self._mutate_all(s)
        if any(scratch.phasepoints is p.phasepoints for p in self.paths):
            self.bad(sig, what + ": the result holds the frame LIST object of an existing path")
            return
        extra = self.System()
        scratch.phasepoints.append(extra)
        scratch.phasepoints.insert(0, extra)
        del scratch.phasepoints[0]
        if scratch.phasepoints:
            scratch.phasepoints.pop()
        for a, v in (("status", "zz"), ("time_origin", 987), ("maxlen", 654), ("generated", ("zz", 1)),
                     ("path_number", 321), ("weights", (9.0,)), ("weight", 9.0)):
            setattr(scratch, a, v)
        if self.state() != before:
            self.bad(sig, what)
            return
        if make is not None:
            other = make()
            snap = self.state_of(other)
            for src in sources:
                saved = [(s, dict(s.__dict__)) for s in src.phasepoints]
                for s, _ in saved:
                    self._mutate_all(s)
                changed = self.state_of(other) != snap
                for s, d in saved:
                    s.__dict__.clear()
                    s.__dict__.update(d)
                if changed:
                    self.bad(sig, what + " (assigning fields of the SOURCE frames changed the result)")
                    return
            if self.state() != before:
                raise AssertionError("harness: restoring the source frames failed")

    def fresh_objects_are_pristine(self):
        """class-level mutable attributes / shared defaults: a new System / Path must not see what was done to
        other instances (in place, on their default containers)"""
        s1 = self.System()
        try:
            s1.temperature["x"] = 1.0
            s1.order.append(5.0)
            if getattr(s1.box, "size", 0):
                s1.box.flat[0] = 9.0
        except Exception:  # noqa: BLE001
            pass
        p1 = self.Path()
        p1.phasepoints.append(s1)
        s2, p2 = self.System(), self.Path()
        ok = (s2.temperature == {} and len(s2.order) == 1 and s2.order[0] != s2.order[0] and s2.config == ("", -1)
              and s2.vel_rev is False and s2.ekin is None and s2.vpot is None
              and (not getattr(s2.box, "size", 0) or float(abs(s2.box).sum()) == 0.0)
              and s2.pos.size == 0 and s2.vel.size == 0
              and p2.phasepoints == [] and p2.length == 0 and p2.status == "" and p2.generated is None
              and p2.path_number is None and p2.weights is None and p2.weight == 0.0 and p2.time_origin == 0)
        e = p1.empty_path(maxlen=7, time_origin=3)
        ok = ok and e.length == 0 and e.maxlen == 7 and e.time_origin == 3 and type(e) is type(p1) and p1.length == 1
        if not ok:
            self.bad("C15:shared-class-state", "a new System()/Path()/empty_path() carries state of other instances "
                     "(or does not start from the documented defaults)")

    def _check_paste(self, back, forw, ov, ml, new):
        nb, nf = len(back.phasepoints), len(forw.phasepoints)
        if ml is not None:
            cap = ml
        elif back.maxlen == forw.maxlen:
            cap = back.maxlen
        elif back.maxlen is None or forw.maxlen is None:
            cap = forw.maxlen if back.maxlen is None else back.maxlen     # "in case one is None, the other will be picked"
        else:
            cap = max(back.maxlen, forw.maxlen)
        full = list(reversed(back.phasepoints)) + list(forw.phasepoints[1:] if ov else forw.phasepoints)
        want_len = nb + nf - (1 if (ov and nf > 0) else 0)
        assert want_len == len(full)
        if cap is not None:
            want_len = min(max(cap, 0), want_len)
        self.branches.append("paste:trunc" if want_len < len(full) else "paste:full")
        if new.length != want_len:
            self.bad("C15:paste-length", f"pasted length {new.length}, expected {want_len} "
                     f"(|back|={nb}, |forw|={nf}, overlap={ov}, limit={cap})")
            return
        got = [sys_fields(s) for s in new.phasepoints]
        if got != [sys_fields(s) for s in full[:want_len]]:
            self.bad("C15:paste-order", "pasted frames are not reversed(back) + forward (minus shared point), truncated")
        if want_len > 0 and nb > 0 and sys_fields(new.phasepoints[0]) != sys_fields(back.phasepoints[-1]):
            self.bad("C15:paste-head", "pasted path does not begin with the last backward frame")
        if new.time_origin != back.time_origin - nb + 1:
            self.bad("C15:paste-time-origin", f"time origin {new.time_origin}, expected {back.time_origin - nb + 1}")
        if new.maxlen != cap:
            self.bad("C15:paste-limit", f"pasted path has maxlen {new.maxlen}, expected {cap}")

    def _expected_reverse(self, p, of, rv):
        out = []
        for s in reversed(p.phasepoints):
            f = list(sys_fields(s))
            if rv:
                f[3] = 1 - f[3]
                if of is not None and of.velocity_dependent:
                    t = s.copy()
                    t.vel_rev = not s.vel_rev
                    f[2] = tuple(sc(x) for x in of.calculate(t))
            out.append(tuple(f))
        return out

    def _check_reverse(self, p, ofd, rv, new, before):
        of = None if ofd is None else LinOrder(*ofd)
        if self.snapshot(p) != before:
            self.bad("C15:reverse-mutates-original", "reverse changed the path it was called on")
        fits = self._fits(p)
        self.branches.append("rev:fits" if fits else "rev:trunc")
        want = self._expected_reverse(p, of, rv)
        if not fits:
            want = want[: max(p.maxlen, 0)]
        got = [sys_fields(s) for s in new.phasepoints]
        if len(got) != len(want) or [g[:2] + g[4:] for g in got] != [w[:2] + w[4:] for w in want]:
            self.bad("C15:reverse-frames", "reverse does not return the frames in reversed order")
        elif [g[3] for g in got] != [w[3] for w in want]:
            self.bad("C15:reverse-flags", f"velocity flags after reverse(rev_v={rv}) are {[g[3] for g in got]}, expected {[w[3] for w in want]}")
        elif [g[2] for g in got] != [w[2] for w in want]:
            self.bad("C15:reverse-order-values", "order values after reverse differ from the (re-computed) expected ones")
        # twice
        if fits:
            consistent = of is None or not (of.velocity_dependent and rv) or all(
                tuple(sc(x) for x in of.calculate(s)) == tuple(sc(x) for x in s.order) for s in p.phasepoints)
            back2 = new.reverse(of, rv)
            g2 = [sys_fields(s) for s in back2.phasepoints]
            w2 = [sys_fields(s) for s in p.phasepoints]
            if not consistent:
                g2 = [g[:2] + g[3:] for g in g2]
                w2 = [w[:2] + w[3:] for w in w2]
            if g2 != w2:
                self.bad("C15:reverse-twice", "reversing twice does not restore the frames")
        else:
            # a path longer than its limit (reachable: load_paths_from_disk, lowered maxlen): the first reversal
            # truncates, so "twice restores" cannot hold (Lean: reverse_reverse_overlimit_counterexample).  Evaluated
            # and recorded, and judged against what the model proves: twice = the kept frames, in original order.
            back2 = new.reverse(of, rv)
            g2 = [sys_fields(s) for s in back2.phasepoints]
            keep = max(p.maxlen, 0)
            w2 = [sys_fields(s) for s in p.phasepoints][len(p.phasepoints) - keep:] if keep else []
            consistent = of is None or not (of.velocity_dependent and rv) or all(
                tuple(sc(x) for x in of.calculate(s)) == tuple(sc(x) for x in s.order) for s in p.phasepoints)
            if not consistent:
                g2 = [g[:2] + g[3:] for g in g2]
                w2 = [w[:2] + w[3:] for w in w2]
            self.branches.append("rev:twice-overlimit-not-restored" if g2 != [sys_fields(s) for s in p.phasepoints]
                                 else "rev:twice-overlimit-restored")
            if g2 != w2:
                self.bad("C15:reverse-twice-overlimit", "reversing an over-limit path twice does not give its last maxlen frames")
        # independence of the reversed copy
        self._scratch_mutation_leaves_state(p.reverse(of, rv), "C15:reverse-not-independent",
                                            "assigning fields of a reversed path's frames changed another path",
                                            make=lambda: p.reverse(of, rv), sources=[p])

    def state_of(self, p):
        return [sys_fields(s) for s in p.phasepoints]

    def _check_copy(self, p, new, snap):
        if self.snapshot(p) != snap:
            self.bad("C15:copy-modifies-original", "copy() changed the path it was called on")
        fits = self._fits(p)
        self.branches.append("copy:fits" if fits else "copy:trunc")
        want = self.state_of(p)
        if not fits:
            want = want[: max(p.maxlen, 0)]
        if self.state_of(new) != want:
            self.bad("C15:copy-values", "copy() does not carry the same frames")
        for a in ("maxlen", "status", "generated", "path_number", "weights", "time_origin"):
            if getattr(new, a) != getattr(p, a):
                self.bad("C15:copy-values", f"copy() does not carry {a}")
        self._scratch_mutation_leaves_state(p.copy(), "C15:copy-not-independent",
                                            "assigning fields of a copied path's frames changed the original (or another path)",
                                            make=p.copy, sources=[p])

    # ---- ops
    def step(self, op):
        np = self.np
        k = op[0]
        P = self.paths
        ok = lambda i: isinstance(i, int) and 0 <= i < len(P)  # noqa: E731
        if k == "scale":
            set_scale(op[1])
        elif k == "new":
            P.append(self.Path(maxlen=op[1], time_origin=op[2]))
            self.log.append("new")
        elif k == "sys":
            if not ok(op[1]):
                return self.log.append("skip")
            s = self.System()
            for f in FIELDS:
                set_field(np, s, f, op[2][f])
            self.log.append(str(P[op[1]].append(s)))
        elif k == "app":
            if not (ok(op[1]) and ok(op[2]) and 0 <= op[3] < len(P[op[2]].phasepoints)):
                return self.log.append("skip")
            self.log.append(str(P[op[1]].append(P[op[2]].phasepoints[op[3]])))
        elif k == "iadd":
            if not (ok(op[1]) and ok(op[2])) or op[1] == op[2]:
                return self.log.append("skip")
            p, q = P[op[1]], P[op[2]]
            n0 = len(p.phasepoints)
            old = list(p.phasepoints)
            snapq = self.snapshot(q)
            self.warns()
            p += q
            assert P[op[1]] is p
            self.log.append(",".join(["iadd"] + self.warns()))
            if self.check:
                room = len(q.phasepoints) if p.maxlen is None else max(0, min(len(q.phasepoints), p.maxlen - n0))
                self.branches.append("iadd:full" if room == len(q.phasepoints) else "iadd:trunc")
                if p.phasepoints[:n0] != old or self.state_of(p)[n0:] != self.state_of(q)[:room]:
                    self.bad("C15:iadd-values", "self += other does not append other's frames (up to the limit)")
                if self.snapshot(q) != snapq:
                    self.bad("C15:iadd-modifies-other", "self += other changed `other`")

                def mk_t():
                    t = self.Path(maxlen=None)
                    t += q
                    return t
                self._scratch_mutation_leaves_state(mk_t(), "C15:iadd-not-independent",
                                                    "assigning fields of frames added by += changed the source path",
                                                    make=mk_t, sources=[q])
        elif k == "copy":
            if not ok(op[1]):
                return self.log.append("skip")
            snap = self.snapshot(P[op[1]])
            new = P[op[1]].copy()
            if self.check:
                self._same_class(P[op[1]], new, "copy()")
                self._check_copy(P[op[1]], new, snap)
            P.append(new)
            self.log.append("copy")
        elif k == "rev":
            if not ok(op[1]):
                return self.log.append("skip")
            p = P[op[1]]
            before = self.snapshot(p)
            of = None if op[2] is None else LinOrder(*op[2])
            new = p.reverse(of, bool(op[3]))
            if self.check:
                self._same_class(p, new, "reverse()")
                self._check_reverse(p, op[2], bool(op[3]), new, before)
            P.append(new)
            self.log.append("rev")
        elif k == "paste":
            if not (ok(op[1]) and ok(op[2])):
                return self.log.append("skip")
            back, forw = P[op[1]], P[op[2]]
            snaps = (self.snapshot(back), self.snapshot(forw))
            self.warns()
            try:
                new = self.paste_paths(back, forw, overlap=bool(op[3]), maxlen=op[4])
                wtoks = self.warns()
            except Exception as e:  # noqa: BLE001
                self.log.append(err_kind(e))
                self.branches.append("paste:" + err_kind(e))
                # paste_paths has no legitimate exception: the property quantifies over all limits
                if op[4] is None and back.maxlen != forw.maxlen and None in (back.maxlen, forw.maxlen):
                    self.bad("C15:paste:one-limit-none-raises", f"paste_paths(back.maxlen={back.maxlen}, forw.maxlen="
                             f"{forw.maxlen}, maxlen=None) raised {type(e).__name__}: {e} (the other limit must be picked)")
                else:
                    self.bad("C15:paste-raises", f"paste_paths raised {type(e).__name__}: {e}")
                return None
            if self.check:
                self._same_class(back, new, "paste_paths(back, …)")
                if (self.snapshot(back), self.snapshot(forw)) != snaps:
                    self.bad("C15:paste-modifies-argument", "paste_paths changed one of the two segments it was given")
                self._check_paste(back, forw, bool(op[3]), op[4], new)
                # the pasted path shares frame objects by design, but it must own its frame list and attributes
                scratch = self.paste_paths(back, forw, overlap=bool(op[3]), maxlen=op[4])
                before = self.state()
                scratch.phasepoints.append(self.System())
                del scratch.phasepoints[:1]
                scratch.time_origin, scratch.maxlen, scratch.status = 987, 654, "zz"
                if self.state() != before:
                    self.bad("C15:paste-shares-list", "changing the frame list / attributes of a pasted path changed a segment")
            P.append(new)
            self.log.append(",".join(["paste"] + wtoks))
        elif k == "set":
            if not (ok(op[1]) and 0 <= op[2] < len(P[op[1]].phasepoints)):
                return self.log.append("skip")
            set_field(np, P[op[1]].phasepoints[op[2]], op[3], op[4])
            self.log.append("set")
        elif k == "seti":
            if not (ok(op[1]) and 0 <= op[2] < len(P[op[1]].phasepoints)):
                return self.log.append("skip")
            try:
                P[op[1]].phasepoints[op[2]].order[0] = real(op[3])
                self.log.append("setitem")
            except IndexError:
                self.log.append("err:index")
        elif k == "pset":
            if not ok(op[1]):
                return self.log.append("skip")
            set_pfield(P[op[1]], op[2], op[3])
            self.log.append("pset")
            if self.check and op[2] == "generated":
                try:
                    mv = P[op[1]].get_move()
                except Exception as e:  # noqa: BLE001
                    mv = err_kind(e)
                if mv != (None if op[3] is None else "sh"):
                    self.bad("C15:get-move", f"get_move() answers {mv!r} for generated={P[op[1]].generated!r}")
        elif k == "classify":
            if not ok(op[1]):
                return self.log.append("skip")
            p, target, intf = P[op[1]], op[2], list(op[3])
            got = classify_obj(p, intf, target)
            self.log.append(got)
            if self.check and p.phasepoints and all(len(s.order) > 0 for s in p.phasepoints):
                ops = [sc(s.order[0]) for s in p.phasepoints]
                want = expected_parts(ops, intf, target)
                parts = dict(x.split("=", 1) for x in got.split(";"))
                bad = [k_ for k_, w in want.items() if parts[k_] != w]
                self.branches.append("classify:repeat" if id(p) in self.classified else "classify:first")
                if bad:
                    fresh = classify_obj(mk(self.Path, self.System, ops), intf, target)
                    sig = "C15:stale-classification" if fresh != got else "C15:classification-vs-extremes"
                    self.bad(sig, f"path object holding orders {ops} answers {got} for interfaces {intf}, target {target}; "
                             f"the current order list demands " + ";".join(f"{k_}={want[k_]}" for k_ in bad)
                             + (f" (a fresh path with the same orders answers {fresh})" if fresh != got else ""))
            self.classified.add(id(p))
        elif k == "repl":
            if not (ok(op[1]) and ok(op[3]) and 0 <= op[2] < len(P[op[1]].phasepoints)
                    and 0 <= op[4] < len(P[op[3]].phasepoints)):
                return self.log.append("skip")
            P[op[1]].phasepoints[op[2]] = P[op[3]].phasepoints[op[4]]
            self.log.append("repl")
        elif k == "ext":
            if not (ok(op[1]) and ok(op[2])):
                return self.log.append("skip")
            p, q = P[op[1]], P[op[2]]
            p.phasepoints = p.phasepoints[:-1] + q.phasepoints
            self.log.append("ext")
        elif k == "cpa":
            if not (ok(op[1]) and ok(op[2]) and 0 <= op[3] < len(P[op[2]].phasepoints)):
                return self.log.append("skip")
            src = P[op[2]].phasepoints[op[3]]
            want = sys_fields(src)
            c = src.copy()
            if self.check:
                if c is src or sys_fields(c) != want or sys_fields(src) != want:
                    self.bad("C15:system-copy", "System.copy() is not a new object with the same field values")
                else:
                    before = self.state()
                    t = src.copy()
                    self._mutate_all(t)
                    if self.state() != before:
                        self.bad("C15:system-copy", "assigning fields of a System copy changed another System")
            self.log.append(str(P[op[1]].append(c)))
        elif k == "empty":
            if not ok(op[1]):
                return self.log.append("skip")
            e = P[op[1]].empty_path(maxlen=op[2], time_origin=op[3])
            if self.check and (e.length != 0 or e.maxlen != op[2] or e.time_origin != op[3]
                               or e.phasepoints is P[op[1]].phasepoints):
                self.bad("C15:empty-path", "empty_path() is not a new empty path with the requested limit / time origin")
            if self.check:
                self._same_class(P[op[1]], e, "empty_path()")
            P.append(e)
            self.log.append("empty")
        elif k == "newsub":
            P.append(path_class(self.Path, op[3])(maxlen=op[1], time_origin=op[2]))
            self.log.append("new")
        elif k == "pattr":
            if not ok(op[1]):
                return self.log.append("skip")
            setattr(P[op[1]], f"x{op[2]}", 1)
            self.log.append("pattr")
        elif k in ("eq", "ne"):
            if not (ok(op[1]) and ok(op[2])):
                return self.log.append("skip")
            p, q = P[op[1]], P[op[2]]
            snaps = (self.snapshot(p), self.snapshot(q))
            try:
                r = (p == q) if k == "eq" else (p != q)
                self.log.append(str(bool(r)))
            except Exception as e:  # noqa: BLE001
                r = None
                self.log.append(err_kind(e))
                if all(len(s.order) > 0 for s in p.phasepoints + q.phasepoints):
                    self.bad("C15:eq-raises", f"comparing two paths raised {type(e).__name__}: {e}")
            if self.check:
                self.branches.append(f"{k}:{self.log[-1]}")
                if (self.snapshot(p), self.snapshot(q)) != snaps:
                    self.bad("C15:eq-modifies", "comparing two paths changed one of them")
                if r is not None:
                    equal = bool(r) if k == "eq" else not bool(r)
                    # equality must be sound: equal paths have the same class, frames (values, in order) and,
                    # when non-empty, the same limit / time origin / status / generated / path number
                    same = (type(p) is type(q) and self.state_of(p) == self.state_of(q)
                            and (not p.phasepoints or (p.maxlen, p.time_origin, p.status, p.generated, p.path_number)
                                 == (q.maxlen, q.time_origin, q.status, q.generated, q.path_number)))
                    if equal and not same:
                        self.bad("C15:eq-unsound", "two paths compare equal although their class / frames / "
                                 "maxlen / time_origin / status / generated / path_number differ")
                    if p is q and not equal:
                        self.bad("C15:eq-not-reflexive", "a path does not compare equal to itself")
                    try:
                        other = (p != q) if k == "eq" else (p == q)
                        if bool(other) == bool(r):
                            self.bad("C15:eq-ne-inconsistent", "p == q and p != q give the same answer")
                        if bool((q == p) if k == "eq" else (q != p)) != bool(r):
                            self.bad("C15:eq-not-symmetric", "p == q and q == p differ")
                    except Exception as e:  # noqa: BLE001
                        self.bad("C15:eq-raises", f"comparing two paths raised {type(e).__name__}: {e}")
        elif k == "shoot":
            if not ok(op[1]):
                return self.log.append("skip")
            p = P[op[1]]
            L = len(p.phasepoints)
            gen = StubGen(op[2])
            snap = self.snapshot(p)
            try:
                sp, idx = p.get_shooting_point(gen)
                where = next((j for j, s in enumerate(p.phasepoints) if s is sp), -1)
                res = f"{int(idx)}:{where}"
            except Exception as e:  # noqa: BLE001
                sp, idx, res = None, None, err_kind(e)
            lo, hi = gen.calls[0] if len(gen.calls) == 1 else ("calls", len(gen.calls))
            self.log.append(f"shoot:{lo}:{hi}:{res}")
            if self.check:
                self.branches.append("shoot:" + ("ok" if sp is not None else res))
                if self.snapshot(p) != snap:
                    self.bad("C15:shoot-modifies", "get_shooting_point changed the path")
                if sp is not None:
                    if not (1 <= int(idx) <= L - 2):
                        self.bad("C15:shooting-point-endpoint", f"get_shooting_point returned index {int(idx)} on a path "
                                 f"of length {L}: not an interior frame")
                    elif p.phasepoints[int(idx)] is not sp:
                        self.bad("C15:shooting-point-object", "get_shooting_point does not return the frame object at "
                                 "the index it returns")
                elif L >= 3 and all(len(s.order) > 0 for s in p.phasepoints):
                    self.bad("C15:shooting-point-raises", f"get_shooting_point raised {res} on a path of length {L}")
                if L >= 3 and all(len(s.order) > 0 for s in p.phasepoints):
                    # the same with a real numpy Generator: interior frames only, and each interior frame can come
                    rg = np.random.default_rng(1000 * L + op[2])
                    seen = set()
                    for _ in range(8 * L):
                        try:
                            sp2, i2 = p.get_shooting_point(rg)
                        except Exception as e:  # noqa: BLE001
                            self.bad("C15:shooting-point-raises", f"get_shooting_point raised {type(e).__name__} with a "
                                     f"numpy Generator on a path of length {L}")
                            break
                        if not (1 <= int(i2) <= L - 2) or p.phasepoints[int(i2)] is not sp2:
                            self.bad("C15:shooting-point-endpoint", f"with a numpy Generator get_shooting_point returned "
                                     f"index {int(i2)} on a path of length {L} (or not the frame at that index)")
                            break
                        seen.add(int(i2))
                    else:
                        self.branches.append("shoot:numpy:all-interior" if len(seen) == L - 2 else "shoot:numpy:some-interior")
        elif k == "upd":
            if not ok(op[1]):
                return self.log.append("skip")
            p = P[op[1]]
            ek, vp = [float(x) for x in op[2]], [float(x) for x in op[3]]
            if len(ek) % 2:     # both list and ndarray arguments
                ek = np.array(ek)
            if len(vp) % 3 == 1:
                vp = np.array(vp)
            before = [sys_fields(s) for s in p.phasepoints]
            ids = [id(s) for s in p.phasepoints]
            self.warns()
            p.update_energies(ek, vp)
            msgs = self.cap.take() if self.cap is not None else []
            nv = sum(1 for m in msgs if "potential energies" in m)
            nk = sum(1 for m in msgs if "kinetic energies" in m)
            self.log.append(f"upd:{nv}:{nk}")
            if self.check:
                self.branches.append("upd:" + ("short" if (nv or nk) else "full"))
                last = {}
                for j, i_ in enumerate(ids):
                    last[i_] = j
                okk = [id(s) for s in p.phasepoints] == ids
                for j, s in enumerate(p.phasepoints):
                    jj = last[ids[j]]       # a frame object that occurs twice keeps what its last occurrence got
                    w = list(before[j])
                    w[4] = opt(ek[jj]) if jj < len(ek) else "-"
                    w[5] = opt(vp[jj]) if jj < len(vp) else "-"
                    okk = okk and tuple(w) == sys_fields(s)
                if not okk:
                    self.bad("C15:update-energies", "update_energies does not give frame i the energies ekin[i] / vpot[i] "
                             "(None past the end) or changes something else")
        elif k == "emptyd":
            if not ok(op[1]):
                return self.log.append("skip")
            kw = {}
            if op[2] != "omit":
                kw["maxlen"] = op[2]
            if op[3] != "omit":
                kw["time_origin"] = op[3]
            src = P[op[1]]
            snap = self.snapshot(src)
            e = src.empty_path(**kw)
            if self.check:
                self._same_class(src, e, "empty_path()")
                if (e.length != 0 or e.phasepoints is src.phasepoints or e.maxlen != kw.get("maxlen", self.pathmod.DEFAULT_MAXLEN)
                        or e.time_origin != kw.get("time_origin", 0) or e.status != "" or e.generated is not None
                        or e.path_number is not None or e.weights is not None or e.weight != 0.0
                        or self.snapshot(src) != snap):
                    self.bad("C15:empty-path", "empty_path() is not a new empty path with the requested (or default) limit / "
                             "time origin and fresh attributes")
            P.append(e)
            self.log.append("empty")
        elif k == "seta":
            if not (ok(op[1]) and 0 <= op[2] < len(P[op[1]].phasepoints)):
                return self.log.append("skip")
            set_arr_item(P[op[1]].phasepoints[op[2]], op[3], op[4], how=op[4] + op[2])
            self.log.append("seta")
        elif k == "adr":
            if not ok(op[1]):
                return self.log.append("skip")
            p = P[op[1]]
            a = p.adress
            self.log.append(",".join(["adr"] + [str(x) for x in sorted(int(x) for x in a)]))
            if self.check and set(a) != {s.config[0] for s in p.phasepoints}:
                self.bad("C15:adress", "Path.adress is not the set of config[0] of the frames")
        elif k == "revvel":
            if not (ok(op[1]) and 0 <= op[2] < len(P[op[1]].phasepoints)):
                return self.log.append("skip")
            p = P[op[1]]
            s_ = p.phasepoints[op[2]]
            f0 = sys_fields(s_)
            before = self.state()
            p.reverse_velocities(s_)
            self.log.append("revvel")
            if self.check:
                f1 = sys_fields(s_)
                if f1[3] != 1 - f0[3] or f1[:3] + f1[4:] != f0[:3] + f0[4:]:
                    self.bad("C15:reverse-velocities", "reverse_velocities does not flip exactly vel_rev of the given System")
                s_.vel_rev = not s_.vel_rev
                if self.state() != before:
                    self.bad("C15:reverse-velocities", "reverse_velocities changed another object")
                s_.vel_rev = not s_.vel_rev
        elif k == "del":
            if not (ok(op[1]) and 0 <= op[2] < len(P[op[1]].phasepoints)):
                return self.log.append("skip")
            del P[op[1]].phasepoints[op[2]]
            self.log.append("del")
        else:
            raise KeyError(k)
        return None


def run_program(mods, prog, check=True):
    m = Real(mods, check)
    with Capture() as cap:
        m.cap = cap
        for op in prog:
            try:
                m.step(tuple(op))
            except Exception as e:  # noqa: BLE001  — never let changed code crash the harness: report the input
                m.log.append("raised:" + type(e).__name__)
                m.bad("C15:op-raises", f"{op[0]} raised {type(e).__name__}: {e}")
        m.cap = None
    if check:
        try:
            m.fresh_objects_are_pristine()
        except Exception as e:  # noqa: BLE001
            m.bad("C15:shared-class-state", f"creating fresh objects raised {type(e).__name__}: {e}")
    return m


def shrink(mods, prog, sig):
    """greedy one-op deletion while the same predicate still fails (any failing program is a witness)"""
    prog = list(prog)
    changed = True
    while changed:
        changed = False
        for k in range(len(prog) - 1, -1, -1):
            cand = prog[:k] + prog[k + 1:]
            try:
                m = run_program(mods, cand, check=True)
            except Exception:  # noqa: BLE001
                continue
            if any(s_ == sig for s_, _ in m.fails):
                prog = cand
                changed = True
    return prog


# --------------------------------------------------------------------------- program generator
def rand_vals(rng):
    return {"config": (rng.randint(0, 3), rng.randint(0, 9)),
            "order": [rng.randint(-1, 4) for _ in range(rng.choice((1, 1, 1, 2, 3)))],
            "velrev": rng.random() < 0.3, "ekin": rng.choice((None, 0, 1, 2, 3)), "vpot": rng.choice((None, 0, -1, -2)),
            "pos": rng.randint(-3, 3), "vel": rng.randint(-3, 3), "box": rng.randint(1, 5), "temp": rng.randint(0, 5)}


def rand_field(rng):
    f = rng.choice(FIELDS)
    if f == "config":
        return f, (rng.randint(0, 3), rng.randint(0, 9))
    if f == "order":
        return f, [rng.randint(-1, 4) for _ in range(rng.choice((0, 1, 1, 1, 2)))]
    if f == "velrev":
        return f, rng.random() < 0.5
    if f in ("ekin", "vpot"):
        return f, rng.choice((None, 0, 4, 5, 6))
    return f, rng.randint(-5, 5)


MAXLENS = (None, None, 100, 100, 8, 5, 3, 2, 1, 0)
INTFS = ((0, 1, 2), (0, 2, 4), (0, 2, 2), (0, 0, 2), (1, 1, 1), (2, 0, 1), (0, 3, 1), (-1, 1, 3), (0, 2), (1,), ())


def rand_intf(rng):
    return list(rng.choice(INTFS[:8] if rng.random() < 0.9 else INTFS))


def plain_vals(o, idx=0, velrev=False):
    return {"config": (0, idx), "order": [o], "velrev": velrev, "ekin": None, "vpot": None,
            "pos": o, "vel": 1, "box": 1, "temp": 0}


def gen_history(rng):
    """ONE path object (index 0) is classified, changed in place, and classified again, several times.
    paths 1 (1–3 frames) and 2 (exactly one frame) are donors for replacement / extension / +=."""
    prog = [("new", rng.choice((None, 100)), 0), ("new", None, 0), ("new", None, 0)]
    n = rng.randint(1, 5)
    for k in range(n):
        prog.append(("sys", 0, plain_vals(rng.randint(-1, 4), k, rng.random() < 0.5)))
    nd = rng.randint(1, 3)
    for k in range(nd):
        prog.append(("sys", 1, plain_vals(rng.randint(-1, 4), 10 + k)))
    prog.append(("sys", 2, plain_vals(rng.randint(-1, 4), 20)))
    npaths = 3

    def cls(i):
        prog.append(("classify", i, rng.randint(-1, 4), rand_intf(rng)))
    cls(0)
    for _ in range(rng.randint(2, 6)):
        kind = rng.choice(("set", "set", "set", "repl", "repl", "ext1", "ext1", "rev", "copy", "iadd-del", "app-del",
                           "seti", "donor-set", "ext", "del-app"))
        if kind == "set":
            prog.append(("set", 0, rng.randrange(n), "order", [rng.randint(-1, 4)]))
        elif kind == "seti":
            prog.append(("seti", 0, rng.randrange(n), rng.randint(-1, 4)))
        elif kind == "repl":
            j = rng.choice((1, 2))
            prog.append(("repl", 0, rng.randrange(n), j, rng.randrange(nd) if j == 1 else 0))
        elif kind == "donor-set":   # a shared frame changes through the donor
            prog.append(("repl", 0, rng.randrange(n), 2, 0))
            cls(0)
            prog.append(("set", 2, 0, "order", [rng.randint(-1, 4)]))
        elif kind == "ext1":        # tis.extender with a one-frame forward segment: same length
            prog.append(("set", 2, 0, "order", [rng.randint(-1, 4)]))
            prog.append(("ext", 0, 2))
        elif kind == "ext":
            prog.append(("ext", 0, 1))
            n = n - 1 + nd
        elif kind == "rev":
            of = None if rng.random() < 0.5 else (1, rng.randint(1, 2), 0, True)
            prog.append(("rev", 0, of, True))
            cls(npaths)
            npaths += 1
        elif kind == "copy":
            prog.append(("copy", 0))
            cls(npaths)
            prog.append(("set", npaths, rng.randrange(n), "order", [rng.randint(-1, 4)]))
            cls(npaths)
            npaths += 1
        elif kind == "iadd-del":    # grow by += then delete back to the old length (other frames removed)
            prog.append(("iadd", 0, 1))
            for _k in range(nd):
                prog.append(("del", 0, rng.randrange(n)))
        elif kind == "app-del":
            prog.append(("app", 0, 1, rng.randrange(nd)))
            prog.append(("del", 0, rng.randrange(n)))
        elif kind == "del-app":
            if n > 1:
                prog.append(("del", 0, rng.randrange(n)))
                cls(0)
                prog.append(("sys", 0, plain_vals(rng.randint(-1, 4), 30)))
        cls(0)
    return prog


def systematic_pastes(nmax):
    """every (|back|, |forw|, overlap) up to nmax × explicit limit at total−1 / total / total+1 / 0 / 1 / 2 / None ×
    path limits (None,None) / equal / different / one None; mixed velocity flags; followed by reverse and copy
    of the pasted path"""
    for nb in range(0, nmax + 1):
        for nf in range(0, nmax + 1):
            for ov in (False, True):
                tot = nb + nf - (1 if ov and nf else 0)
                for ml in sorted({None, tot - 1, tot, tot + 1, 0, 1, 2}, key=lambda x: (x is not None, x)):
                    for (mb, mf) in ((None, None), (tot, tot), (tot + 1, tot - 1), (None, tot), (2, 100)):
                        prog = [("new", None, nb), ("new", None, 0)]
                        prog += [("sys", 0, plain_vals(k, k, k % 2 == 0)) for k in range(nb)]
                        prog += [("sys", 1, plain_vals(10 + k, 10 + k, k % 3 == 0)) for k in range(nf)]
                        prog += [("pset", 0, "maxlen", mb), ("pset", 1, "maxlen", mf), ("paste", 0, 1, ov, ml)]
                        prog += [("rev", 2, None, True), ("copy", 2), ("classify", 2, 1, [0, 1, 2])]
                        yield [("scale", 4)] + prog


def systematic_histories(maxlen):
    """every order sequence up to `maxlen` over 5 levels: classify, re-assign one frame's order / replace one
    frame / swap the end frame extender-style, classify again (same length throughout)"""
    levels = (-1, 0, 1, 2, 3)
    for L in range(1, maxlen + 1):
        for ops in itertools.product(levels, repeat=L):
            base = [("new", None, 0), ("new", None, 0)] + [("sys", 0, plain_vals(o, k)) for k, o in enumerate(ops)]
            for k in range(L):
                for v in levels:
                    if v == ops[k]:
                        continue
                    how = (k + v + L) % 3
                    prog = list(base) + [("sys", 1, plain_vals(v, 9)), ("classify", 0, 1, [0, 1, 2])]
                    if how == 0:
                        prog.append(("set", 0, k, "order", [v]))
                    elif how == 1:
                        prog.append(("repl", 0, k, 1, 0))
                    elif k == L - 1:
                        prog.append(("ext", 0, 1))
                    else:
                        prog.append(("seti", 0, k, v))
                    prog.append(("classify", 0, 1, [0, 1, 2]))
                    prog.append(("classify", 0, 2, [0, 2, 2]))
                    yield [("scale", 4)] + prog


def gen_alias(rng):
    """paths that SHARE frame objects (paste / append / extender) or hold shallow copies (copy / += / reverse /
    System.copy) mixed with in-place mutation of the numpy arrays / temperature dict / order list, re-assignment,
    update_energies and reverse_velocities: who sees what"""
    prog = [("new", rng.choice((None, 100, 6)), rng.randint(-2, 2)), ("new", rng.choice((None, 100)), 0)]
    na, nb = rng.randint(1, 4), rng.randint(0, 3)
    for k in range(na):
        prog.append(("sys", 0, rand_vals(rng)))
    for k in range(nb):
        prog.append(("sys", 1, rand_vals(rng)))
    lens = [na, nb]
    for _ in range(rng.randint(1, 3)):
        how = rng.choice(("paste", "paste", "copy", "rev", "iadd", "app", "cpa", "ext"))
        i, j = rng.randrange(len(lens)), rng.randrange(len(lens))
        if how == "paste":
            ov = rng.random() < 0.5
            prog.append(("paste", i, j, ov, 100))
            lens.append(lens[i] + lens[j] - (1 if ov and lens[j] else 0))
        elif how == "copy":
            prog.append(("copy", i))
            lens.append(lens[i])
        elif how == "rev":
            prog.append(("rev", i, None if rng.random() < 0.5 else (1, 1, 0, True), rng.random() < 0.7))
            lens.append(lens[i])
        elif how == "iadd" and i != j:
            prog.append(("iadd", i, j))
            lens[i] += lens[j]
        elif how in ("app", "cpa") and lens[j]:
            prog.append((how, i, j, rng.randrange(lens[j])))
            lens[i] += 1
        elif how == "ext":
            prog.append(("ext", i, j))
            lens[i] = max(lens[i] - 1, 0) + lens[j]
    for _ in range(rng.randint(2, 7)):
        i = rng.randrange(len(lens))
        if not lens[i]:
            continue
        k = rng.randrange(lens[i])
        what = rng.choice(("seta", "seta", "seta", "seti", "set", "set", "upd", "revvel"))
        if what == "seta":
            prog.append(("seta", i, k, rng.choice(ARRS), rng.randint(10, 19)))
        elif what == "seti":
            prog.append(("seti", i, k, rng.randint(5, 9)))
        elif what == "set":
            f = rng.choice(("pos", "vel", "box", "temp", "order", "velrev"))
            prog.append(("set", i, k, f, [rng.randint(-1, 4)] if f == "order" else (rng.random() < 0.5) if f == "velrev"
                         else rng.randint(-5, 5)))
        elif what == "upd":
            prog.append(("upd", i, [rng.randint(0, 9) for _ in range(lens[i] - rng.choice((0, 0, 1)))],
                         [rng.randint(-9, 0) for _ in range(lens[i] + rng.choice((0, 0, -1, 1)))]))
        else:
            prog.append(("revvel", i, k))
    return prog


def gen_trunc(rng):
    """paths LONGER than their limit (the limit is lowered after the frames are in, as tis.py does with maxlen):
    copy / reverse / += / paste must truncate — branches the random programs reach rarely"""
    n = rng.randint(1, 5)
    prog = [("new", None, rng.randint(-2, 2))] + [("sys", 0, rand_vals(rng)) for _ in range(n)]
    prog.append(("pset", 0, "maxlen", rng.choice((n - 1, n - 1, n - 2, 1, 0, -1, n))))
    prog.append(("new", rng.choice((None, 2, n)), 0))
    for _ in range(rng.randint(0, 2)):
        prog.append(("sys", 1, rand_vals(rng)))
    for _ in range(rng.randint(2, 5)):
        what = rng.choice(("copy", "rev", "iadd", "paste", "sys", "cpa", "shoot", "upd", "eq"))
        if what == "copy":
            prog.append(("copy", 0))
        elif what == "rev":
            prog.append(("rev", 0, None if rng.random() < 0.5 else (1, 1, 0, True), rng.random() < 0.7))
        elif what == "iadd":
            prog.append(("iadd", rng.choice((0, 1)), rng.choice((0, 1))))
        elif what == "paste":
            prog.append(("paste", rng.choice((0, 1)), rng.choice((0, 1)), rng.random() < 0.5, rng.choice((None, None, n, 1))))
        elif what == "sys":
            prog.append(("sys", 0, rand_vals(rng)))
        elif what == "cpa":
            prog.append(("cpa", 0, 0, rng.randrange(n)))
        elif what == "shoot":
            prog.append(("shoot", 0, rng.randint(0, 5)))
        elif what == "upd":
            prog.append(("upd", 0, [1] * rng.randint(0, n + 1), [2] * rng.randint(0, n + 1)))
        else:
            prog.append(("eq", 0, rng.choice((0, 1, 2))))
    return prog


def gen_eq(rng):
    """two path objects holding the SAME frame objects (append one by one / paste with an empty backward segment),
    a copy, a subclass instance; one attribute / frame / order value changed; == and != in both directions"""
    cls0 = rng.choice((0, 0, 0, 1))
    ml = rng.choice((None, 100, 100, 7))
    t0 = rng.randint(-2, 2)
    prog = [("newsub", ml, t0, cls0) if cls0 else ("new", ml, t0)]
    n = rng.randint(0, 4)
    for k in range(n):
        v = plain_vals(rng.randint(-1, 4), k)
        if rng.random() < 0.05:
            v["order"] = []
        prog.append(("sys", 0, v))
    twin = rng.choice(("app", "app", "paste", "copy", "self"))
    if twin == "app":
        c1 = rng.choice((cls0, cls0, cls0, 1 - min(cls0, 1), 2))
        prog.append(("newsub", ml, t0, c1) if c1 else ("new", ml, t0))
        prog += [("app", 1, 0, k) for k in range(n)]
    elif twin == "paste":
        prog += [("emptyd", 0, ml, t0 + 0), ("paste", 1, 0, False, ml), ("pset", 2, "torigin", t0)]
    elif twin == "copy":
        prog.append(("copy", 0))
    j = {"app": 1, "paste": 2, "copy": 1, "self": 0}[twin]
    for _ in range(rng.choice((0, 0, 1, 1, 2))):
        i = rng.choice((0, j))
        what = rng.choice(("pset", "pset", "pset", "set", "repl", "pattr", "del", "seti"))
        if what == "pset":
            f = rng.choice(PFIELDS)
            v = rng.choice(MAXLENS) if f == "maxlen" else rng.choice((None, 0, 1, 2)) if f in ("generated", "pathnum", "weights") \
                else rng.randint(0, 3)
            prog.append(("pset", i, f, v))
        elif what == "set" and n:
            prog.append(("set", i, rng.randrange(n), "order", [rng.randint(-1, 4)] if rng.random() < 0.9 else []))
        elif what == "seti" and n:
            prog.append(("seti", i, rng.randrange(n), rng.randint(5, 9)))
        elif what == "repl" and n:
            prog += [("cpa", i, 0, rng.randrange(n)), ("del", i, rng.randrange(n))]
        elif what == "pattr":
            prog.append(("pattr", i, rng.randint(0, 1)))
            if rng.random() < 0.5:
                prog.append(("pattr", rng.choice((0, j)), rng.randint(0, 1)))
        elif what == "del" and n:
            prog.append(("del", i, rng.randrange(n)))
    prog += [("eq", 0, j), ("ne", 0, j), ("eq", j, 0), ("eq", 0, 0), ("ne", j, j)]
    return prog


def systematic_shoot(nmax):
    """every path length 0..nmax × every answer of the generator (u = 0..nmax); a frame with an empty order list
    at the chosen index; a frame object occurring twice"""
    for L in range(0, nmax + 1):
        for u in range(0, nmax + 1):
            base = [("new", None, 0)] + [("sys", 0, plain_vals(k % 3, k)) for k in range(L)]
            yield base + [("shoot", 0, u)]
            if L >= 3:
                k = 1 + u % (L - 2)
                yield base + [("set", 0, k, "order", []), ("shoot", 0, u), ("shoot", 0, u + 1)]
                yield base + [("repl", 0, k, 0, 0), ("shoot", 0, u), ("new", 3, 0), ("shoot", 1, u)]


def systematic_upd(nmax):
    """update_energies: every (path length, len(ekin), len(vpot)) up to nmax(+1); also with a frame object that
    occurs twice in the path and with frames shared with a second path"""
    for L in range(0, nmax + 1):
        for ne_ in range(0, nmax + 2):
            for nv in range(0, nmax + 2):
                base = [("new", None, 0)] + [("sys", 0, dict(plain_vals(k, k), ekin=k % 2 or None, vpot=-(k % 3) or None))
                                            for k in range(L)]
                ek, vp = [5 + k for k in range(ne_)], [-5 - k for k in range(nv)]
                yield base + [("upd", 0, ek, vp)]
                if L >= 2 and (ne_ + nv) % 3 == 0:
                    yield base + [("app", 0, 0, 0), ("upd", 0, ek, vp), ("copy", 0), ("upd", 1, vp, ek)]
                    yield base + [("new", None, 0), ("paste", 0, 1, False, None), ("upd", 2, ek, vp), ("upd", 0, vp, ek)]


SCALES = (1, 2, 4, 4, 8, 1 << 20)


def prog_scale(prog):
    return next((op[1] for op in prog if op[0] == "scale"), 1)


def prog_line(prog):
    S = prog_scale(prog)
    return "prog " + " ".join(t for t in (op_tokens(op, S) for op in prog) if t)


def systematic_long(plan, light=False):
    """LONG paths (64 / 200 / 1000 frames) with the limit just below / at / above the length (set after the frames
    are in) or None, through copy, reverse (with and without order re-computation), +=, paste (explicit limit below /
    at / above the total), ==, classify and get_shooting_point — length-dependent behaviour is invisible on the short
    paths of the random programs"""
    for n, lims in plan:
        frames = [("sys", 0, plain_vals((k * 5) % 9 - 2, k, k % 3 == 0)) for k in range(n)]
        donor = [("sys", 1, plain_vals((k * 7) % 11 - 3, 5000 + k, k % 2 == 0)) for k in range(64)]
        for lim in lims:
            base = [("scale", 4), ("new", None, 3), ("new", None, 0)] + frames + donor + [("pset", 0, "maxlen", lim)]
            yield base + [("copy", 0), ("classify", 2, 2, [0, 3, 6]), ("classify", 0, 2, [0, 3, 6]), ("eq", 0, 2),
                          ("shoot", 0, 0), ("shoot", 0, n // 2), ("shoot", 0, n - 3), ("shoot", 2, n - 4),
                          ("set", 2, n // 2, "order", [9]), ("seta", 2, n // 3, "pos", 17), ("classify", 0, 2, [0, 3, 6])]
            yield base + [("rev", 0, None, True), ("rev", 0, (1, 1, 0, True), True), ("classify", 2, 2, [0, 3, 6]),
                          ("classify", 3, 1, [6, 0, 3]), ("rev", 2, None, True), ("eq", 0, 4)]
            for m in ((n - 1, None) if light else (n - 1, n, n + 1, None)):
                yield base + [("new", m, 0), ("iadd", 2, 0), ("classify", 2, 2, [0, 3, 6]), ("iadd", 2, 1), ("shoot", 2, 1)]
            for ov in (False, True):
                tot = n + 64 - (1 if ov else 0)
                for ml in ((tot - 1, None) if light else (tot - 1, tot, tot + 1, None, n - 1)):
                    yield base + [("paste", 0, 1, ov, ml), ("classify", 2, 2, [0, 3, 6]), ("copy", 2), ("rev", 2, None, True),
                                  ("paste", 1, 0, ov, ml), ("shoot", 2, n)]


def log_key(tok):
    if tok.startswith("min="):
        return "log:classify"
    if tok.startswith("shoot:"):
        return "log:shoot:" + ("ok" if "err" not in tok else tok.split(":", 3)[3])
    if tok.startswith("upd:"):
        return "log:upd:" + ("full" if tok == "upd:0:0" else "short")
    if tok.startswith("adr"):
        return "log:adr"
    if tok.startswith("paste") or tok.startswith("iadd"):
        return "log:" + ",".join(x.split(":")[0] for x in tok.split(","))
    return "log:" + tok


def gen_program(rng, nops):
    """prelude: 1–3 paths with 0–5 frames; then `nops` random ops. Keeps a shadow of path lengths only
    to choose mostly-valid indices (a few ops are deliberately ill-formed → 'skip')."""
    prog = []
    lens = []
    mls = []

    def room(i):
        return mls[i] is None or lens[i] < mls[i]

    for _ in range(rng.randint(1, 3)):
        ml = rng.choice(MAXLENS)
        prog.append(("new", ml, rng.randint(-5, 5)))
        lens.append(0)
        mls.append(ml)
        i = len(lens) - 1
        for _k in range(rng.randint(0, 5)):
            prog.append(("sys", i, rand_vals(rng)))
            if room(i):
                lens[i] += 1
    body = 0
    while body < nops:
        body += 1
        n = len(lens)
        i = rng.randrange(n)
        j = rng.randrange(n)
        if rng.random() < 0.03:
            i = n + rng.randint(0, 2)   # ill-formed
        kind = rng.choice(("paste", "paste", "paste", "rev", "rev", "copy", "copy", "iadd", "iadd", "app", "sys",
                           "set", "set", "seti", "pset", "new", "classify", "classify", "classify", "repl", "ext", "del", "cpa", "empty",
                           "eq", "ne", "shoot", "upd", "emptyd", "seta", "seta", "adr", "revvel", "newsub", "pattr"))
        if kind == "new":
            ml = rng.choice(MAXLENS)
            prog.append(("new", ml, rng.randint(-5, 5)))
            lens.append(0)
            mls.append(ml)
        elif kind == "sys":
            prog.append(("sys", i, rand_vals(rng)))
            if i < n and room(i):
                lens[i] += 1
        elif kind == "app":
            k = rng.randrange(lens[j]) if lens[j] and rng.random() < 0.95 else lens[j] + rng.randint(0, 1)
            prog.append(("app", i, j, k))
            if i < n and k < lens[j] and room(i):
                lens[i] += 1
        elif kind == "iadd":
            if i == j and rng.random() < 0.9:
                j = (i + 1) % max(n, 1)
            prog.append(("iadd", i, j))
            if i < n and j < n and i != j:
                add = lens[j] if mls[i] is None else max(0, min(lens[j], mls[i] - lens[i]))
                lens[i] += add
        elif kind == "copy":
            prog.append(("copy", i))
            if i < n:
                lens.append(lens[i] if mls[i] is None else min(lens[i], max(mls[i], 0)))
                mls.append(mls[i])
        elif kind == "rev":
            of = None if rng.random() < 0.4 else (rng.randint(-1, 2), rng.randint(-1, 2), rng.randint(-1, 1), rng.random() < 0.6)
            prog.append(("rev", i, of, rng.random() < 0.75))
            if i < n:
                lens.append(lens[i] if mls[i] is None else min(lens[i], max(mls[i], 0)))
                mls.append(mls[i])
        elif kind == "paste":
            ml = rng.choice((None, None, None, None, 100, 6, 4, 3, 2, 1, 0, -1))
            ov = rng.random() < 0.6
            prog.append(("paste", i, j, ov, ml))
            if i < n and j < n:
                if ml is not None:
                    cap = ml
                elif mls[i] == mls[j]:
                    cap = mls[i]
                elif mls[i] is None or mls[j] is None:
                    cap = mls[j] if mls[i] is None else mls[i]
                else:
                    cap = max(mls[i], mls[j])
                tot = lens[i] + lens[j] - (1 if ov and lens[j] else 0)
                lens.append(tot if cap is None else min(tot, max(cap, 0)))
                mls.append(cap)
        elif kind == "set":
            k = rng.randrange(lens[i]) if i < n and lens[i] and rng.random() < 0.97 else rng.randint(0, 6)
            f, v = rand_field(rng)
            prog.append(("set", i, k, f, v))
        elif kind == "seti":
            k = rng.randrange(lens[i]) if i < n and lens[i] and rng.random() < 0.97 else rng.randint(0, 6)
            prog.append(("seti", i, k, rng.randint(5, 9)))
        elif kind == "classify":
            prog.append(("classify", i, rng.randint(-1, 4), rand_intf(rng)))
        elif kind == "cpa":
            k = rng.randrange(lens[j]) if lens[j] and rng.random() < 0.95 else lens[j] + rng.randint(0, 1)
            prog.append(("cpa", i, j, k))
            if i < n and k < lens[j] and room(i):
                lens[i] += 1
        elif kind == "empty":
            ml = rng.choice(MAXLENS)
            prog.append(("empty", i, ml, rng.randint(-3, 3)))
            if i < n:
                lens.append(0)
                mls.append(ml)
        elif kind == "repl":
            k = rng.randrange(lens[i]) if i < n and lens[i] and rng.random() < 0.95 else rng.randint(0, 6)
            l = rng.randrange(lens[j]) if lens[j] and rng.random() < 0.95 else rng.randint(0, 6)
            prog.append(("repl", i, k, j, l))
        elif kind in ("eq", "ne"):
            prog.append((kind, i, j if rng.random() < 0.8 else i))
        elif kind == "shoot":
            prog.append(("shoot", i, rng.randint(0, 9)))
        elif kind == "upd":
            li = lens[i] if i < n else 2
            prog.append(("upd", i, [rng.randint(0, 9) for _ in range(max(0, li + rng.choice((0, 0, 0, -1, -2, 1))))],
                         [rng.randint(-9, 0) for _ in range(max(0, li + rng.choice((0, 0, 0, -1, -3, 2))))]))
        elif kind == "emptyd":
            ml = rng.choice(("omit", "omit") + MAXLENS)
            prog.append(("emptyd", i, ml, rng.choice(("omit", "omit", -2, 0, 3))))
            if i < n:
                lens.append(0)
                mls.append(100000 if ml == "omit" else ml)
        elif kind == "seta":
            k = rng.randrange(lens[i]) if i < n and lens[i] and rng.random() < 0.97 else rng.randint(0, 6)
            prog.append(("seta", i, k, rng.choice(ARRS), rng.randint(10, 19)))
        elif kind == "adr":
            prog.append(("adr", i))
        elif kind == "revvel":
            k = rng.randrange(lens[i]) if i < n and lens[i] and rng.random() < 0.97 else rng.randint(0, 6)
            prog.append(("revvel", i, k))
        elif kind == "newsub":
            ml = rng.choice(MAXLENS)
            prog.append(("newsub", ml, rng.randint(-5, 5), rng.randint(1, 2)))
            lens.append(0)
            mls.append(ml)
        elif kind == "pattr":
            prog.append(("pattr", i, rng.randint(0, 2)))
        elif kind == "ext":
            prog.append(("ext", i, j))
            if i < n:
                lens[i] = max(lens[i] - 1, 0) + lens[j]
        elif kind == "del":
            k = rng.randrange(lens[i]) if i < n and lens[i] and rng.random() < 0.95 else rng.randint(0, 6)
            prog.append(("del", i, k))
            if i < n and k < lens[i]:
                lens[i] -= 1
        elif kind == "pset":
            f = rng.choice(PFIELDS)
            if f == "maxlen":
                v = rng.choice(MAXLENS + (-1,))
                if i < n:
                    mls[i] = v
            elif f in ("generated", "pathnum", "weights"):
                v = rng.choice((None, 0, 1, 2, 3))
            else:
                v = rng.randint(0, 4)
            prog.append(("pset", i, f, v))
    return prog



# --------------------------------------------------------------------------- near-tie order values (float class)
NEAR_S = 1 << 60


def near_tie_cls_cases(rng, n):
    """classification cases whose order values are NOT on a coarse grid: values h / 2^60 with h next to a centre value
    (an interface) by a few double-precision ulps (2^7 in these units for values in [1/2, 1)) or by a few
    single-precision steps (2^-24 … 2^-26 relative), in runs where the extreme is not the first of the near-ties.
    Every h is a multiple of 2^7 below 2^60 in magnitude, so h / 2^60 is an exact double."""
    S = NEAR_S
    centres = (1 << 59, 3 << 58, 5 << 57, 1 << 58, -(1 << 59), -(3 << 58), 7 << 56)   # 0.5 0.75 0.625 0.25 -0.5 -0.75 0.4375
    steps = (1 << 7, 1 << 7, 1 << 8, 1 << 33, 1 << 34, 1 << 35, 1 << 36)
    out = []
    for _ in range(n):
        c = rng.choice(centres)

        def near():
            return c + rng.choice((-3, -2, -1, -1, 0, 1, 1, 2, 3)) * rng.choice(steps)
        far = (c - (1 << 57), c + (1 << 57), c - (1 << 56), c + (1 << 56))
        ops = []
        L = rng.randint(3, 12)
        while len(ops) < L:
            if rng.random() < 0.5:
                run = [near() for _ in range(rng.randint(2, 4))]
                # the extreme of the run strictly inside it (never first)
                run.insert(rng.randint(1, len(run)), (max(run) + rng.choice(steps)) if rng.random() < 0.5 else (min(run) - rng.choice(steps)))
                ops += run
            else:
                ops.append(rng.choice(far))
        t = rng.choice(((c - (1 << 57), c, c + (1 << 57)), (c, c, c + (1 << 56)), (c - (1 << 56), near(), c + (1 << 56)),
                        (c,), (c - (1 << 57), c)))
        assert all(abs(h) < S and h % (1 << 7) == 0 for h in list(ops) + list(t))
        out.append((tuple(ops), tuple(t), S))
    return out

# --------------------------------------------------------------------------- classification
def mk(Path, System, ops, maxlen=100_000):
    p = Path(maxlen=maxlen)
    for o in ops:
        s = System()
        s.order = [real(o)]
        p.phasepoints.append(s)
    return p


def code_cls(p, intf):
    def vi(get):
        try:
            v, i = get()
            return f"{tok(v)},{int(i)}"
        except Exception as e:  # noqa: BLE001
            return err_kind(e)
    try:
        s, e, m, c = p.check_interfaces([real(x) for x in intf])
        chk = f"{s},{e},{m}," + ("".join("1" if b else "0" for b in c) if c else "-")
    except Exception as ex:  # noqa: BLE001
        chk = err_kind(ex)
    return f"min={vi(lambda: p.ordermin)} max={vi(lambda: p.ordermax)} chk={chk}"


def want_cls(ops, intf):
    """the property, stated on the sequence: classifications agree with the extreme values.
    Returns (ordermin, ordermax, check) with check=None where the property says nothing (|intf|<2)"""
    if not ops:
        return None, None, ("None", "None", "*", [False] * len(intf))
    lo, hi = min(ops), max(ops)
    omin = (lo, ops.index(lo))
    omax = (hi, ops.index(hi))
    if len(intf) < 2:
        return omin, omax, None
    cross = [any(x < lam for x in ops) and any(x >= lam for x in ops) for lam in intf]
    first, last = ops[0], ops[-1]

    def side(x, undefined):
        if all(x <= lam for lam in intf):
            return "L"
        if all(x >= lam for lam in intf):
            return "R"
        return undefined
    return omin, omax, (side(first, "?"), side(last, "None"), "M" if cross[1] else "*", cross)


def check_cls(ctx, ops, intf, got, S=1):
    """property predicate on the implementation's answer `got` (canonical string); everything in scaled units"""
    omin, omax, chk = want_cls(list(ops), list(intf))
    parts = dict(x.split("=", 1) for x in got.split(" "))
    rep = {"kind": "cls", "ops": list(ops), "intf": list(intf), "code": got, "scale": S}
    if omin is not None:
        if parts["min"] != f"{omin[0]},{omin[1]}":
            ctx.fail("C15:ordermin", f"ordermin {parts['min']} but min of the sequence is {omin} (first index)", rep)
        if parts["max"] != f"{omax[0]},{omax[1]}":
            ctx.fail("C15:ordermax", f"ordermax {parts['max']} but max of the sequence is {omax} (first index)", rep)
    if chk is not None:
        w = f"{chk[0]},{chk[1]},{chk[2]}," + ("".join("1" if b else "0" for b in chk[3]) if chk[3] else "-")
        if parts["chk"] != w:
            g = parts["chk"].split(",")
            if g[:2] != list(chk[:2]):
                sig = "C15:start-end-classification"
            else:
                sig = "C15:crossing-classification"
            ctx.fail(sig, f"check_interfaces gives {parts['chk']}, extreme values give {w}", rep)


def code_side(p, which, left, right):
    try:
        r = (p.get_start_point if which == "sp" else p.get_end_point)(real(left), None if right is None else real(right))
        return str(r)
    except Exception as e:  # noqa: BLE001
        return err_kind(e)


# --------------------------------------------------------------------------- run
def run(ctx):
    mods = _imports()
    np, pathmod, Path, paste_paths, System = mods
    rng = ctx.rng
    import logging
    logging.getLogger("infretis.classes.path").setLevel(logging.ERROR)
    ctx.rule = ("op programs: prelude (1–3 paths × 0–5 frames) + ≤12 random ops (incl. classify / replace frame / "
                "extender slice+concat / delete / == / != / get_shooting_point / update_energies / empty_path with "
                "omitted keywords / in-place numpy mutation / adress / reverse_velocities / subclass / extra attribute); "
                "aliasing programs (shared frames or shallow copies + in-place mutation), equality programs (twin paths "
                "holding the same frame objects, one difference), over-limit programs, systematic get_shooting_point "
                "(every length × every answer) and update_energies (every length triple); histories on one Path object: classify → in-place change → classify "
                "(random, and systematic over all sequences ≤3 (thorough 4) × position × new value); non-trivial = the "
                "program contains a paste/reverse/copy/iadd/classify on a non-empty path; distinct by the program's "
                "token line. Classification: "
                "every sequence over a 5-level alphabet up to length 6 × interface triples; non-trivial = non-empty "
                "sequence; distinct by (interfaces, sequence).")
    have_model = ctx._driver_ok

    # ---- 1. op programs
    nprog = 4000 if ctx.quick else 60000
    progs = [gen_program(rng, rng.randint(1, 12)) for _ in range(nprog)]
    progs += [gen_history(rng) for _ in range(2500 if ctx.quick else 40000)]
    progs += list(systematic_histories(3 if ctx.quick else 4))
    progs += list(systematic_pastes(3 if ctx.quick else 5))
    progs += [gen_alias(rng) for _ in range(1500 if ctx.quick else 30000)]
    progs += [gen_eq(rng) for _ in range(1500 if ctx.quick else 30000)]
    progs += [gen_trunc(rng) for _ in range(800 if ctx.quick else 15000)]
    progs += list(systematic_shoot(6 if ctx.quick else 9))
    if ctx.quick:
        progs += list(systematic_long([(64, (None, 63, 64, 65))]))
        progs += list(systematic_long([(200, (199, 201)), (1000, (999,))], light=True))
    else:
        progs += list(systematic_long([(n, (None, n - 1, n, n + 1)) for n in (64, 200, 1000)]))
    progs += list(systematic_upd(3 if ctx.quick else 5))
    lines, code_out = [], []
    shrunk = set()
    # every program runs at a dyadic scale (see `real`): same integers, real values h / S
    progs = [pr if pr and pr[0][0] == "scale" else [("scale", rng.choice(SCALES))] + list(pr) for pr in progs]
    for prog in progs:
        m = run_program(mods, prog, check=True)
        code_out.append(m.line())
        lines.append(prog_line(prog))
        ctx.hit(f"scale={prog_scale(prog)}")
        ctx.count(1, branch="program")
        for b in m.branches:
            ctx.hit("op:" + b)
        for tk in m.log:
            ctx.hit(log_key(tk))
        if any(b.split(":")[0] in ("paste", "rev", "copy", "iadd", "classify", "eq", "ne", "shoot", "upd") for b in m.branches):
            ctx.distinct(lines[-1])
        for sig, what in m.fails:
            small = prog
            if sig not in shrunk:
                shrunk.add(sig)
                small = shrink(mods, prog, sig)
                what = next((w for s_, w in run_program(mods, small).fails if s_ == sig), what)
            ctx.fail(sig, what, {"kind": "prog", "prog": [list(op) for op in small], "line": prog_line(small)})
        if len(ctx.fails) >= 20:   # enough failing inputs: do not let badly broken code run into the time limit
            ctx.extra["programs_stopped_early_after"] = len(lines)
            break
    if have_model:
        out = ctx.driver(lines)
        for prog, c, mo in zip(progs[:len(lines)], code_out, out):
            if c != mo:
                ctx.disagree({"fn": "op program", "scale": prog_scale(prog), "prog": prog_line(prog)}, c, mo)
    for k in (0, 1):
        ctx.sample({"prog": lines[k], "code": code_out[k]})

    # ---- 2. classification, exhaustive
    levels = (-1, 0, 1, 2, 3)
    maxlen = 6 if ctx.quick else 7
    triples = [(0, 1, 2), (0, 2, 2), (0, 0, 2), (1, 1, 1), (2, 0, 1), (0, 3, 1), (-1, 1, 3), (-2, 1, 4)]
    short_intf = [(), (1,), (0, 2), (0, 1, 2, 3)]
    cls_cases = []
    for L in range(0, maxlen + 1):
        for ops in itertools.product(levels, repeat=L):
            for t in triples:
                cls_cases.append((ops, t, 4))          # quarter units: real levels -0.25 … 0.75
            if L <= 4:
                for t in short_intf:
                    cls_cases.append((ops, t, 4))
    for _ in range(500 if ctx.quick else 20000):
        L = rng.randint(7, 40)
        ops = tuple(rng.randint(-3, 6) for _ in range(L))
        t = tuple(rng.randint(-2, 5) for _ in range(3))
        cls_cases.append((ops, t, rng.choice(SCALES)))
    # order values a few ulps / a few single-precision steps apart (near-ties of the extremes, values next to an interface)
    cls_cases += near_tie_cls_cases(rng, 1500 if ctx.quick else 30000)
    ctx.extra["exhaustive_part"] = (f"classification: all sequences of length ≤ {maxlen} over 5 levels × {len(triples)} "
                                    f"interface triples (+ interface lists of length 0,1,2,4 for length ≤ 4)")
    ctx.exhaustive = False
    code_c = []
    last_ops, p = None, None
    for ops, t, S in cls_cases:
        try:
            set_scale(S)
            if ops is not last_ops:
                p = mk(Path, System, ops)
                last_ops = ops
            code_c.append(code_cls(p, t))
        except Exception as e:  # noqa: BLE001
            code_c.append(f"min=raised max=raised chk=raised:{type(e).__name__}")
    if have_model:
        out = ctx.driver([f"cls {lst(t)} {lst(ops)}" for ops, t, _S in cls_cases])
    for k, (ops, t, S) in enumerate(cls_cases):
        ctx.count(1, branch="classification")
        if ops:
            ctx.distinct(("cls", t, ops))
        if have_model and code_c[k] != out[k]:
            ctx.disagree({"fn": "ordermin/ordermax/check_interfaces", "ops": ops, "intf": t, "scale": S}, code_c[k], out[k])
        check_cls(ctx, ops, t, code_c[k], S)
        if k % 40009 == 7:
            ctx.sample({"fn": "cls", "ops": list(ops), "intf": list(t), "code": code_c[k]})
    # get_start_point / get_end_point incl. right=None and left > right
    se_cases = []
    for L in range(0, 4):
        for ops in itertools.product(levels, repeat=L):
            for (l, r) in ((0, 2), (1, 1), (1, None), (2, 0), (0, None)):
                se_cases.append((ops, l, r))
    code_s = []
    set_scale(4)
    for ops, l, r in se_cases:
        try:
            p = mk(Path, System, ops)
            code_s.append((code_side(p, "sp", l, r), code_side(p, "ep", l, r)))
        except Exception as e:  # noqa: BLE001
            code_s.append(("raised:" + type(e).__name__, "raised:" + type(e).__name__))
    if have_model:
        outs = ctx.driver([f"sp {l} {opt(r)} {lst(ops)}" for ops, l, r in se_cases])
        oute = ctx.driver([f"ep {l} {opt(r)} {lst(ops)}" for ops, l, r in se_cases])
    for k, (ops, l, r) in enumerate(se_cases):
        ctx.count(1, branch="start/end")
        if have_model and (code_s[k][0] != outs[k] or code_s[k][1] != oute[k]):
            ctx.disagree({"fn": "get_start_point/get_end_point", "ops": ops, "left": l, "right": r},
                         code_s[k], (outs[k], oute[k]))
        rr = l if r is None else r
        if ops and l <= rr:
            ws = "L" if ops[0] <= l else "R" if ops[0] >= rr else "?"
            we = "L" if ops[-1] <= l else "R" if ops[-1] >= rr else "None"
            if code_s[k] != (ws, we):
                ctx.fail("C15:start-end-classification", f"start/end {code_s[k]} expected {(ws, we)}",
                         {"kind": "se", "ops": list(ops), "left": l, "right": r, "scale": 4})
    ctx.assumptions = [a for a in ctx.assumptions if not a.startswith("[C15]")]
    ctx.assumptions += ["[C15] " + a for a in [
        "order values, interfaces and classification targets are dyadic rationals h/S (S in 1, 2, 4, 8, 2^20 per "
        "program; exhaustive families in quarter units), exact as floats and read back exactly (fractions, no rounding); "
        "the Int model is fed the integers h (all comparisons are scale invariant); energies and array-valued fields "
        "are small integers",
        "NaN order values are OUTSIDE: nothing in this tie generates or judges them (System() starts with [-nan] and is "
        "always overwritten before use)",
        "the AssertionError of get_start_point / get_end_point for left > right (model: Err.assert) exists only when "
        "Python runs without -O; the tie runs without -O",
        "reversing twice: a path LONGER than its limit (reachable through load_paths_from_disk or a lowered maxlen) is "
        "not restored (Lean: reverse_reverse_overlimit_counterexample); the tie evaluates these cases, judges them "
        "against what the model proves (the last maxlen frames, in order) and counts them in the histogram "
        "(op:rev:twice-overlimit-not-restored / -restored)",
        "`self += self` (iteration over the list being extended) is outside the model and not generated",
        "object identity is tracked for System objects, the `order` list and the pos / vel / box arrays and the temperature "
        "dict (one-element containers): both re-assignment and in-place mutation (x[0] = v, x[...] = v, fill, dict item / "
        "update) are generated and compared with the model's sharing",
        "Path.__eq__: class and attribute-name set are tracked by the op machine (subclasses of Path, extra attributes); "
        "standard attributes are never deleted; System defines no __eq__ (frames compare by identity)",
        "get_shooting_point: the generator is a stub that records the request and answers lo + u mod (hi-lo) (ValueError "
        "for an empty range, like numpy); in addition a real numpy Generator is used for the predicate",
        "warnings of paste_paths / __iadd__ / update_energies are captured from the module logger and compared with the "
        "model's branch (which loop gave up, at which length); debug-level messages are not compared",
        "the order function passed to reverse reads only the field values of the System it is given",
        "object-history checks (one long-lived Path classified repeatedly, fresh System()/Path() pristine after other "
        "instances were changed in place, argument purity of paste/copy/reverse/+=, result↔source aliasing in both "
        "directions) are tie-only: the Lean model is functional and has no hidden state",
        "order=None is not modelled (System() starts with [-nan]; nothing in infretis assigns None)",
    ]]


def replay(ctx, obj):
    mods = _imports()
    np, pathmod, Path, paste_paths, System = mods
    r = obj.get("replay", {})
    kind = r.get("kind")
    if kind == "prog":
        prog = []
        for op in r["prog"]:
            op = list(op)
            if op[0] == "rev" and op[2] is not None:
                op[2] = tuple(op[2])
            if op[0] == "set" and op[3] == "config":
                op[4] = tuple(op[4])
            prog.append(tuple(op))
        m = run_program(mods, prog, check=True)
        for sig, what in m.fails:
            print("still fails:", sig, what)
        print("final state:", m.line())
        return 1 if m.fails else 0
    if kind == "cls":
        set_scale(r.get("scale", 1))
        p = mk(Path, System, r["ops"])
        got = code_cls(p, r["intf"])

        class C:
            n = 0

            def fail(self, sig, what, rep):
                print("still fails:", sig, what)
                self.n += 1
        c = C()
        check_cls(c, r["ops"], r["intf"], got, r.get("scale", 1))
        print("code:", got)
        return 1 if c.n else 0
    if kind == "se":
        set_scale(r.get("scale", 1))
        p = mk(Path, System, r["ops"])
        l, rr = r["left"], r["right"]
        got = (code_side(p, "sp", l, rr), code_side(p, "ep", l, rr))
        r2 = l if rr is None else rr
        ops = r["ops"]
        ws = "L" if ops[0] <= l else "R" if ops[0] >= r2 else "?"
        we = "L" if ops[-1] <= l else "R" if ops[-1] >= r2 else "None"
        print("code:", got, "expected:", (ws, we))
        return 0 if got == (ws, we) else 1
    print(json.dumps(obj, indent=1, default=str))
    return 1
